"""C04 — encoding modifiers find the payload in encoded data at every alignment."""
from __future__ import annotations

import ast
import base64
import itertools
from typing import Any, Optional

from ..prog import AnalysisError, FuncInfo, call_name, short, stmt_head, unparse, walk_no_nested
from ..util import assignments_to, atomic_guards, cfg_of, const_eval, guards_at

M = "sigma.modifiers"
OFF = M + ".SigmaBase64OffsetModifier"


def run(ctx) -> None:
    r = ctx.r
    r.explanation = (
        "The base64offset construction is extracted from the source (offset tuples, shift range, padding byte string, slice "
        "index expressions) and compared with the tables derived from Base64 arithmetic; in the thorough tier the extracted "
        "expressions are evaluated for every (shift, length) class against real Base64 encodings of payloads embedded in "
        "arbitrary contexts (containment and context independence) — an evaluation of the extracted arithmetic, not of pySigma. "
        "The length operand is checked to be the byte length of the very bytes that are encoded, SigmaString.__bytes__ to bypass "
        "plain-form escaping, each UTF-16 modifier to use the codec its name states inside a UnicodeDecodeError→SigmaValueError "
        "guard, and wildcard values to be rejected before encoding. Library behaviour of base64/codecs is trusted.")
    r1_offset_tables(ctx)
    r2_units(ctx)
    r3_byte_source(ctx)
    r4_utf16(ctx)
    r5_wildcards_rejected(ctx)
    r6_wildcard_width(ctx)
    # the payload is the parsed Sigma value: only `re` takes the raw text of a value literally (shared with C03.R10)
    from . import c03
    c03.r10_re_needs_text(ctx, "C04.R7")


def _extract(ctx) -> dict[str, Any]:
    prog = ctx.prog
    c = prog.cls(OFF)
    f = prog.func(OFF + ".modify")
    m = f.module
    out: dict[str, Any] = {}
    for nm in ("start_offsets", "end_offsets"):
        a = prog.lookup_class_attr(OFF, nm)
        if a is None:
            raise AnalysisError(f"anchor vanished: {OFF}.{nm}")
        try:
            out[nm] = tuple(const_eval(prog, m, a[1].value))  # type: ignore[attr-defined]
        except ValueError:
            raise AnalysisError(f"{OFF}.{nm} is not a constant tuple")
    allcomps = [n for n in walk_no_nested(f.node) if isinstance(n, (ast.ListComp, ast.GeneratorExp))]
    comps = [n for n in allcomps if isinstance(n.generators[0].iter, ast.Call) and call_name(n.generators[0].iter) == "range"]
    if len(comps) != 1:
        raise AnalysisError(f"{f.qual}: expected exactly one comprehension over range(...) building the variants")
    comp = comps[0]
    g = comp.generators[0]
    out["filters"] = [unparse(i) for c in allcomps for gg in c.generators for i in gg.ifs]
    out["shifts"] = list(range(*[const_eval(prog, m, a) for a in g.iter.args]))
    out["var"] = unparse(g.target)
    subs = [n for n in ast.walk(comp.elt) if isinstance(n, ast.Subscript) and isinstance(n.slice, ast.Slice)]
    if len(subs) != 1:
        raise AnalysisError(f"{f.qual}: slice of the encoded text not found")
    sl = subs[0]
    enc = sl.value
    if not (isinstance(enc, ast.Call) and call_name(enc).split(".")[-1] == "b64encode"):
        raise AnalysisError(f"{f.qual}: sliced expression is not b64encode(...)")
    out["encoded_arg"] = enc.args[0]
    out["lower"], out["upper"] = sl.slice.lower, sl.slice.upper
    out["slice_node"] = sl
    out["func"] = f
    return out


def _eval_index(expr: Optional[ast.AST], env: dict[str, Any]) -> Any:
    """Evaluate a slice bound expression over a tiny environment."""
    if expr is None:
        return None
    code = compile(ast.Expression(body=expr), "<slice>", "eval")
    return eval(code, {"__builtins__": {"len": len, "min": min, "max": max, "abs": abs}}, env)  # noqa: S307 - extracted arithmetic only


def r1_offset_tables(ctx) -> None:
    r, prog = ctx.r, ctx.prog
    r.rule("C04.R1", "base64offset tables: shifts 0..2, padding of i bytes, start offset ceil(8i/6) → (0,2,3), end offset by (byte length + i) mod 3 → (None,-3,-2); thorough: the extracted slice arithmetic is checked against real Base64 text for every shift/length class and context")
    x = _extract(ctx)
    f: FuncInfo = x["func"]
    loc = f.loc
    want_start = tuple((8 * i + 5) // 6 for i in range(3))
    want_end = (None, -3, -2)
    if x["shifts"] == [0, 1, 2]:
        r.ok("C04.R1", f.qual, "shifts range(3)", loc)
    else:
        r.violation("C04.R1", f.qual, f"shifts {x['shifts']}", "the payload can sit at byte offsets ≡ 0, 1, 2 (mod 3) of the encoded data; exactly these three alignments are needed", loc)
    if x["start_offsets"] == want_start:
        r.ok("C04.R1", OFF, f"start_offsets = {x['start_offsets']}", loc)
    else:
        r.violation("C04.R1", OFF, f"start_offsets = {x['start_offsets']}",
                    f"a prefix of i bytes determines ceil(8i/6) leading Base64 characters; expected {want_start}: a smaller offset keeps characters that depend on the preceding bytes, a larger one drops payload information", loc)
    if x["end_offsets"] == want_end:
        r.ok("C04.R1", OFF, f"end_offsets = {x['end_offsets']}", loc)
    else:
        r.violation("C04.R1", OFF, f"end_offsets = {x['end_offsets']}",
                    f"a residue r=(length+shift) mod 3 leaves 0/3/2 trailing characters that are padding or depend on the following bytes; expected {want_end}", loc)
    # shape of the slice expressions
    v = x["var"]
    lo, up = unparse(x["lower"]) if x["lower"] is not None else None, unparse(x["upper"]) if x["upper"] is not None else None
    if lo == f"self.start_offsets[{v}]":
        r.ok("C04.R1", f.qual, f"lower bound {lo}", loc)
    else:
        r.violation("C04.R1", f.qual, f"lower bound {lo}", f"the start offset must be indexed by the shift {v}", loc)
    pad_ok = False
    arg = x["encoded_arg"]
    if isinstance(arg, ast.BinOp) and isinstance(arg.op, ast.Add) and unparse(arg.left).replace("'", '"') in (f'{v} * b" "', f'b" " * {v}'):
        pad_ok = True
        x["payload_expr"] = arg.right
    if pad_ok:
        r.ok("C04.R1", f.qual, f"encoded bytes = {unparse(arg)}", loc)
    else:
        r.violation("C04.R1", f.qual, f"encoded bytes = {short(arg, 80)}", f"the text must be the Base64 of {v} filler bytes followed by the payload", loc)
    # the residue expression
    up_ok = False
    if isinstance(x["upper"], ast.Subscript) and unparse(x["upper"].value) == "self.end_offsets":
        idx = x["upper"].slice
        if isinstance(idx, ast.BinOp) and isinstance(idx.op, ast.Mod) and isinstance(idx.right, ast.Constant) and idx.right.value == 3:
            inner = idx.left
            if isinstance(inner, ast.BinOp) and isinstance(inner.op, ast.Add):
                parts = {unparse(inner.left), unparse(inner.right)}
                lens = [p for p in parts if p.startswith("len(")]
                if v in parts and len(lens) == 1:
                    up_ok = True
                    x["len_expr"] = inner.left if unparse(inner.left).startswith("len(") else inner.right
    lens = [c for c in walk_no_nested(f.node) if isinstance(c, ast.Call) and call_name(c) == "len"]
    if "len_expr" not in x and len(lens) == 1:
        x["len_expr"] = lens[0]
    if x.get("filters"):
        r.violation("C04.R1", f.qual, f"variants filtered by {x['filters']}", "every alignment variant is needed: a legitimately empty or short variant (1-byte payload at offset ≡ 1 mod 3) dropped here means encoded data at that alignment is never matched", loc)
    else:
        r.ok("C04.R1", f.qual, "no variant is filtered out", loc)
    ctx._c04 = x  # type: ignore[attr-defined]
    # evaluate the extracted arithmetic (quick: bounds for all shift/length classes; thorough: also against Base64 text in context)
    if pad_ok:
        bad = _arith_check(x, deep=(ctx.tier == "thorough"))
        n = bad.pop("_n")
        if not bad:
            r.ok("C04.R1", f.qual, f"extracted slice arithmetic (with local definitions) evaluated for all shifts × payload lengths 1..6" + (f" and on {n} (payload, prefix, suffix, filler) contexts against Base64 text: every variant occurs in the encoding of its alignment class" if ctx.tier == "thorough" else ""))
        else:
            k, wit = next(iter(bad.items()))
            r.violation("C04.R1", f.qual, f"slice arithmetic, class {k}", f"evaluating the extracted index expressions against Base64: {wit}", loc)
    r.floor("C04.R1", 6)


def _arith_check(x: dict[str, Any], deep: bool = True) -> dict[str, Any]:
    """Evaluate value_i(payload) = b64(i*b' '+payload)[lower:upper] with the *extracted* expressions and tables."""
    bad: dict[str, Any] = {}
    n = 0
    v = x["var"]

    class _Self:
        start_offsets = x["start_offsets"]
        end_offsets = x["end_offsets"]

    f = x["func"]
    top = [s2 for st0 in f.node.body for s2 in (st0.body if isinstance(st0, ast.Try) else [st0])]  # a try around the assignment does not change its value
    local_assigns = [st for st in top if isinstance(st, ast.Assign) and len(st.targets) == 1 and isinstance(st.targets[0], ast.Name)
                     and not any(isinstance(n, (ast.ListComp, ast.GeneratorExp, ast.SetComp, ast.DictComp, ast.Lambda)) for n in ast.walk(st.value))]
    alphabet = [b"a", b"\xc3", b"\x00"]
    for L in range(1, 7):
        for payload in (b"".join(p) for p in itertools.product(alphabet, repeat=min(L, 3))):
            payload = (payload * 3)[:L]
            values = []
            for i in x["shifts"]:
                # the length operand is evaluated as the byte length (units are C04.R2's business)
                env = {"self": _Self, v: i, "val": payload}
                try:
                    for st in local_assigns:
                        env[st.targets[0].id] = eval(compile(ast.Expression(body=st.value), "<local>", "eval"),
                                                     {"__builtins__": {"len": len, "bytes": bytes, "min": min, "max": max, "abs": abs, "divmod": divmod}}, env)  # noqa: S307
                    lo = _eval_index(x["lower"], env)
                    up = _eval_index(x["upper"], env)
                except Exception as e:  # the extracted expression is outside the evaluable subset
                    raise AnalysisError(f"slice arithmetic not evaluable: {e}")
                want_lo, want_up = (8 * i + 5) // 6, (None, -3, -2)[(len(payload) + i) % 3]
                if (lo or 0, up) != (want_lo, want_up):
                    bad[f"L={len(payload)},shift={i}"] = (f"slice bounds evaluate to [{lo}:{up}] for a payload of {len(payload)} bytes shifted by {i}; Base64 arithmetic requires "
                                                          f"[{want_lo}:{want_up}] (leading characters tainted by the filler / trailing characters that are padding or depend on following bytes)")
                    bad["_n"] = n
                    return bad
                values.append(base64.b64encode(i * b" " + payload)[lo:up])
            for plen in (range(0, 6) if deep else ()):
                for slen in range(0, 4):
                    for fill in (b"\x00", b"\xff"):
                        n += 1
                        data = base64.b64encode(fill * plen + payload + fill * slen)
                        if not any(val in data for val in values):
                            bad[f"L={L},prefix={plen}"] = f"payload {payload!r} at offset {plen} (suffix {slen}, fill {fill!r}): none of {values} occurs in {data!r}"
                            bad["_n"] = n
                            return bad
                        val = values[plen % 3] if len(values) == 3 else None
                        if val is not None and val not in data:
                            bad[f"L={L},shift={plen % 3}"] = f"variant for alignment {plen % 3} {val!r} of payload {payload!r} does not occur in {data!r}: it contains characters that depend on the surrounding bytes or padding"
                            bad["_n"] = n
                            return bad
    bad["_n"] = n
    return bad


def r2_units(ctx) -> None:
    r, prog = ctx.r, ctx.prog
    r.rule("C04.R2", "the length that selects the end offset is the number of *bytes* of exactly the byte string that is encoded")
    x = getattr(ctx, "_c04", None) or _extract(ctx)
    f: FuncInfo = x["func"]
    le = x.get("len_expr")
    pe = x.get("payload_expr")
    if le is None or pe is None:
        r.violation("C04.R2", f.qual, "len(<payload bytes>)", "length operand / payload expression not recognised", f.loc)
        return
    arg = le.args[0]
    t = ctx.types.type_str(f.module, arg)
    loc = f"{f.module.relpath}:{le.lineno}"
    same = unparse(arg) == unparse(pe)
    is_bytes = t is not None and t.split("[")[0] in ("builtins.bytes", "bytes")
    if is_bytes and same:
        # and that name is bytes(val)
        ok_src = True
        if isinstance(arg, ast.Name):
            defs = assignments_to(f.node, arg.id)
            ok_src = len(defs) == 1 and unparse(defs[0]) == "bytes(val)"
        elif unparse(arg) != "bytes(val)":
            ok_src = False
        if ok_src:
            r.ok("C04.R2", f.qual, f"len({unparse(arg)}) — typed {t}, the same expression that is encoded, = bytes(val)", loc)
        else:
            r.violation("C04.R2", f.qual, f"len({unparse(arg)})", "the encoded byte string is not bytes(val)", loc)
    else:
        r.violation("C04.R2", f.qual, f"len({unparse(arg)}) vs encoded {unparse(pe)}",
                    f"the residue is computed from {unparse(arg)} (type {t}) but the encoded bytes are {unparse(pe)}: for a payload with multi-byte characters the character count differs from the byte count and the wrong end offset is chosen", loc)
    r.floor("C04.R2", 1)


def r3_byte_source(ctx) -> None:
    r, prog = ctx.r, ctx.prog
    r.rule("C04.R3", "bytes(SigmaString) are the characters of the value: __bytes__ does not go through the escaping plain form")
    f = prog.func("sigma.types.SigmaString.__bytes__")
    rets = [x for x in walk_no_nested(f.node) if isinstance(x, ast.Return)]
    if len(rets) != 1:
        raise AnalysisError(f"{f.qual}: expected one return")
    v = unparse(rets[0].value)
    loc = f"{f.module.relpath}:{rets[0].lineno}"
    escaping = ("str(self)" in v) or ("self.to_plain()" in v) or ("to_plain(regex=False)" in v) or ("self.original" in v) or ("repr(" in v)
    raw = ("to_plain(regex=True)" in v) or ("to_plain_regex()" in v) or ("for" in v and "self.s" in v)
    if raw and not escaping and ".encode(" in v:
        r.ok("C04.R3", f.qual, v, loc)
    elif "self.original" in v:
        r.violation("C04.R3", f.qual, v, "self.original is the unparsed source text and is empty/stale for values built by earlier modifiers (wide, utf16*, contains …): a chain such as wide|base64 would encode the wrong bytes", loc)
    else:
        r.violation("C04.R3", f.qual, v, "the plain form escapes literal '*' and '?' with a backslash, which would be encoded as part of the payload", loc)
    # to_plain(regex=True) leaves str parts untouched
    tp = prog.func("sigma.types.SigmaString.to_plain")
    okp = False
    for n in walk_no_nested(tp.node):
        if isinstance(n, ast.If) and unparse(n.test) == "regex" and len(n.body) == 1 and unparse(n.body[0]) in ("rs += s", "rs = rs + s"):
            gs = atomic_guards(guards_at(prog, tp, n.test))
            if ("isinstance(s, str)", True) in gs:
                okp = True
    if okp:
        r.ok("C04.R3", tp.qual, "regex=True branch appends string parts unchanged", tp.loc)
    else:
        r.violation("C04.R3", tp.qual, "if regex: rs += s", "the unescaped rendering no longer passes string parts through unchanged", tp.loc)
    # what the Base64 modifiers encode is bytes(val) (plus padding), never a rendering of the value as text
    for cn in ("SigmaBase64Modifier", "SigmaBase64OffsetModifier"):
        bf = prog.func(f"{M}.{cn}.modify")
        encs = [c for c in walk_no_nested(bf.node) if isinstance(c, ast.Call) and call_name(c).split(".")[-1] == "b64encode"]
        if not encs:
            raise AnalysisError(f"{bf.qual}: b64encode call not found")
        for c in encs:
            exprs = [c.args[0]]
            seen: set[str] = set()
            texts = []
            while exprs:
                e = exprs.pop()
                texts.append(unparse(e))
                for nm in (x for x in ast.walk(e) if isinstance(x, ast.Name)):
                    if nm.id not in seen and nm.id not in ("val", "self", "bytes", "i", "len"):
                        seen.add(nm.id)
                        exprs.extend(v for v in assignments_to(bf.node, nm.id) if isinstance(v, ast.AST) and not isinstance(v, (ast.For, ast.comprehension, ast.With, ast.ExceptHandler)))
            joined = " ; ".join(texts)
            loc = f"{bf.module.relpath}:{c.lineno}"
            textual = [k for k in ("str(val)", "val.to_plain", "val.original", ".encode(", "repr(") if k in joined]
            if "bytes(val)" in joined and not textual:
                r.ok("C04.R3", bf.qual, f"b64encode({short(c.args[0], 50)}) encodes bytes(val)", loc)
            else:
                r.violation("C04.R3", bf.qual, short(c, 100), f"the encoded byte string is not bytes(val) ({textual or 'no bytes(val)'}): a textual rendering of the value contains the escaping backslashes of literal '*' and '?' (and is stale for values built by earlier modifiers), so other bytes than the payload are encoded", loc)
    r.floor("C04.R3", 4)


def r4_utf16(ctx) -> None:
    r, prog = ctx.r, ctx.prog
    r.rule("C04.R4", "wide/utf16be/utf16 encode with the codec their name states and re-decode inside a try whose UnicodeDecodeError handler raises SigmaValueError; non-string parts pass through; only utf16 prepends the BOM, first")
    spec = {"SigmaWideModifier": ("utf-16le", False), "SigmaUTF16BEModifier": ("utf-16be", False), "SigmaUTF16Modifier": ("utf-16le", True)}
    mm = prog.module(M)
    reg = {}
    for st in mm.tree.body:
        if isinstance(st, (ast.Assign, ast.AnnAssign)) and unparse(st.targets[0] if isinstance(st, ast.Assign) else st.target) == "modifier_mapping":
            for k, v in zip(st.value.keys, st.value.values):  # type: ignore[union-attr]
                reg[k.value] = unparse(v)
    for ident, cn in (("wide", "SigmaWideModifier"), ("utf16be", "SigmaUTF16BEModifier"), ("utf16", "SigmaUTF16Modifier"), ("base64", "SigmaBase64Modifier"), ("base64offset", "SigmaBase64OffsetModifier")):
        if reg.get(ident) == cn:
            r.ok("C04.R4", M + ".modifier_mapping", f"{ident!r} → {cn}")
        else:
            r.violation("C04.R4", M + ".modifier_mapping", f"{ident!r} → {reg.get(ident)}", f"identifier {ident!r} must map to {cn}")
    for cn, (codec, bom) in spec.items():
        f = prog.func(f"{M}.{cn}.modify")
        loc = f.loc
        encs = [c for c in walk_no_nested(f.node) if isinstance(c, ast.Call) and isinstance(c.func, ast.Attribute) and c.func.attr == "encode"]
        codecs = []
        for c in encs:
            try:
                codecs.append(str(const_eval(prog, f.module, c.args[0])).lower().replace("_", "-"))
            except (ValueError, IndexError):
                codecs.append("?")
        lenient = [c for c in encs if len(c.args) > 1 or c.keywords]
        if lenient:
            r.violation("C04.R4", f.qual, short(lenient[0], 80), "the encode step is given an error handler: code points without an encoding (lone surrogates) are let through instead of refused — with the UTF-8 re-decoding trick D8..DF 80..BF is even valid, so `'\\udc80'` comes out as another character", loc)
        if codecs == [codec]:
            r.ok("C04.R4", f.qual, f"encodes with {codec}", loc)
        else:
            r.violation("C04.R4", f.qual, f"encode codecs {codecs}", f"{cn} must encode string parts with {codec}", loc)
        for c in encs:
            p = prog.parent(prog.parent(c))
            dec_ok = isinstance(p, ast.Call) and isinstance(p.func, ast.Attribute) and p.func.attr == "decode" and p.args and const_eval(prog, f.module, p.args[0]).lower().replace("_", "-") in ("utf-8", "utf8")
            from ..raises import caught_locally
            h = caught_locally(prog, f, c, "UnicodeDecodeError")
            he = caught_locally(prog, f, c, "UnicodeEncodeError")
            if he is None:
                r.violation("C04.R4", f.qual, short(prog.enclosing_stmt(c), 100) + " [UnicodeEncodeError]", "the encode step itself fails for surrogate code points (YAML \"\\uD83D\"): UnicodeEncodeError is not handled, so a non-Sigma exception leaves rule loading instead of SigmaValueError", loc)
            else:
                r.ok("C04.R4", f.qual, "UnicodeEncodeError of the encode step is handled as well", loc)
            if dec_ok and h is not None and any(isinstance(x, ast.Raise) and "SigmaValueError" in unparse(x) for x in ast.walk(h)):
                r.ok("C04.R4", f.qual, "re-decoded as utf-8 inside try/except UnicodeDecodeError → SigmaValueError", loc)
            else:
                r.violation("C04.R4", f.qual, short(prog.enclosing_stmt(c), 100), "the re-decoding step must be guarded so that undecodable byte sequences are rejected with SigmaValueError (not UnicodeDecodeError, not silently altered)", loc)
            if dec_ok:
                use = prog.parent(p)
                if isinstance(use, ast.Call) and call_name(use) == "r.append" and use.args and use.args[0] is p:
                    r.ok("C04.R4", f.qual, "the re-decoded text itself is the new part", loc)
                else:
                    r.violation("C04.R4", f.qual, short(prog.enclosing_stmt(c), 100), "the encode/decode round trip is only used as a test and the part is built some other way: the round trip *is* the encoding (it also rejects what it cannot represent), a hand-built interleaving accepts characters whose UTF-16 bytes happen to be valid UTF-8 and emits bytes that are not UTF-16", loc)
            gs = atomic_guards(guards_at(prog, f, c))
            if ("isinstance(item, str)", True) in gs:
                r.ok("C04.R4", f.qual, "only str parts are encoded; other parts are appended unchanged", loc)
            else:
                r.violation("C04.R4", f.qual, short(c, 60), "encoding must be restricted to str parts (wildcards/placeholders pass through)", loc)
        boms = [c for c in walk_no_nested(f.node) if isinstance(c, ast.Constant) and c.value == "﻿"]
        if bom:
            first = None
            for st in f.node.body:
                if isinstance(st, ast.Expr) and isinstance(st.value, ast.Call) and call_name(st.value) == "r.append":
                    first = st
                    break
                if isinstance(st, ast.For):
                    break
            if boms and first is not None and any(b is x for b in boms for x in ast.walk(first)):
                r.ok("C04.R4", f.qual, "BOM is the first part", loc)
            else:
                r.violation("C04.R4", f.qual, "r.append('\\ufeff')", "utf16 must prepend the byte order mark before any payload part", loc)
            # the BOM is stored as the *character* U+FEFF: bytes() of the value give its UTF-8 form EF BB BF, not FF FE
            r.violation("C04.R4", f.qual, "BOM stored as character U+FEFF",
                        "the value's bytes are produced by UTF-8 encoding the parts; U+FEFF encodes to EF BB BF, so utf16|base64 does not start with the UTF-16LE BOM bytes FF FE "
                        "(the re-decoding trick cannot represent FF FE, which is not valid UTF-8)", loc)
        elif boms:
            r.violation("C04.R4", f.qual, "'\\ufeff'", f"{cn} must not add a byte order mark", loc)
    r.floor("C04.R4", 12)


def r6_wildcard_width(ctx) -> None:
    """After wide/utf16/utf16be every character of the text takes two bytes; '?' stands for one character."""
    from ..tabulate import Interp, Raised
    r, prog = ctx.r, ctx.prog
    r.rule("C04.R6", "wildcards in encoded values: the modify() loops of wide/utf16be/utf16, interpreted on a value with both wildcards (sa.tabulate), keep '*' as it is and widen '?' to two one-byte wildcards (or refuse it) — one '?' between two-byte code units matches no encoded string")

    class _SC:
        def __init__(self, n):
            self.n = n

        def __repr__(self):
            return self.n

    S, Mu = _SC("?"), _SC("*")
    sc = type("SpecialChars", (), {"WILDCARD_SINGLE": S, "WILDCARD_MULTI": Mu})

    class _Str:
        def __init__(self, *a, **k):
            self.s = []

    class _PH:
        pass

    spec = {"SigmaWideModifier": ("utf-16le", False), "SigmaUTF16BEModifier": ("utf-16be", False), "SigmaUTF16Modifier": ("utf-16le", True)}
    for cn, (codec, bom) in spec.items():
        f = prog.func(f"{M}.{cn}.modify")
        val = _Str()
        val.s = ["ab", S, "c", Mu]
        me = type("Mod", (), {"source": None})()
        for nm, sts in prog.cls(f"{M}.{cn}").assigns.items():  # class-level constants the loop may read
            for st_ in sts:
                if getattr(st_, "value", None) is not None:
                    try:
                        setattr(me, nm, const_eval(prog, f.module, st_.value))
                    except Exception:
                        pass
        it = Interp({"self": me, "val": val, "SigmaString": _Str, "Placeholder": _PH, "SpecialChars": sc, "UnicodeError": UnicodeError,
                     "UnicodeDecodeError": UnicodeDecodeError, "UnicodeEncodeError": UnicodeEncodeError,
                     "SigmaValueError": type("SigmaValueError", (Exception,), {})})
        try:
            out = it.call(f.node.body)
        except AnalysisError as ex:  # a body the interpreter cannot follow is not a verdict; the floor below reports the gap
            r.note(f"C04.R6: {f.qual} not tabulated: {ex}")
            continue
        except Raised as ex:
            if "SigmaValueError" in str(ex):
                r.ok("C04.R6", f.qual, "a value with '?' is refused with SigmaValueError", f.loc)
            else:
                r.violation("C04.R6", f.qual, "modify(['ab', ?, 'c', *])", f"raises {ex}", f.loc)
            continue
        got = list(getattr(out, "s", []))
        enc = lambda t: t.encode(codec).decode("utf-8")
        want = (["\ufeff"] if bom else []) + [enc("ab"), S, S, enc("c"), Mu]
        if got == want:
            r.ok("C04.R6", f.qual, "['ab', ?, 'c', *] → encoded parts, '?' widened to two single wildcards, '*' kept", f.loc)
        else:
            r.violation("C04.R6", f.qual, f"modify(['ab', ?, 'c', *]) = {got!r}",
                        f"specified {want!r}: the character a '?' stands for takes two bytes in the encoded text; kept as one wildcard the value is p\\0o\\0?e\\0… and matches none of the UTF-16 forms of the strings the pattern describes", f.loc)
    r.floor("C04.R6", 3)


def r5_wildcards_rejected(ctx) -> None:
    r, prog = ctx.r, ctx.prog
    r.rule("C04.R5", "both Base64 modifiers reject values with wildcards before encoding (contains_special() → SigmaValueError dominates b64encode)")
    for cn in ("SigmaBase64Modifier", "SigmaBase64OffsetModifier"):
        f = prog.func(f"{M}.{cn}.modify")
        encs = [c for c in walk_no_nested(f.node) if isinstance(c, ast.Call) and call_name(c).split(".")[-1] == "b64encode"]
        if not encs:
            raise AnalysisError(f"{f.qual}: b64encode call not found")
        for c in encs:
            gs = atomic_guards(guards_at(prog, f, c))
            loc = f"{f.module.relpath}:{c.lineno}"
            raised = any(isinstance(n, ast.If) and unparse(n.test) == "val.contains_special()" and isinstance(n.body[0], ast.Raise) and "SigmaValueError" in unparse(n.body[0]) for n in walk_no_nested(f.node))
            if ("val.contains_special()", False) in gs and raised:
                r.ok("C04.R5", f.qual, "b64encode only when not val.contains_special(); otherwise SigmaValueError", loc)
            else:
                r.violation("C04.R5", f.qual, short(c, 80), "a value with wildcards would be encoded (the '*' would become part of the Base64 payload) instead of being rejected", loc)
    r.floor("C04.R5", 2)
