"""C04 — encoding modifiers find the payload in encoded data at every alignment."""
from __future__ import annotations

import ast
import base64
import itertools
from typing import Any, Optional

from ..prog import AnalysisError, FuncInfo, call_name, short, stmt_head, unparse, walk_no_nested
from ..util import assignments_to, atomic_guards, cfg_of, const_eval, guards_at

M = "sigma.modifiers"
OFF = M + ".SigmaBase64OffsetModifier"


def run(ctx) -> None:
    r = ctx.r
    r.explanation = (
        "The base64offset construction is extracted from the source (offset tuples, shift range, padding byte string, slice "
        "index expressions) and compared with the tables derived from Base64 arithmetic; in the thorough tier the extracted "
        "expressions are evaluated for every (shift, length) class against real Base64 encodings of payloads embedded in "
        "arbitrary contexts (containment and context independence) — an evaluation of the extracted arithmetic, not of pySigma. "
        "The length operand is checked to be the byte length of the very bytes that are encoded, SigmaString.__bytes__ to bypass "
        "plain-form escaping, each UTF-16 modifier to use the codec its name states inside a UnicodeDecodeError→SigmaValueError "
        "guard, and wildcard values to be rejected before encoding. Library behaviour of base64/codecs is trusted.")
    r1_offset_tables(ctx)
    r2_units(ctx)
    r3_byte_source(ctx)
    r4_utf16(ctx)
    r5_wildcards_rejected(ctx)
    r6_wildcard_width(ctx)
    # the payload is the parsed Sigma value: only `re` takes the raw text of a value literally (shared with C03.R10)
    from . import c03
    c03.r10_re_needs_text(ctx, "C04.R7")


class _SC:
    def __init__(self, n): self.n = n
    def __repr__(self): return self.n


WS, WM = _SC("?"), _SC("*")


class PlaceholderPart:
    def __init__(self, name="p"): self.name = name
    def __repr__(self): return f"%{self.name}%"


def modifier_outcome(ctx, cn: str, parts: list, payload: Optional[bytes] = None, class_state: Optional[dict] = None) -> tuple[str, Any]:
    """modify() of the encoding modifier class `cn` interpreted (sa.tabulate, Proxy: inherited bodies, helper functions of the
    module and class constants resolve from the source; base64 and str.encode of the standard library are the only library) on
    a stand-in string with the given parts. → ('parts', list) | ('texts', list[str]) | ('refused', text) | ('error', name)."""
    import base64 as _b64
    from ..tabulate import Proxy, call_method, Raised
    prog = ctx.prog

    class SigmaString:
        def __init__(self, t=None):
            self.s = [t] if isinstance(t, str) and t else []
            self.t = t

    class SigmaExpansion:
        def __init__(self, values): self.values = list(values)

    class SigmaValueError(Exception):
        def __init__(self, *a, **k): super().__init__(*a)

    class _Val(SigmaString):
        def __init__(self):
            self.s = list(parts)

        def __bytes__(self):
            if payload is not None:
                return payload
            return "".join(x if isinstance(x, str) else repr(x) for x in self.s).encode("utf-8")

        def __str__(self): return "".join(x if isinstance(x, str) else repr(x) for x in self.s)
        def __len__(self): return sum(len(x) if isinstance(x, str) else 1 for x in self.s)
        def __iter__(self): return iter(self.s)
        def contains_special(self): return any(isinstance(x, _SC) for x in self.s)
        def contains_placeholder(self, *a, **k): return any(isinstance(x, PlaceholderPart) for x in self.s)
        def to_plain(self, *a, **k): return str(self)

    sc = type("SpecialChars", (), {"WILDCARD_SINGLE": WS, "WILDCARD_MULTI": WM})
    env = {"SigmaString": SigmaString, "SigmaExpansion": SigmaExpansion, "SigmaValueError": SigmaValueError, "Placeholder": PlaceholderPart, "SpecialChars": sc,
           "UnicodeError": UnicodeError, "UnicodeDecodeError": UnicodeDecodeError, "UnicodeEncodeError": UnicodeEncodeError,
           "b64encode": _b64.b64encode, "base64": _b64, "cast": lambda t, v: v, "SigmaType": object}
    if class_state is not None:
        env["__class_state__"] = class_state
    IK = {"behaviours": (SigmaValueError, UnicodeError), "max_steps": 6000}
    cq = f"{M}.{cn}"
    me = Proxy(prog, cq, env, {"source": None, "applied_modifiers": [], "detection_item": None}, interp_kwargs=IK)
    try:
        out = call_method(prog, cq, "modify", me, env, _Val(), interp_kwargs=IK)
    except Raised as ex:
        return ("refused", str(ex)) if "SigmaValueError" in str(ex) or "Sigma" in str(ex) else ("error", str(ex))
    if isinstance(out, SigmaExpansion):
        return ("texts", [getattr(v, "t", v) for v in out.values])
    if isinstance(out, SigmaString):
        return ("parts", list(out.s)) if out.t is None or out.s != [out.t] else ("texts", [out.t])
    return ("error", repr(out))


def _offset_variants(ctx, payload: bytes, chars: Optional[int] = None) -> Any:
    """SigmaBase64OffsetModifier.modify interpreted (sa.tabulate, Proxy: class tables and helpers resolve from the source;
    base64 of the standard library is the only library) on a stand-in value whose bytes are `payload` and whose length in
    characters is `chars`. Returns the texts of the variants, or the refusal."""
    import base64 as _b64
    from ..tabulate import Proxy, call_method, Raised
    prog = ctx.prog

    class SigmaString:
        def __init__(self, t=""): self.t = t

    class SigmaExpansion:
        def __init__(self, values): self.values = list(values)

    class SigmaValueError(Exception):
        def __init__(self, *a, **k): super().__init__(*a)

    class _Part(str):     # a part whose UTF-8 form is the given payload (for payloads that are no UTF-8 text)
        def encode(self, *a, **k): return payload

    def _parts():
        # the parts of the stand-in value: several plain parts (as the utf16 modifier builds them: BOM + text) whose joined UTF-8
        # form is the payload
        try:
            text = payload.decode("utf-8")
        except UnicodeDecodeError:
            return [_Part(payload.decode("utf-8", "replace"))]
        return [text[:1], text[1:]] if len(text) >= 2 else [text] if text else []

    class _Val:
        s = property(lambda self_: _parts())
        def __iter__(self): return iter(_parts())
        def __bytes__(self): return payload
        def __len__(self): return len(payload) if chars is None else chars
        def __str__(self): return payload.decode("utf-8", "replace")
        def contains_special(self): return False
        def contains_placeholder(self, *a, **k): return False
        def to_plain(self, *a, **k): return str(self)

    env = {"SigmaString": SigmaString, "SigmaExpansion": SigmaExpansion, "SigmaValueError": SigmaValueError, "UnicodeError": UnicodeError,
           "b64encode": _b64.b64encode, "base64": _b64, "cast": lambda t, v: v, "SigmaType": object}
    IK = {"behaviours": (SigmaValueError,), "max_steps": 4000}
    me = Proxy(prog, OFF, env, {"source": None, "applied_modifiers": [], "detection_item": None}, interp_kwargs=IK)
    try:
        out = call_method(prog, OFF, "modify", me, env, _Val(), interp_kwargs=IK)
    except Raised as ex:
        return f"<raises {ex}>"
    if not isinstance(out, SigmaExpansion) or not all(isinstance(v, SigmaString) and isinstance(v.t, str) for v in out.values):
        return f"<{out!r}>"
    return [v.t for v in out.values]


def _reference_variants(payload: bytes) -> list[str]:
    """What Base64 arithmetic requires: for a prefix of i bytes the first ceil(8i/6) characters depend on the prefix, and for
    r = (length + i) mod 3 the last 0/3/2 characters are padding or depend on the bytes that follow."""
    return [base64.b64encode(i * b" " + payload)[(8 * i + 5) // 6:(None, -3, -2)[(len(payload) + i) % 3]].decode() for i in range(3)]


def r1_offset_tables(ctx) -> None:
    r, prog = ctx.r, ctx.prog
    r.rule("C04.R1", "base64offset: for every payload the variants are exactly Base64(i filler bytes + payload)[ceil(8i/6) : end by (byte length + i) mod 3 → (None,-3,-2)] for i = 0, 1, 2 — modify() interpreted on stand-in values for all payload lengths 1..6 over an alphabet with multi-byte and zero bytes; thorough: every variant is looked up in real Base64 text of its alignment class for every context")
    f: FuncInfo = prog.func(OFF + ".modify")
    loc = f.loc
    deep = ctx.tier == "thorough"
    alphabet = [b"a", b"\xc3", b"\x00"]
    bad: list[str] = []
    n = ncontexts = 0
    for L in range(1, 7):
        for payload in (b"".join(p) for p in itertools.product(alphabet, repeat=min(L, 3))):
            payload = (payload * 3)[:L]
            n += 1
            got = _offset_variants(ctx, payload)
            want = _reference_variants(payload)
            if not isinstance(got, list) or sorted(got) != sorted(want):
                why = ""
                if isinstance(got, list):
                    if len(got) < 3:
                        why = " — every alignment variant is needed: the payload can sit at byte offsets ≡ 0, 1, 2 (mod 3) of the encoded data; a legitimately empty or short variant (1-byte payload at offset ≡ 1 mod 3) dropped here means encoded data at that alignment is never matched"
                    else:
                        why = " — leading characters tainted by the filler / trailing characters that are padding or depend on following bytes"
                bad.append(f"payload {payload!r}: variants {got}, Base64 arithmetic requires {want}{why}")
                continue
            for plen in (range(0, 6) if deep else ()):
                for slen in range(0, 4):
                    for fill in (b"\x00", b"\xff"):
                        ncontexts += 1
                        data = base64.b64encode(fill * plen + payload + fill * slen).decode()
                        if want[plen % 3] not in data:  # the reference itself, as a check of the specification used here
                            raise AnalysisError(f"reference variant {want[plen % 3]!r} does not occur in {data!r}")
    if not bad:
        r.ok("C04.R1", f.qual, f"modify() interpreted on {n} payloads (lengths 1..6): three variants, slices [ceil(8i/6) : end by (byte length + i) mod 3]" + (f"; the specification used was itself checked on {ncontexts} (payload, prefix, suffix, filler) contexts against Base64 text" if deep else ""), loc)
    else:
        r.violation("C04.R1", f.qual, f"base64offset variants: {bad[0]}", f"{len(bad)} of {n} interpreted payloads deviate", loc)
    for nm, want_t in (("start_offsets", tuple((8 * i + 5) // 6 for i in range(3))), ("end_offsets", (None, -3, -2))):
        a = prog.lookup_class_attr(OFF, nm)
        if a is not None:
            try:
                v = tuple(const_eval(prog, f.module, a[1].value))  # type: ignore[attr-defined]
            except Exception:
                continue
            if v == want_t:
                r.ok("C04.R1", OFF, f"{nm} = {v}", loc)
            elif bad:
                r.violation("C04.R1", OFF, f"{nm} = {v}", f"expected {want_t}: a prefix of i bytes determines ceil(8i/6) leading Base64 characters; a residue r=(length+shift) mod 3 leaves 0/3/2 trailing characters that are padding or depend on the following bytes", loc)
    r.floor("C04.R1", 1)


def r2_units(ctx) -> None:
    r, prog = ctx.r, ctx.prog
    r.rule("C04.R2", "the length that selects the end offset is the number of *bytes* of exactly the byte string that is encoded: modify() interpreted on stand-in values whose character count differs from their byte count")
    f: FuncInfo = prog.func(OFF + ".modify")
    bad = []
    cases = [("\u00e9".encode(), 1), ("a\u00e9".encode(), 2), ("\u00e9\u00e9".encode(), 2), ("\u20ac".encode(), 1), ("ab\u20ac".encode(), 3), ("\U0001f600".encode(), 1)]
    for payload, chars in cases:
        got = _offset_variants(ctx, payload, chars)
        want = _reference_variants(payload)
        if not isinstance(got, list) or sorted(got) != sorted(want):
            bad.append(f"value {payload.decode()!r} ({chars} character(s), {len(payload)} bytes): variants {got}, required {want}")
    if not bad:
        r.ok("C04.R2", f.qual, f"interpreted on {len(cases)} values with multi-byte characters: the end offset follows the byte length of the encoded bytes", f.loc)
    else:
        r.violation("C04.R2", f.qual, f"base64offset units: {bad[0]}",
                    f"{len(bad)} of {len(cases)} cases deviate: for a payload with multi-byte characters the character count differs from the byte count and the wrong end offset is chosen", f.loc)
    r.floor("C04.R2", 1)


def r3_byte_source(ctx) -> None:
    r, prog = ctx.r, ctx.prog
    r.rule("C04.R3", "bytes(SigmaString) are the characters of the value: __bytes__ does not go through the escaping plain form")
    f = prog.func("sigma.types.SigmaString.__bytes__")
    tp = prog.func("sigma.types.SigmaString.to_plain")
    # both interpreted (sa.tabulate) on a stand-in string with literal wildcard characters, a backslash, both wildcard
    # parts and a non-ASCII character; `original` holds stale text as it does for values built by earlier modifiers
    from ..tabulate import Raised
    from .standins import string_standin
    Str, _Cased, _PH, sc, _env = string_standin(ctx)
    # … and characters that Unicode normalisation would change (a decomposed accent, the ohm sign): the payload is the
    # characters as written, byte for byte
    parts = ["a*b?", sc.WILDCARD_MULTI, "c\\d", sc.WILDCARD_SINGLE, "\u00e9e\u0301\u2126"]
    chars = "a*b?*c\\d?\u00e9e\u0301\u2126"
    try:
        got = Str(parts).call("__bytes__")
    except Raised as ex:
        got = f"<raises {ex}>"
    if got == chars.encode("utf-8"):
        r.ok("C04.R3", f.qual, f"bytes({parts}) = {got!r}: the characters of the value in UTF-8, no escaping backslashes, `original` not consulted", f.loc)
    elif isinstance(got, bytes) and b"stale" in got:
        r.violation("C04.R3", f.qual, f"bytes({parts}) = {got!r}", "self.original is the unparsed source text and is empty/stale for values built by earlier modifiers (wide, utf16*, contains …): a chain such as wide|base64 would encode the wrong bytes", f.loc)
    else:
        r.violation("C04.R3", f.qual, f"bytes({parts}) = {got!r}", f"specified {chars.encode('utf-8')!r}: the plain form escapes literal '*' and '?' with a backslash, which would be encoded as part of the payload", f.loc)
    try:
        got = Str(parts).call("to_plain", True)
        got2 = Str(parts).call("to_plain", regex=True)
    except Raised as ex:
        got = got2 = f"<raises {ex}>"
    if got == chars and got2 == chars:
        r.ok("C04.R3", tp.qual, "to_plain(regex=True) gives the characters of the value: string parts unchanged", tp.loc)
    else:
        r.violation("C04.R3", tp.qual, f"to_plain(regex=True) of {parts} = {got!r}", f"specified {chars!r}: the unescaped rendering no longer passes string parts through unchanged", tp.loc)
    # what the Base64 modifiers encode is bytes(val) (plus padding), never a rendering of the value as text: modify() interpreted
    # on a stand-in value whose bytes differ from each of its text forms
    payload = b"\x01PAYLOAD\xfe"
    for cn in ("SigmaBase64Modifier", "SigmaBase64OffsetModifier"):
        bf = prog.func(f"{M}.{cn}.modify")
        kind, got = modifier_outcome(ctx, cn, ["text-form"], payload=payload)
        want = [base64.b64encode(payload).decode()] if cn == "SigmaBase64Modifier" else _reference_variants(payload)
        if kind == "texts" and sorted(got) == sorted(want):
            r.ok("C04.R3", bf.qual, "the encoded byte string is bytes(val): interpreted on a value whose bytes differ from its text forms", bf.loc)
        else:
            textual = [nm for nm, t in (("str(val)", b"text-form"), ) if kind == "texts" and any(base64.b64encode(t).decode()[:6] in g or g in base64.b64encode(b"  " + t).decode() for g in got if g)]
            r.violation("C04.R3", bf.qual, f"b64encode(...) of a value with bytes {payload!r} and text 'text-form': {got!r}", f"the encoded byte string is not bytes(val) ({textual or 'no bytes(val)'}; specified {want}): a textual rendering of the value contains the escaping backslashes of literal '*' and '?' (and is stale for values built by earlier modifiers), so other bytes than the payload are encoded", bf.loc)
    r.floor("C04.R3", 4)


def r4_utf16(ctx) -> None:
    r, prog = ctx.r, ctx.prog
    r.rule("C04.R4", "wide/utf16be/utf16 encode with the codec their name states and re-decode inside a try whose UnicodeDecodeError handler raises SigmaValueError; non-string parts pass through; only utf16 prepends the BOM, first")
    spec = {"SigmaWideModifier": ("utf-16le", False), "SigmaUTF16BEModifier": ("utf-16be", False), "SigmaUTF16Modifier": ("utf-16le", True)}
    mm = prog.module(M)
    reg = {}
    for st in mm.tree.body:
        if isinstance(st, (ast.Assign, ast.AnnAssign)) and unparse(st.targets[0] if isinstance(st, ast.Assign) else st.target) == "modifier_mapping":
            for k, v in zip(st.value.keys, st.value.values):  # type: ignore[union-attr]
                reg[k.value] = unparse(v)
    for ident, cn in (("wide", "SigmaWideModifier"), ("utf16be", "SigmaUTF16BEModifier"), ("utf16", "SigmaUTF16Modifier"), ("base64", "SigmaBase64Modifier"), ("base64offset", "SigmaBase64OffsetModifier")):
        if reg.get(ident) == cn:
            r.ok("C04.R4", M + ".modifier_mapping", f"{ident!r} → {cn}")
        else:
            r.violation("C04.R4", M + ".modifier_mapping", f"{ident!r} → {reg.get(ident)}", f"identifier {ident!r} must map to {cn}")
    for cn, (codec, bom) in spec.items():
        f = prog.lookup_method(f"{M}.{cn}", "modify")
        if f is None:
            raise AnalysisError(f"anchor vanished: {M}.{cn}.modify")
        loc = f.loc
        wq = f"{M}.{cn}.modify"  # reported under the modifier class the rule writer sees, wherever modify() is implemented
        enc = lambda t: t.encode(codec).decode("utf-8")  # noqa: E731
        pre = ["\ufeff"] if bom else []
        # text whose UTF-16 bytes are valid UTF-8 is re-encoded part by part; special parts stay where they are
        kind, got = modifier_outcome(ctx, cn, ["ab", WM, "c"])
        want = pre + [enc("ab"), WM, enc("c")]
        if (kind, got) == ("parts", want):
            r.ok("C04.R4", wq, f"encodes string parts with {codec} (re-decoded as UTF-8 text), other parts pass through" + ("; BOM is the first part" if bom else ""), loc)
        elif kind == "parts" and bom and got and got[0] != "\ufeff" and [x for x in got if x != "\ufeff"] == want[1:]:
            r.violation("C04.R4", wq, f"modify(['ab', *, 'c']) = {got!r}", "utf16 must prepend the byte order mark before any payload part", loc)
        elif kind == "parts" and not bom and "\ufeff" in got:
            r.violation("C04.R4", wq, "'\\ufeff'", f"{cn} must not add a byte order mark", loc)
        else:
            r.violation("C04.R4", wq, f"modify(['ab', *, 'c']) → {kind} {got!r}", f"specified {want!r}: {cn} must encode string parts with {codec}; the encode/decode round trip *is* the encoding (wildcards pass through)", loc)
        # a character whose UTF-16 bytes happen to be valid UTF-8 comes out as those bytes (U+0141: 41 01), and a second
        # value gets the same treatment as the first (no state kept between calls)
        state: dict = {}
        k1, g1 = modifier_outcome(ctx, cn, ["\u0141b"], class_state=state)
        k2, g2 = modifier_outcome(ctx, cn, ["\u0141b"], class_state=state)
        want2 = pre + [enc("\u0141b")]
        if (k1, g1) == ("parts", want2) and (k2, g2) == ("parts", want2):
            r.ok("C04.R4", wq, "the re-decoded text itself is the new part (U+0141 → 41 01); a second call gives the same", loc)
        elif (k1, g1) == ("parts", want2):
            r.violation("C04.R4", wq, f"second modify(['\\u0141b']) = {g2!r}", f"specified {want2!r} as for the first call: parts accumulate in an object shared between calls" + ("; utf16 must prepend the byte order mark exactly once, before any payload part" if bom else ""), loc)
        else:
            r.violation("C04.R4", wq, f"modify(['\\u0141b']) → {k1} {g1!r}", f"specified {want2!r}: the encode/decode round trip is only used as a test and the part is built some other way: the round trip *is* the encoding (it also rejects what it cannot represent), a hand-built interleaving accepts characters whose UTF-16 bytes happen to be valid UTF-8 and emits bytes that are not UTF-16", loc)
        # what the trick cannot represent is refused with a Sigma error: undecodable byte sequences and code points without encoding
        for what, text in (("a character whose UTF-16 bytes are not valid UTF-8", "\u00e9"), ("a character whose UTF-16 bytes are not valid UTF-8 (second part)", "\u0394x")):
            kind, got = modifier_outcome(ctx, cn, ["ok", text])
            if kind == "refused":
                r.ok("C04.R4", wq, f"{what} ({text!r}) is refused with SigmaValueError", loc)
            else:
                r.violation("C04.R4", wq, f"modify(['ok', {text!r}]) → {kind} {got!r}", "the re-decoding step must be guarded so that undecodable byte sequences are rejected with SigmaValueError (not UnicodeDecodeError, not silently altered); a hand-built interleaving accepts characters whose UTF-16 bytes happen to be valid UTF-8 and emits bytes that are not UTF-16", loc)
        kind, got = modifier_outcome(ctx, cn, ["a\udc80"])
        if kind == "refused":
            r.ok("C04.R4", wq, "a lone surrogate (no UTF-16 encoding) is refused with SigmaValueError", loc)
        else:
            r.violation("C04.R4", wq, f"modify(['a\\udc80']) → {kind} {got!r} [UnicodeEncodeError]", "the encode step itself fails for surrogate code points (YAML \"\\uD83D\"): it must end in SigmaValueError, not in a non-Sigma exception, and must not be let through by an error handler of encode() — with the UTF-8 re-decoding trick D8..DF 80..BF is even valid, so `'\\udc80'` comes out as another character", loc)
        kind, got = modifier_outcome(ctx, cn, ["ab"])
        if bom and kind == "parts" and got and got[0] == "\ufeff":
            # the BOM is stored as the *character* U+FEFF: bytes() of the value give its UTF-8 form EF BB BF, not FF FE
            r.violation("C04.R4", wq, "BOM stored as character U+FEFF",
                        "the value's bytes are produced by UTF-8 encoding the parts; U+FEFF encodes to EF BB BF, so utf16|base64 does not start with the UTF-16LE BOM bytes FF FE "
                        "(the re-decoding trick cannot represent FF FE, which is not valid UTF-8)", loc)
    r.floor("C04.R4", 12)


def r6_wildcard_width(ctx) -> None:
    """After wide/utf16/utf16be every character of the text takes two bytes; '?' stands for one character."""
    r, prog = ctx.r, ctx.prog
    r.rule("C04.R6", "wildcards in encoded values: the modify() loops of wide/utf16be/utf16, interpreted on a value with both wildcards (sa.tabulate), keep '*' as it is and widen '?' to two one-byte wildcards (or refuse it) — one '?' between two-byte code units matches no encoded string")

    S, Mu = WS, WM
    spec = {"SigmaWideModifier": ("utf-16le", False), "SigmaUTF16BEModifier": ("utf-16be", False), "SigmaUTF16Modifier": ("utf-16le", True)}
    for cn, (codec, bom) in spec.items():
        f = prog.lookup_method(f"{M}.{cn}", "modify")
        if f is None:
            raise AnalysisError(f"anchor vanished: {M}.{cn}.modify")
        kind, got = modifier_outcome(ctx, cn, ["ab", S, "c", Mu])
        if kind == "refused":
            r.ok("C04.R6", f.qual, "a value with '?' is refused with SigmaValueError", f.loc)
            continue
        if kind == "error":
            r.violation("C04.R6", f.qual, "modify(['ab', ?, 'c', *])", f"raises {got}", f.loc)
            continue
        enc = lambda t: t.encode(codec).decode("utf-8")  # noqa: E731
        want = (["\ufeff"] if bom else []) + [enc("ab"), S, S, enc("c"), Mu]
        if got == want:
            r.ok("C04.R6", f.qual, "['ab', ?, 'c', *] → encoded parts, '?' widened to two single wildcards, '*' kept", f.loc)
        else:
            r.violation("C04.R6", f.qual, f"modify(['ab', ?, 'c', *]) = {got!r}",
                        f"specified {want!r}: the character a '?' stands for takes two bytes in the encoded text; kept as one wildcard the value is p\\0o\\0?e\\0… and matches none of the UTF-16 forms of the strings the pattern describes", f.loc)
    r.floor("C04.R6", 3)


def r5_wildcards_rejected(ctx) -> None:
    r, prog = ctx.r, ctx.prog
    r.rule("C04.R5", "both Base64 modifiers reject values with wildcards before encoding (contains_special() → SigmaValueError dominates b64encode)")
    for cn in ("SigmaBase64Modifier", "SigmaBase64OffsetModifier"):
        f = prog.lookup_method(f"{M}.{cn}", "modify")
        if f is None:
            raise AnalysisError(f"anchor vanished: {M}.{cn}.modify")
        bad = []
        for parts in (["ab", WM], [WS, "ab"], ["a", WM, "b"], [WM]):
            kind, got = modifier_outcome(ctx, cn, parts)
            if kind != "refused":
                bad.append(f"modify({parts!r}) → {kind} {got!r}")
        kind, got = modifier_outcome(ctx, cn, ["ab"])
        if kind != "texts":
            bad.append(f"modify(['ab']) → {kind} {got!r} (a value without wildcards must be encoded)")
        if not bad:
            r.ok("C04.R5", f.qual, "interpreted: values with '*' or '?' are refused with SigmaValueError, plain values are encoded", f.loc)
        else:
            r.violation("C04.R5", f.qual, bad[0], "a value with wildcards would be encoded (the '*' would become part of the Base64 payload) instead of being rejected", f.loc)
    r.floor("C04.R5", 2)
