"""C20 — output is byte-identical across processes, hash seeds and random draws."""
from __future__ import annotations

import ast
from typing import Optional

from ..prog import AnalysisError, FuncInfo, call_name, short, stmt_head, unparse, walk_no_nested
from ..util import assignments_to, atomic_guards, guards_at

EXCLUDED = ("sigma.plugins", "sigma.data", "sigma.cli")
INSENSITIVE_CONSUMERS = {"sorted", "set", "frozenset", "any", "all", "len", "min", "max", "sum", "bool", "isinstance",
                         "Counter", "dict.fromkeys"}
COMMUTATIVE_METHODS = {"add", "update", "discard", "remove", "set_pipeline", "_clear_pipeline", "add_applied_processing_item",
                       "add_backreference", "disable_output", "intersection_update", "difference_update"}
RANDOM_CALLS = ("random.", "uuid.uuid1", "uuid.uuid4", "uuid4", "uuid1", "os.urandom", "secrets.", "time.time", "time.monotonic",
                "time.perf_counter", "datetime.now", "datetime.datetime.now", "datetime.utcnow", "date.today", "datetime.date.today")

# order-sensitive uses of sets that were read and accepted, one reason each:  (function, construct) -> reason
# (function, construct) pairs of order-sensitive consumers accepted after review. Empty: the one former entry (the search for
# the operator key of a correlation condition) is now derived (_unique_match).
ACCEPTED_SENSITIVE: dict[tuple[str, str], str] = {}

# nondeterminism sources reviewed: (function, call text prefix) -> where the value may flow
ACCEPTED_RANDOM = {
    ("sigma.filters.SigmaFilter", "random.choices"):   # any method of the class: the draw may live in a helper of apply_on_rule
        "10 random letters of the '_filt_' prefix: flows only into detection-map keys and the rewritten condition string of the same rule (C11.R5 interprets the application)",
    ("sigma.processing.transformations.condition.AddConditionTransformation", "random.choice"):
        "10 random letters of the '_cond_' detection name when none is configured: flows only into the detection-map key and the condition string",
}


def _is_setish(ctx, fi: FuncInfo, e: ast.AST) -> bool:
    if isinstance(e, (ast.Set, ast.SetComp)):
        return True
    if isinstance(e, ast.Call) and call_name(e) in ("set", "frozenset"):
        return True
    if isinstance(e, ast.BinOp) and isinstance(e.op, (ast.Sub, ast.BitOr, ast.BitAnd, ast.BitXor)) and (_is_setish(ctx, fi, e.left) or _is_setish(ctx, fi, e.right)):
        return True
    if isinstance(e, ast.Call) and isinstance(e.func, ast.Attribute) and e.func.attr in ("union", "intersection", "difference", "symmetric_difference", "copy") and _is_setish(ctx, fi, e.func.value):
        return True
    t = ctx.types.is_set_type(fi.module, e)
    if t is None and isinstance(e, ast.Name):
        # mypy records no position for expressions inside f-strings: use the type of another occurrence of the same local
        for other in walk_no_nested(fi.node):
            if isinstance(other, ast.Name) and other.id == e.id and other is not e:
                if ctx.types.is_set_type(fi.module, other):
                    return True
    return bool(t)


def _lookup_table_only(prog, fi: FuncInfo, target: ast.Subscript, tvars: set, depth: int = 0) -> bool:
    """``target`` is `table[key(elem)] = …` into a local dict that is used for lookups only (also by the callers it is returned
    to): its insertion order is never observed."""
    if not (isinstance(target.value, ast.Name) and any(isinstance(x, ast.Name) and x.id in tvars for x in ast.walk(target.slice))):
        return False
    name = target.value.id
    if name in fi.params():
        return False
    defs = [st.value for st in walk_no_nested(fi.node) if isinstance(st, (ast.Assign, ast.AnnAssign)) and getattr(st, "value", None) is not None
            and any(isinstance(t_, ast.Name) and t_.id == name for t_ in (st.targets if isinstance(st, ast.Assign) else [st.target]))]
    if len(defs) != 1 or not (isinstance(defs[0], ast.Dict) and not defs[0].keys or (isinstance(defs[0], ast.Call) and call_name(defs[0]) == "dict" and not defs[0].args)):
        return False

    def lookups_only(f_: FuncInfo, nm: str) -> bool:
        for x in walk_no_nested(f_.node):
            if isinstance(x, ast.Name) and x.id == nm and isinstance(x.ctx, ast.Load):
                p_ = prog.parent(x)
                if isinstance(p_, ast.Subscript) and p_.value is x:
                    continue
                if isinstance(p_, ast.Compare) and x in p_.comparators and all(isinstance(o_, (ast.In, ast.NotIn)) for o_ in p_.ops):
                    continue
                if isinstance(p_, ast.Attribute) and p_.attr in ("get",):
                    continue
                if isinstance(p_, ast.Call) and x in p_.args and isinstance(p_.func, ast.Attribute) and p_.func.attr == "translate":
                    continue
                if isinstance(p_, ast.Return) and f_ is fi and depth < 1:
                    continue  # judged at the callers below
                return False
        return True
    if not lookups_only(fi, name):
        return False
    returned = any(isinstance(x, ast.Return) and isinstance(x.value, ast.Name) and x.value.id == name for x in walk_no_nested(fi.node))
    if returned:
        if fi.cls is None or not fi.name.startswith("_"):
            return False
        sites = 0
        for g in prog.funcs.values():
            if g.cls is None or not (prog.is_subclass(g.cls.qual, fi.cls.qual) or prog.is_subclass(fi.cls.qual, g.cls.qual)):
                continue
            for c_ in walk_no_nested(g.node):
                if isinstance(c_, ast.Call) and isinstance(c_.func, ast.Attribute) and c_.func.attr == fi.name:
                    sites += 1
                    pa = prog.parent(c_)
                    if isinstance(pa, ast.Assign) and len(pa.targets) == 1 and isinstance(pa.targets[0], ast.Name):
                        if not lookups_only(g, pa.targets[0].id) or any(isinstance(x, ast.Return) and isinstance(x.value, ast.Name) and x.value.id == pa.targets[0].id for x in walk_no_nested(g.node)):
                            return False
                    elif not (isinstance(pa, ast.Call) and isinstance(pa.func, ast.Attribute) and pa.func.attr == "translate"):
                        return False
        if sites == 0:
            return False
    return True


def _loop_insensitive(prog, fi: FuncInfo, loop: ast.For) -> Optional[str]:
    """Reason why the body of a for-loop over a set cannot observe the iteration order, else None."""
    tvars = {n.id for n in ast.walk(loop.target) if isinstance(n, ast.Name)}
    for st in loop.body + loop.orelse:
        for n in ast.walk(st):
            if isinstance(n, (ast.Yield, ast.YieldFrom, ast.Break)):
                return None
            if isinstance(n, ast.Return):
                # existence/forall pattern: constant returns only
                if not (isinstance(n.value, ast.Constant) or n.value is None):
                    return None
            if isinstance(n, ast.Call) and isinstance(n.func, ast.Attribute) and n.func.attr in ("append", "extend", "insert", "write", "join", "appendleft"):
                return None
            if isinstance(n, (ast.Assign, ast.AugAssign)):
                tg = n.targets if isinstance(n, ast.Assign) else [n.target]
                for t in tg:
                    if isinstance(t, ast.Name) and t.id not in tvars:
                        if isinstance(n, ast.AugAssign) and isinstance(n.op, (ast.BitOr, ast.BitAnd, ast.BitXor)):
                            continue  # commutative accumulation
                        # a plain local that survives the loop = "last wins" unless it is only used inside the loop body
                        used_after = any(isinstance(x, ast.Name) and x.id == t.id and isinstance(x.ctx, ast.Load) and x.lineno > loop.end_lineno for x in walk_no_nested(fi.node))
                        if used_after:
                            return None
                    if isinstance(t, ast.Subscript):
                        # dict/list item assignment keyed by the loop variable: insertion order follows the set — unless the
                        # map is a lookup table only: keyed by the element (one entry each), never iterated or printed, and
                        # handed to nothing but lookups (str.translate, subscripts, membership)
                        if _lookup_table_only(prog, fi, t, tvars):
                            continue
                        return None
                    if isinstance(t, ast.Attribute):
                        # attribute store inside a set loop: last wins unless the receiver is the loop element itself
                        root = unparse(t).split(".")[0]
                        if root not in tvars:
                            return None
    # loop variable used after the loop = last element
    for v in tvars:
        for x in walk_no_nested(fi.node):
            if isinstance(x, ast.Name) and x.id == v and isinstance(x.ctx, ast.Load) and x.lineno > loop.end_lineno:
                # a later loop / comprehension that binds the name again reads its own binding, not the last element of this loop
                rebound = any(isinstance(a, (ast.For, ast.comprehension)) and a is not loop and any(isinstance(t_, ast.Name) and t_.id == v for t_ in ast.walk(a.target))
                              for a in list(prog.ancestors(x)) + [g for c_ in prog.ancestors(x) if isinstance(c_, (ast.ListComp, ast.SetComp, ast.DictComp, ast.GeneratorExp)) for g in c_.generators])
                if not rebound:
                    return None
    return "body only performs commutative updates / constant early returns; no value outlives the loop"


def _param_used_as_set(ctx, fi: FuncInfo, pname: str, depth: int = 0) -> Optional[str]:
    """Reason why the parameter `pname` of fi (and every local derived from it by wrapping/choosing) is only consumed in
    order-insensitive ways — set()/frozenset()/.update(), isinstance/len/truth tests, insensitive loops, handing it to
    another method of the class that does the same — else None."""
    prog = ctx.prog
    if depth > 2:
        return None
    aliases = {pname}
    changed = True
    while changed:
        changed = False
        for st in walk_no_nested(fi.node):
            if isinstance(st, ast.Assign) and len(st.targets) == 1 and isinstance(st.targets[0], ast.Name) and st.targets[0].id not in aliases:
                v = st.value
                srcs = [v.body, v.orelse] if isinstance(v, ast.IfExp) else [v]
                ok_all = all(
                    (isinstance(x, ast.Name) and x.id in aliases) or (isinstance(x, ast.List) and all(isinstance(e_, ast.Name) and e_.id in aliases for e_ in x.elts))
                    or (isinstance(x, ast.Call) and call_name(x) in ("list", "set", "frozenset", "tuple") and len(x.args) == 1 and isinstance(x.args[0], ast.Name) and x.args[0].id in aliases)
                    for x in srcs)
                if ok_all and any(isinstance(n_, ast.Name) and n_.id in aliases for n_ in ast.walk(v)):
                    aliases.add(st.targets[0].id)
                    changed = True
    for n in walk_no_nested(fi.node):
        if not (isinstance(n, ast.Name) and n.id in aliases and isinstance(n.ctx, ast.Load)):
            continue
        p = prog.parent(n)
        if isinstance(p, ast.Call) and n in p.args:
            d = call_name(p)
            if d in ("set", "frozenset", "isinstance", "len", "bool") or (isinstance(p.func, ast.Attribute) and p.func.attr in ("update", "issubset", "issuperset", "intersection", "union", "difference", "isdisjoint")):
                continue
            if d in ("list", "tuple"):
                gp = prog.parent(p)
                if isinstance(gp, ast.Assign):
                    continue  # judged through the alias it creates
                return None
            if isinstance(p.func, ast.Attribute) and unparse(p.func.value) == "self" and fi.cls is not None:
                callee = prog.lookup_method(fi.cls.qual, p.func.attr)
                if callee is not None:
                    params = [x for x in callee.params() if x != "self"]
                    idx = p.args.index(n)
                    if idx < len(params) and _param_used_as_set(ctx, callee, params[idx], depth + 1):
                        continue
            return None
        if isinstance(p, ast.For) and p.iter is n:
            if _loop_insensitive(prog, fi, p):
                continue
            return None
        if isinstance(p, ast.comprehension) and p.iter is n:
            gp = prog.parent(p)
            if isinstance(gp, (ast.SetComp,)):
                continue
            return None
        if isinstance(p, (ast.List, ast.IfExp, ast.Assign, ast.BoolOp, ast.UnaryOp, ast.If, ast.Compare)):
            continue  # wrapping / choosing / testing (the wrapped value is an alias)
        return None
    return f"parameter {pname!r} of {fi.name}() is only put into sets, tested or walked by order-insensitive loops"


def _key_is_injective(key: ast.AST, prog: Any = None, fi: Any = None) -> bool:
    """Reviewed forms of sort keys that identify an element: the element itself / its text, a class by (module, name) or
    qualified name, an enum member by name or value — as a lambda, or as a named function of one argument that returns one."""
    if isinstance(key, ast.Name) and key.id in ("str", "repr"):
        return True
    body = v = None
    if isinstance(key, ast.Lambda) and len(key.args.args) == 1:
        v = key.args.args[0].arg
        body = key.body
    elif prog is not None and fi is not None and isinstance(key, (ast.Name, ast.Attribute)):
        target = None
        if isinstance(key, ast.Attribute) and isinstance(key.value, ast.Name) and key.value.id in ("self", "cls") and fi.cls is not None:
            target = prog.lookup_method(fi.cls.qual, key.attr)
        elif isinstance(key, ast.Name):
            nd = next((x for x in ast.walk(fi.node) if isinstance(x, ast.FunctionDef) and x is not fi.node and x.name == key.id), None)
            if nd is not None:
                target = type("F", (), {"node": nd})()
            else:
                q = prog.resolve_expr(fi.module, key)
                target = prog.funcs.get(q) if q else None
        if target is not None:
            params = [a.arg for a in target.node.args.args if a.arg not in ("self", "cls")]
            rets = [x for st in target.node.body for x in ast.walk(st) if isinstance(x, ast.Return)]
            if len(params) == 1 and len(rets) == 1 and rets[0].value is not None and all(isinstance(st, (ast.Return, ast.Expr)) for st in target.node.body):
                v, body = params[0], rets[0].value
    if body is not None and v is not None:
        parts = [unparse(x) for x in (body.elts if isinstance(body, ast.Tuple) else [body])]
        ident = {v, f"str({v})", f"{v}.__qualname__", f"{v}.name", f"{v}.value", f"{v}.identifier"}
        if any(p_ in ident for p_ in parts):
            return True
        if f"{v}.__module__" in parts and f"{v}.__name__" in parts:
            return True
    return False


def _unique_match(ctx, fi: FuncInfo, e: ast.AST, doc_txt: str) -> Optional[str]:
    """The elements of the set ``e`` are searched for the one that is a key of ``doc_txt``, and a refusal above has
    established that exactly one is: `len(<keys of doc> & <this set>) != 1` raises on every path to this point."""
    import re as _re
    prog = ctx.prog

    def bound_to(name: str) -> Optional[ast.AST]:
        b = [st.value for st in ast.walk(fi.node) if isinstance(st, ast.Assign) and len(st.targets) == 1 and isinstance(st.targets[0], ast.Name) and st.targets[0].id == name]
        return b[0] if len(b) == 1 else None

    def is_this_set(name: str) -> bool:
        if isinstance(e, ast.Name) and e.id == name:
            return True
        v = bound_to(name)
        return v is not None and isinstance(v, ast.Call) and call_name(v) in ("frozenset", "set") and len(v.args) == 1 and unparse(v.args[0]) == unparse(e)

    def is_doc_keys(name: str) -> bool:
        v = bound_to(name)
        return v is not None and unparse(v).replace(" ", "") in (f"frozenset({doc_txt}.keys())", f"set({doc_txt}.keys())", f"frozenset({doc_txt})", f"set({doc_txt})", f"{doc_txt}.keys()")
    for g, pol in atomic_guards(guards_at(prog, fi, e)):
        m = _re.fullmatch(r"len\((\w+)(?: & |\.intersection\()(\w+)\)?\) != 1", g)
        if m and pol is False:
            a, b = m.group(1), m.group(2)
            if (is_this_set(a) and is_doc_keys(b)) or (is_this_set(b) and is_doc_keys(a)):
                return f"exactly one element is a key of {doc_txt} (the guard `{g}` raises above), so the search hits the same element in every order"
    return None


def _membership_search(prog, fi: FuncInfo, e: ast.AST) -> Optional[str]:
    """``e`` is iterated only to find its elements that are keys of a map: the map's text, for `for x in e: if x in D`,
    `next(x for x in e if x in D)` and `(x,) = (x for x in e if x in D)`."""
    p = prog.parent(e)
    if isinstance(p, ast.comprehension) and p.iter is e and isinstance(p.target, ast.Name):
        for c in p.ifs:
            if isinstance(c, ast.Compare) and len(c.ops) == 1 and isinstance(c.ops[0], ast.In) and unparse(c.left) == p.target.id:
                comp = prog.parent(p)
                if isinstance(comp, (ast.GeneratorExp, ast.ListComp)) and isinstance(comp.elt, ast.Name) and comp.elt.id == p.target.id:
                    return unparse(c.comparators[0])
    if isinstance(p, ast.For) and p.iter is e and isinstance(p.target, ast.Name) and len(p.body) == 1 and isinstance(p.body[0], ast.If):
        t = p.body[0].test
        if isinstance(t, ast.Compare) and len(t.ops) == 1 and isinstance(t.ops[0], ast.In) and unparse(t.left) == p.target.id and not p.body[0].orelse:
            return unparse(t.comparators[0])
    return None


def _first_failure_reported(prog, fi: FuncInfo, it: ast.AST) -> Optional[str]:
    """Iteration over a set whose per-element work is a lookup keyed by the element (`table[v]`), inside a try whose handler
    turns the caught exception into the message of the error it raises: with several failing elements the one that is met
    first is reported, and which one that is follows the hash seed."""
    target = it.target
    names = {n.id for n in ast.walk(target) if isinstance(n, ast.Name)}
    body_root = prog.parent(it) if isinstance(it, ast.comprehension) else it
    keyed = [x for x in ast.walk(body_root) if isinstance(x, ast.Subscript) and isinstance(x.ctx, ast.Load)
             and any(isinstance(n, ast.Name) and n.id in names for n in ast.walk(x.slice))]
    if not keyed:
        return None
    node = body_root
    for anc in prog.ancestors(body_root):
        if isinstance(anc, ast.Try) and any(node is b or any(node is d for d in ast.walk(b)) for b in anc.body):
            for h in anc.handlers:
                if h.name is None:
                    continue
                caught = {unparse(t).split(".")[-1] for t in (h.type.elts if isinstance(h.type, ast.Tuple) else [h.type])} if h.type is not None else {"BaseException"}
                if not caught & {"KeyError", "LookupError", "IndexError", "Exception", "BaseException"}:
                    continue      # the handler is for something else than the failing lookup
                for rs in (x for b in h.body for x in ast.walk(b) if isinstance(x, ast.Raise) and x.exc is not None):
                    if any(isinstance(n, ast.Name) and n.id == h.name for n in ast.walk(rs.exc)):
                        return (f"the lookup {short(keyed[0], 40)} fails for the first unknown element met, and the handler puts that exception into the message "
                                f"({short(rs.exc, 70)}): with several unknown elements the one named follows the hash seed")
        if isinstance(anc, (ast.FunctionDef, ast.AsyncFunctionDef)):
            break
    return None


def classify_use(ctx, fi: FuncInfo, e: ast.AST) -> tuple[str, str]:
    """('insensitive'|'sensitive'|'none', reason) for the syntactic context in which set expression e is consumed."""
    prog = ctx.prog
    p = prog.parent(e)
    doc_txt = _membership_search(prog, fi, e)
    if doc_txt is not None:
        why = _unique_match(ctx, fi, e, doc_txt)
        if why:
            return "insensitive", why
    if isinstance(p, ast.Call) and e in p.args:
        d = call_name(p)
        last = d.split(".")[-1]
        if last == "sorted" and any(k.arg == "key" for k in p.keywords):
            # sorted() is stable: elements with equal keys keep the order of the set, i.e. hash/address order. The key has
            # to tell all elements apart.
            key = next(k.value for k in p.keywords if k.arg == "key")
            if not _key_is_injective(key, prog, fi):
                return "sensitive", f"sorted(..., key={short(key, 60)}) over a set: the key does not tell the elements apart (ties keep the set's iteration order)"
        if last in INSENSITIVE_CONSUMERS or d in INSENSITIVE_CONSUMERS:
            return "insensitive", f"consumed by {d}()"
        if isinstance(p.func, ast.Attribute) and p.func.attr == "join":
            return "sensitive", "str.join over a set: element order follows the hash seed"
        if last in ("map", "filter") and len(p.args) == 2 and p.args[1] is e:
            # lazy element-wise consumers hand the order on: what matters is who consumes their result
            return classify_use(ctx, fi, p)
        if last in ("list", "tuple", "enumerate", "iter", "next", "zip", "map", "filter", "reversed", "deque", "str", "repr", "format"):
            return "sensitive", f"{d}() materialises the set in hash order"
        if isinstance(p.func, ast.Attribute) and p.func.attr in ("update", "issubset", "issuperset", "isdisjoint", "union", "intersection", "difference", "extend") :
            if p.func.attr == "extend":
                return "sensitive", "list.extend with a set"
            return "insensitive", f".{p.func.attr}() is order-insensitive"
        return "none", ""
    if (isinstance(p, ast.comprehension) and p.iter is e) or (isinstance(p, ast.For) and p.iter is e):
        first = _first_failure_reported(prog, fi, p)
        if first:
            return "sensitive", first
    if isinstance(p, ast.comprehension) and p.iter is e:
        comp = prog.parent(p)
        if isinstance(comp, ast.SetComp):
            return "insensitive", "set comprehension over a set (membership only)"
        if isinstance(comp, ast.DictComp):
            # the dict remembers the order in which the set handed out its elements: insensitive only when the dict is a
            # local that is used for lookups alone
            pa = prog.parent(comp)
            if isinstance(pa, ast.Assign) and pa.value is comp and len(pa.targets) == 1 and isinstance(pa.targets[0], ast.Name):
                nm = pa.targets[0].id
                loads = [x for x in ast.walk(fi.node) if isinstance(x, ast.Name) and x.id == nm and isinstance(x.ctx, ast.Load)]
                stores = [x for x in ast.walk(fi.node) if isinstance(x, ast.Name) and x.id == nm and isinstance(x.ctx, ast.Store)]

                def lookup_only(u: ast.AST) -> bool:
                    up = prog.parent(u)
                    if isinstance(up, ast.Subscript) and up.value is u and isinstance(up.ctx, ast.Load):
                        return True
                    if isinstance(up, ast.Compare) and u in up.comparators and all(isinstance(o, (ast.In, ast.NotIn)) for o in up.ops):
                        return True
                    if isinstance(up, ast.Attribute) and up.attr == "get" and isinstance(prog.parent(up), ast.Call):
                        return True
                    return False
                if len(stores) == 1 and loads and all(lookup_only(u) for u in loads):
                    return "insensitive", f"dict comprehension held in the local {nm}, which is only used for lookups"
            return "sensitive", "dict comprehension over a set: the insertion order of the dict follows the hash seed"
        if isinstance(comp, ast.ListComp):
            # the list is bound to a local that is only consumed in order-insensitive ways (sorted(), set(), len(), membership)
            pa = prog.parent(comp)
            if isinstance(pa, (ast.Assign, ast.AnnAssign)) and pa.value is comp and isinstance((pa.targets[0] if isinstance(pa, ast.Assign) else pa.target), ast.Name) \
                    and (isinstance(pa, ast.AnnAssign) or len(pa.targets) == 1):
                nm = (pa.targets[0] if isinstance(pa, ast.Assign) else pa.target).id
                stores = [x for x in ast.walk(fi.node) if isinstance(x, ast.Name) and x.id == nm and isinstance(x.ctx, ast.Store)]
                loads = [x for x in ast.walk(fi.node) if isinstance(x, ast.Name) and x.id == nm and isinstance(x.ctx, ast.Load)]
                if len(stores) == 1 and loads and all(classify_use(ctx, fi, u)[0] == "insensitive" for u in loads):
                    return "insensitive", f"list comprehension held in the local {nm}, which is only consumed order-insensitively ({classify_use(ctx, fi, loads[0])[1]})"
        if isinstance(comp, (ast.ListComp, ast.GeneratorExp)):
            return classify_use(ctx, fi, comp) if isinstance(comp, ast.GeneratorExp) else ("sensitive", "list comprehension over a set: list order follows the hash seed")
        return "none", ""
    if isinstance(p, ast.For) and p.iter is e:
        why = _loop_insensitive(prog, fi, p)
        if why:
            return "insensitive", why
        return "sensitive", "for-loop over a set whose body appends/yields/stores/breaks or keeps the last element"
    if isinstance(p, ast.FormattedValue) or (isinstance(p, ast.Call) and call_name(p) in ("str", "repr")):
        return "sensitive", "text form of a set"
    if isinstance(p, ast.Starred):
        return "sensitive", "unpacking a set into positional order"
    if isinstance(p, ast.Compare) or isinstance(p, (ast.BoolOp, ast.UnaryOp, ast.If, ast.IfExp, ast.While, ast.Assert)):
        return "insensitive", "truth/membership/comparison"
    if isinstance(p, ast.BinOp):
        return "none", ""
    return "none", ""


def run(ctx) -> None:
    r, prog = ctx.r, ctx.prog
    r.explanation = (
        "Determinism mechanism decided on the source: every expression that mypy types as set/frozenset (or that is syntactically a "
        "set) and is consumed in an order-observing context (join, list/tuple/list-comprehension, a loop that appends/yields/stores/"
        "keeps the last element, text form) without sorted() is reported; every use of random/uuid/time/id()/hash() in the library "
        "is in a reviewed table with the sinks its value may reach, and the conversion modules never read detection names or "
        "condition strings, so random identifiers cannot reach a query. Byte identity of real outputs across processes is not observed.")
    r1_set_order(ctx)
    r2_random_sources(ctx)
    r3_sorted_renderers(ctx)
    r4_random_names_not_captured(ctx)
    r5_message_text_of_objects(ctx)


def r4_random_names_not_captured(ctx) -> None:
    """The random '_cond_…'/'_filt_…' names all start with '_'; rule selectors must never capture them,
    otherwise the drawn letters decide which detections a pattern such as '1 of *a' selects (shared with C02.R4)."""
    from . import c02
    from ..util import const_eval
    r, prog = ctx.r, ctx.prog
    cm = prog.module("sigma.conditions")
    pat_alpha = c02.grammar_alphabets(ctx, cm)[1]
    before = len(r.obligations)
    c02.r4_selector(ctx, cm, pat_alpha)
    for o in r.obligations[before:]:
        o["rule"] = "C20.R4"
    for f in r.findings:
        if f.rule == "C02.R4":
            f.rule = "C20.R4"
    r.rule_counts["C20.R4"] = r.rule_counts.pop("C02.R4", 0)
    r.rule_text["C20.R4"] = "random identifiers (all '_'-prefixed) cannot be captured by rule selectors: " + r.rule_text.pop("C02.R4")
    # whether a filter's patterns capture foreign detections must not depend on the draw: a prefix that names of the
    # rule already start with is drawn again (shared with C11.R5)
    probs = c02.prefix_redraw_failures(ctx)
    fa = prog.func("sigma.filters.SigmaFilter.apply_on_rule")
    if probs:
        r.violation("C20.R4", fa.qual, "prefix collision", probs[0] + (f" (+{len(probs) - 1} more scenario(s))" if len(probs) > 1 else ""), fa.loc)
    else:
        r.ok("C20.R4", fa.qual, "a colliding draw is repeated: the result does not depend on which prefix was drawn", fa.loc)
    # the drawn names do start with '_': both interpreted (sa.tabulate, Proxy) with a stand-in random module
    import types as _types
    from ..tabulate import Proxy, Raised
    AC = "sigma.processing.transformations.condition.AddConditionTransformation"
    rnd = _types.SimpleNamespace(choices=lambda pop, k=1, **kw: ["q"] * k, choice=lambda pop: "q", randint=lambda a, b: a, random=lambda: 0.0)
    import string as _string
    try:
        name = Proxy(prog, AC, {"random": rnd, "string": _string}, {}, interp_kwargs={"max_steps": 2000}).name
    except (Raised, AttributeError) as ex:
        raise AnalysisError(f"{AC}: default name is not evaluable ({ex})")
    if isinstance(name, str) and name.startswith("_cond_") and name.endswith("q" * 10):
        r.ok("C20.R4", AC, f"random name is built as '_cond_' + letters ({name!r} with the stand-in draw)", prog.cls(AC).module.relpath)
    else:
        r.violation("C20.R4", AC, f"'_cond_' + random letters: default name {name!r}", "the randomly drawn identifier no longer provably starts with '_' (selector exclusion relies on it)")
    try:
        rule4, _f4 = c02.interpret_filter_application(ctx, "flt", rule_detections={"sel": "D(sel)"})
        keys4 = [k for k in rule4.detection.detections if k != "sel"]
    except Raised as ex:
        raise AnalysisError(f"filter application raises {ex}")
    if len(keys4) == 1 and keys4[0].startswith("_filt_") and keys4[0].endswith("_flt"):
        r.ok("C20.R4", "sigma.filters.SigmaFilter.apply_on_rule", f"random name is built as '_filt_' + letters ({keys4[0]!r} with the stand-in draw)", fa.loc)
    else:
        r.violation("C20.R4", "sigma.filters.SigmaFilter.apply_on_rule", f"'_filt_' + random letters: detection keys {keys4}", "the randomly drawn identifier no longer provably starts with '_' (selector exclusion relies on it)")


def _in_scope(fi: FuncInfo) -> bool:
    return not fi.module.name.startswith(EXCLUDED)


def r1_set_order(ctx) -> None:
    r, prog = ctx.r, ctx.prog
    r.rule("C20.R1", "no hash-ordered collection is consumed in an order-observing context without sorted() (loading, pipelines, conversion; validators/plugins excluded)")
    n_sets = 0
    for q, fi in sorted(prog.funcs.items()):
        if not _in_scope(fi):
            continue
        for e in walk_no_nested(fi.node):
            if not isinstance(e, ast.expr) or isinstance(e, (ast.Constant,)):
                continue
            p = prog.parent(e)
            # only look at expressions in a consuming position
            consuming = (isinstance(p, ast.Call) and e in p.args) or (isinstance(p, ast.comprehension) and p.iter is e) or \
                (isinstance(p, ast.For) and p.iter is e) or isinstance(p, (ast.FormattedValue, ast.Starred))
            if not consuming:
                continue
            if not _is_setish(ctx, fi, e):
                continue
            n_sets += 1
            kind, why = classify_use(ctx, fi, e)
            loc = f"{fi.module.relpath}:{e.lineno}"
            st = prog.enclosing_stmt(e)
            construct = f"{short(e, 70)} in {stmt_head(st, 110)}"
            if kind == "sensitive":
                acc = ACCEPTED_SENSITIVE.get((q, " ".join(construct.split())))
                if not acc:
                    # list(<set>) handed straight to a method of the class that treats the argument as a set
                    pp = prog.parent(p) if isinstance(p, ast.Call) and call_name(p) in ("list", "tuple") else None
                    if isinstance(pp, ast.Call) and isinstance(pp.func, ast.Attribute) and unparse(pp.func.value) == "self" and fi.cls is not None and p in pp.args:
                        callee = prog.lookup_method(fi.cls.qual, pp.func.attr)
                        if callee is not None:
                            params = [x for x in callee.params() if x != "self"]
                            idx = pp.args.index(p)
                            if idx < len(params):
                                acc = _param_used_as_set(ctx, callee, params[idx])
                if acc:
                    r.ok("C20.R1", q, f"{construct} — accepted: {acc}", loc)
                else:
                    sink = "an error message" if any(isinstance(a, ast.Raise) for a in [st] + list(prog.ancestors(e))) or "Error(" in unparse(st) else "an ordered result"
                    r.violation("C20.R1", q, construct,
                                f"{why}; the value reaches {sink}, so two processes with different PYTHONHASHSEED produce different text/order", loc)
            elif kind == "insensitive":
                r.ok("C20.R1", q, f"{construct} — {why}", loc)
            else:
                r.ok("C20.R1", q, f"{construct} — passed on as a set (not ordered here)", loc)
    r.analysed["C20.set_consuming_sites"] = n_sets
    r.floor("C20.R1", 15)


def _owner_class(prog, fi: FuncInfo) -> Optional[str]:
    """The class that holds every reference to the module-level function fi (None if referenced elsewhere or nowhere)."""
    owners = set()
    for st in fi.module.tree.body:
        if st is fi.node:
            continue
        refs = [n for n in ast.walk(st) if isinstance(n, ast.Name) and n.id == fi.name and isinstance(n.ctx, ast.Load)]
        if refs:
            if not isinstance(st, ast.ClassDef):
                return None
            owners.add(f"{fi.module.name}.{st.name}")
    for m in prog.modules.values():
        if m is not fi.module and any(isinstance(n, ast.ImportFrom) and n.module == fi.module.name and any(a.name == fi.name for a in n.names) for n in ast.walk(m.tree)):
            return None
    return owners.pop() if len(owners) == 1 else None


def r2_random_sources(ctx) -> None:
    r, prog = ctx.r, ctx.prog
    r.rule("C20.R2", "every nondeterminism source (random, uuid1/4, time, os.urandom, id(), hash(), default object repr) in loading/pipeline/conversion code is in the reviewed table; conversion modules never read detection names, condition strings or identifier nodes")
    for q, fi in sorted(prog.funcs.items()):
        if not _in_scope(fi):
            continue
        for c in (x for x in walk_no_nested(fi.node) if isinstance(x, ast.Call)):
            d = call_name(c)
            loc = f"{fi.module.relpath}:{c.lineno}"
            if d.startswith(RANDOM_CALLS) or d in RANDOM_CALLS:
                key = next((k for k in ACCEPTED_RANDOM if (k[0] == q or q.startswith(k[0] + ".")) and d.startswith(k[1])), None)
                if key is None and fi.cls is None:
                    # a module-level helper every reference of which lies in one class (e.g. the default factory of a field)
                    oc = _owner_class(prog, fi)
                    key = next((k for k in ACCEPTED_RANDOM if oc is not None and k[0] == oc and d.startswith(k[1])), None)
                if key:
                    r.ok("C20.R2", q, f"{d}(...) — {ACCEPTED_RANDOM[key]}", loc)
                else:
                    r.violation("C20.R2", q, short(c, 100), f"{d}() draws a value that differs between runs; the site is not in the reviewed table of random sources and their sinks", loc)
            if d in ("id", "hash") and c.args:
                # id()/hash() are fine as dict keys / visited sets, not in text or ordering
                p = prog.parent(c)
                ctxt = unparse(prog.enclosing_stmt(c))
                in_text = any(isinstance(a, (ast.JoinedStr, ast.FormattedValue)) for a in prog.ancestors(c)) or (isinstance(p, ast.Call) and call_name(p) in ("str", "repr", "sorted"))
                key_fn = any(isinstance(a, ast.keyword) and a.arg == "key" for a in prog.ancestors(c))
                if in_text or key_fn:
                    if q.endswith("_generate_identifier") and "id(self)" in ctxt:
                        r.ok("C20.R2", q, "str(id(self)) only when the item has no content at all (never for a constructed item: the transformation class name is always present)", loc)
                    elif q.endswith("_load_vars_from_file"):
                        r.ok("C20.R2", q, "id(spec) names a temporary sys.modules entry that is removed again", loc)
                    else:
                        r.violation("C20.R2", q, short(prog.enclosing_stmt(c), 120), f"{d}() value (address/hash dependent) flows into text or a sort key", loc)
                else:
                    r.ok("C20.R2", q, f"{d}(...) used as identity key only: {short(prog.enclosing_stmt(c), 70)}", loc)
    # class-level / module-level code (default factories, lambdas)
    for cq, c in sorted(prog.classes.items()):
        if c.module.name.startswith(EXCLUDED):
            continue
        for st in c.node.body:
            if isinstance(st, (ast.FunctionDef, ast.AsyncFunctionDef, ast.ClassDef)):
                continue
            for x in ast.walk(st):
                if isinstance(x, ast.Call) and (call_name(x).startswith(RANDOM_CALLS) or call_name(x) in RANDOM_CALLS):
                    loc = f"{c.module.relpath}:{x.lineno}"
                    key = next((k for k in ACCEPTED_RANDOM if k[0] == cq and call_name(x).startswith(k[1])), None)
                    if key:
                        r.ok("C20.R2", cq, f"{call_name(x)}(...) — {ACCEPTED_RANDOM[key]}", loc)
                    else:
                        r.violation("C20.R2", cq, short(x, 100), f"{call_name(x)}() in a class-level default: not in the reviewed table of random sources", loc)
    for m in prog.modules.values():
        if m.name.startswith(EXCLUDED):
            continue
        for st in m.tree.body:
            if isinstance(st, (ast.FunctionDef, ast.AsyncFunctionDef, ast.ClassDef)):
                continue
            for x in ast.walk(st):
                if isinstance(x, ast.Call) and (call_name(x).startswith(RANDOM_CALLS) or call_name(x) in RANDOM_CALLS):
                    r.violation("C20.R2", m.name, short(x, 100), "nondeterministic value computed at import time", f"{m.relpath}:{x.lineno}")
    # default object repr: a value type without __str__/__repr__ prints its memory address wherever it is interpolated
    # (error messages such as "incompatible to value type of '<...SigmaNull object at 0x7f...>'")
    n_vt = 0
    for cq in sorted(prog.subclasses("sigma.types.SigmaType", strict=True)):
        ci = prog.cls(cq)
        n_vt += 1
        has = False
        for b in prog.mro(cq):
            bi = prog.classes.get(b)
            if bi is None:
                continue
            if "__str__" in bi.methods or "__repr__" in bi.methods:
                has = True
            if bi.is_dataclass and not any("repr=False" in d.replace(" ", "") for d in bi.decorators):
                has = True
            if any(x.split(".")[-1] in ("Enum", "IntEnum", "str", "int") for x in bi.bases):
                has = True
        loc = f"{ci.module.relpath}:{ci.node.lineno}"
        if has:
            r.ok("C20.R2", cq, "has __str__/__repr__ (own, inherited or dataclass-generated)", loc)
        else:
            r.violation("C20.R2", cq, f"class {ci.name}: default object repr", "instances print as '<… object at 0x…>': every message that interpolates such a value (e.g. the type error of a modifier) contains a memory address and differs between runs — and between the error raised in strict mode and the one collected in collecting mode", loc)
    if n_vt < 10:
        raise AnalysisError("fewer than 10 SigmaType subclasses found")
    # condition strings are rewritten with random identifiers (_filt_<random>_…, _cond_<random>) before they are parsed:
    # an error message must not quote the condition text
    for q, fi in sorted(prog.funcs.items()):
        if fi.module.name != "sigma.conditions":
            continue
        for rs in (x for x in walk_no_nested(fi.node) if isinstance(x, ast.Raise) and x.exc is not None):
            txt = unparse(rs.exc)
            loc = f"{fi.module.relpath}:{rs.lineno}"
            quoting = [k for k in (".explain(", ".markInputline(", ".mark_input_line(", ".line", ".pstr", "self.condition") if k in txt]
            if quoting:
                r.violation("C20.R2", q, short(rs, 120), f"the error message quotes the condition text ({quoting[0]}): conditions are parsed after filters and add_condition rewrote them with random identifiers, so the error record of a failing rule differs from run to run", loc)
            elif (quoted := [unparse(x.value).strip() for x in ast.walk(rs.exc) if isinstance(x, ast.FormattedValue) and unparse(x.value).strip() in ("self.identifier", "self.pattern")]
                            + [unparse(x).strip() for x in ast.walk(rs.exc) if isinstance(x, ast.Attribute) and unparse(x) in ("self.identifier", "self.pattern") and isinstance(prog.parent(x), (ast.BinOp, ast.Call)) and not isinstance(prog.parent(x), ast.FormattedValue)]):
                # keyed by class and quoted attribute, not by the statement: the raise may move into a helper of the class
                literal = " … ".join(str(c_.value).strip() for j_ in ast.walk(rs.exc) if isinstance(j_, ast.JoinedStr) for c_ in j_.values if isinstance(c_, ast.Constant) and str(c_.value).strip()) or \
                    " … ".join(c_.value.strip() for c_ in ast.walk(rs.exc) if isinstance(c_, ast.Constant) and isinstance(c_.value, str) and c_.value.strip())
                r.violation("C20.R2", fi.cls.qual if fi.cls is not None else q, f"the error message \"{literal}\" quotes {quoted[0]}", "the error message quotes an identifier/selector token of the condition: filter conditions are rewritten with the random '_filt_<10 letters>_' prefix before they are parsed, so an identifier the filter does not define is reported under a name that differs from run to run", loc)
            elif "ParseException" in unparse(prog.enclosing_stmt(rs)) or "str(e)" in txt:
                r.ok("C20.R2", q, f"parse error reported as {short(rs.exc, 60)} (position and expectation, not the condition text)", loc)
    # conversion code must not read the places random names live in
    for q, fi in sorted(prog.funcs.items()):
        if not fi.module.name.startswith(("sigma.conversion", "sigma.backends")):
            continue
        for n in walk_no_nested(fi.node):
            if isinstance(n, ast.Attribute) and isinstance(n.ctx, ast.Load):
                loc = f"{fi.module.relpath}:{n.lineno}"
                recv = ctx.types.class_names(fi.module, n.value)
                if n.attr == "detections" and any(t.endswith("SigmaDetections") for t in recv):
                    r.violation("C20.R2", q, short(prog.enclosing_stmt(n), 100), "conversion code reads the detection map (whose keys can be random '_cond_…'/'_filt_…' names)", loc)
                if n.attr == "condition" and any(t.endswith(("SigmaCondition", "SigmaDetections")) for t in recv):
                    r.violation("C20.R2", q, short(prog.enclosing_stmt(n), 100), "conversion code reads condition strings (which can contain random identifiers)", loc)
                if n.attr == "identifier" and any(t.endswith("ConditionIdentifier") for t in recv):
                    r.violation("C20.R2", q, short(prog.enclosing_stmt(n), 100), "conversion code reads detection identifiers", loc)
    r.ok("C20.R2", "sigma.conversion/*, sigma.backends/*", "no read of SigmaDetections.detections, condition strings or ConditionIdentifier.identifier in conversion code (typed attribute scan)")
    r.floor("C20.R2", 3)


def r3_sorted_renderers(ctx) -> None:
    r, prog = ctx.r, ctx.prog
    r.rule("C20.R3", "where a set is rendered into a query it goes through sorted(): regex flags in SigmaRegularExpression.escape/flag rendering; the processing item identifier hashes sorted content")
    for fn in ("sigma.types.SigmaRegularExpression.escape", "sigma.conversion.base.TextQueryBackend.convert_condition_field_eq_val_re", "sigma.conversion.base.TextQueryBackend.convert_condition_val_re", "sigma.conversion.base.TextQueryBackend.get_flag_template"):
        if not prog.has_func(fn):
            continue
        f = prog.func(fn)
        for n in walk_no_nested(f.node):
            if isinstance(n, ast.Attribute) and n.attr == "flags" and isinstance(n.ctx, ast.Load):
                p = prog.parent(n)
                loc = f"{f.module.relpath}:{n.lineno}"
                kind, why = classify_use(ctx, f, n)
                if isinstance(p, ast.Call) and call_name(p) == "sorted":
                    r.ok("C20.R3", fn, f"{short(p, 80)}", loc)
                elif kind == "sensitive":
                    r.violation("C20.R3", fn, short(prog.enclosing_stmt(n), 120), "regex flag set rendered in hash order", loc)
                else:
                    r.ok("C20.R3", fn, f"flags used order-insensitively: {short(prog.enclosing_stmt(n), 80)}", loc)
    gi = prog.func("sigma.processing.pipeline.ProcessingItemBase._generate_identifier")
    # interpreted (sa.tabulate, Proxy; hashlib of the standard library is the only library): transformations that differ only
    # in the order their attributes were set get the same identifier, transformations that differ in content do not
    import hashlib as _hashlib
    from ..tabulate import Proxy as _Pi, call_method as _cmi, Raised as _Ri
    PIB = "sigma.processing.pipeline.ProcessingItemBase"

    def ident(attr_order, extra=None):
        T_ = type("SomeTransformation", (), {})
        t_ = T_()
        vals = dict({"a": 1, "b": "x", "c": [1, 2]}, **(extra or {}))
        for k_ in attr_order:
            setattr(t_, k_, vals[k_])
        me_ = _Pi(prog, PIB, {"hashlib": _hashlib}, {"transformation": t_, "rule_conditions": [], "rule_condition_negation": False, "rule_condition_linking": None,
                                                   "rule_condition_expression": None, "identifier": None}, interp_kwargs={"max_steps": 4000, "behaviours": (TypeError,)})
        try:
            return _cmi(prog, PIB, "_generate_identifier", me_, {"hashlib": _hashlib}, interp_kwargs={"max_steps": 4000, "behaviours": (TypeError,)})
        except _Ri as ex:
            return f"raises {ex}"
    ids_ = {ident(o_) for o_ in (("a", "b", "c"), ("c", "b", "a"), ("b", "c", "a"))}
    other_ = ident(("a", "b", "c"), {"b": "y"})
    if len(ids_) == 1 and other_ not in ids_ and not any(str(x).startswith("raises") for x in ids_ | {other_}):
        r.ok("C20.R3", gi.qual, "the generated identifier does not depend on the order in which the transformation's attributes were set, and does depend on their values (interpreted)", gi.loc)
    else:
        r.violation("C20.R3", gi.qual, "content.append(str(sorted(transformation_dict.items())))", f"generated item identifier no longer hashes a canonical (sorted) rendering: attribute orders give {sorted(map(str, ids_))}, changed content gives {other_}", gi.loc)
    r.floor("C20.R3", 2)


# ---------------------------------------------------------------------------------------------------------------------
SET_ANN = ("set[", "Set[", "frozenset[", "FrozenSet[", "AbstractSet[", "MutableSet[")


def _field_opt(st: ast.AnnAssign, name: str) -> Optional[bool]:
    v = st.value
    if isinstance(v, ast.Call) and call_name(v).split(".")[-1] == "field":
        for k in v.keywords:
            if k.arg == name and isinstance(k.value, ast.Constant):
                return bool(k.value.value)
    return None


def _ann_is_set(st: ast.AnnAssign) -> bool:
    a = unparse(st.annotation).replace(" ", "").replace('"', "").replace("'", "")
    if a in ("set", "frozenset", "Set", "FrozenSet") or a.startswith(SET_ANN) or any(("|" + k) in a or ("[" + k) in a for k in SET_ANN):
        return True
    v = st.value
    if isinstance(v, ast.Call) and call_name(v).split(".")[-1] == "field":
        for k in v.keywords:
            if k.arg == "default_factory" and unparse(k.value) in ("set", "frozenset"):
                return True
            if k.arg == "default_factory" and "defaultdict" in unparse(k.value) and "set" in unparse(k.value):
                return True   # dict of sets
    return False


def _text_function(prog, cq: str, use_repr: bool):
    """What produces the text of an instance: ('generated', owner class) for a dataclass-generated __repr__,
    ('method', FuncInfo) for a source __str__/__repr__, ('default', None) for object.__repr__, ('enum'...)"""
    names = ("__repr__",) if use_repr else ("__str__", "__repr__")
    for want in names:
        for b in prog.mro(cq):
            bi = prog.classes.get(b)
            if bi is None:
                continue
            if want in bi.methods:
                return "method", bi.methods[want]
            if want == "__repr__" and bi.is_dataclass and not any("repr=False" in d.replace(" ", "") for d in bi.decorators):
                return "generated", bi
            if any(x.split(".")[-1] in ("Enum", "IntEnum", "Flag", "str", "int", "Exception", "ValueError", "UserDict", "dict", "list") for x in bi.bases):
                return "builtin", bi
    return "default", None


def _all_class_names(types, t) -> list[str]:
    """Class names in a mypy type, including the type arguments of containers."""
    out: list[str] = []
    seen = 0
    work = [t]
    while work and seen < 200:
        seen += 1
        x = work.pop()
        for i in types.instances(x):
            out.append(i.type.fullname)
            work.extend(getattr(i, "args", ()) or ())
    return out


def r5_message_text_of_objects(ctx) -> None:
    """Error records are part of the output: every object whose text is interpolated into an exception message must have a
    hash-seed independent text. Roots: typed expressions formatted inside `raise` statements and in the __str__ of the
    exception classes; closure: the generated repr of a dataclass shows every field not declared repr=False, recursively
    (declared field types and all their subclasses)."""
    r, prog, types = ctx.r, ctx.prog, ctx.types
    r.rule("C20.R5", "no object whose text is interpolated into an error message shows a set (or a pipeline back-pointer) through a generated dataclass repr: such fields are declared repr=False or the class renders them sorted; nor does it reach a field into which a randomly drawn detection name is stored (fields derived from the stores of the reviewed random sources)")
    by_simple: dict[str, list[str]] = {}
    for cq in prog.classes:
        by_simple.setdefault(cq.rsplit(".", 1)[-1], []).append(cq)
    roots: dict[tuple[str, bool], str] = {}   # (class, use_repr) -> first site
    root_sites: list[tuple[str, bool, str, str, str]] = []   # (class, use_repr, owner, expression text, location)
    cur_owner = [""]

    def add_root(m, e: ast.AST, use_repr: bool, site: str) -> None:
        t = types.type_of(m, e)
        if t is None:
            return
        for cn in _all_class_names(types, t):
            if cn in prog.classes:
                roots.setdefault((cn, use_repr), site)
                root_sites.append((cn, use_repr, cur_owner[0], unparse(e), site.split(" ")[0]))

    def scan_formatted(fi: FuncInfo, node: ast.AST, why: str) -> int:
        n = 0
        for x in ast.walk(node):
            if isinstance(x, ast.FormattedValue):
                add_root(fi.module, x.value, x.conversion == ord("r"), f"{fi.module.relpath}:{x.lineno} {why}")
                n += 1
            elif isinstance(x, ast.Call) and call_name(x) in ("str", "repr") and x.args:
                add_root(fi.module, x.args[0], call_name(x) == "repr", f"{fi.module.relpath}:{x.lineno} {why}")
                n += 1
            elif isinstance(x, ast.BinOp) and isinstance(x.op, ast.Mod) and isinstance(x.left, ast.Constant) and isinstance(x.left.value, str):
                for a in (x.right.elts if isinstance(x.right, ast.Tuple) else [x.right]):
                    add_root(fi.module, a, False, f"{fi.module.relpath}:{x.lineno} {why}")
                    n += 1
        return n

    n_sites = 0
    for q, fi in sorted(prog.funcs.items()):
        if fi.module.name.startswith(EXCLUDED):
            continue
        cur_owner[0] = fi.cls.qual if fi.cls is not None and fi.name in ("__str__", "__repr__") else q
        if fi.name.startswith("from_") and any(unparse(d) in ("classmethod", "staticmethod") for d in fi.node.decorator_list):
            cur_owner[0] = ""     # constructors from documents: what they show was built in this call, before any pipeline or filter drew a name
        for rs in (x for x in walk_no_nested(fi.node) if isinstance(x, ast.Raise) and x.exc is not None):
            n_sites += scan_formatted(fi, rs.exc, f"raise in {q}")
        # messages of the exception classes themselves
        if fi.cls is not None and fi.name in ("__str__", "__repr__") and prog.is_subclass(fi.cls.qual, "sigma.exceptions.SigmaError"):
            n_sites += scan_formatted(fi, fi.node, f"{q}")
    r.analysed["C20.message_interpolation_sites"] = n_sites
    # closure
    seen: set[tuple[str, bool]] = set()
    work = list(roots.items())
    n_cls = 0
    while work:
        (cq, use_repr), site = work.pop()
        for sub in prog.subclasses(cq):
            if (sub, use_repr) in seen:
                continue
            seen.add((sub, use_repr))
            ci = prog.classes.get(sub)
            if ci is None or ci.module.name.startswith(EXCLUDED):
                continue
            kind, what = _text_function(prog, sub, use_repr)
            n_cls += 1
            loc = f"{ci.module.relpath}:{ci.node.lineno}"
            if kind == "method":
                # a source method: its own formatted values are further roots (set uses inside are decided by C20.R1)
                m = what.module
                for x in ast.walk(what.node):
                    if isinstance(x, ast.FormattedValue):
                        t = types.type_of(m, x.value)
                        if t is not None:
                            for cn in _all_class_names(types, t):
                                if cn in prog.classes and (cn, x.conversion == ord("r")) not in seen:
                                    work.append(((cn, x.conversion == ord("r")), site))
                r.ok("C20.R5", sub, f"text comes from {what.qual} (reached from {site})", loc)
                continue
            if kind != "generated":
                r.ok("C20.R5", sub, f"text of kind {kind} (reached from {site})", loc)
                continue
            bad = []
            for fname, st in prog.dataclass_fields(sub).items():
                if _field_opt(st, "repr") is False:
                    continue
                ann = unparse(st.annotation).replace('"', "").replace("'", "")
                if _ann_is_set(st):
                    bad.append((fname, st, "a set: printed in hash order"))
                    continue
                if "ProcessingPipeline" in ann and fname.startswith("_"):
                    bad.append((fname, st, "a back-pointer to the whole pipeline: its text holds every item, including the randomly named '_cond_…' of add_condition"))
                    continue
                # follow the declared field type
                for nm in set(n.id for n in ast.walk(ast.parse(ann, mode="eval")) if isinstance(n, ast.Name)) if _parsable(ann) else ():
                    for tq in by_simple.get(nm, ()):
                        if (tq, True) not in seen:
                            work.append(((tq, True), site))
            if bad:
                for fname, st, why in bad:
                    r.violation("C20.R5", sub, f"field {fname}: {short(st.annotation, 60)} is shown by the generated repr",
                                f"{why}; the text of this object is interpolated into an error message ({site}), so the error record differs between processes", f"{ci.module.relpath}:{st.lineno}")
            else:
                r.ok("C20.R5", sub, f"generated repr shows no set or pipeline back-pointer (reached from {site})", loc)
    r.analysed["C20.classes_with_text_in_messages"] = n_cls
    r5_random_names_in_text(ctx, root_sites, by_simple)
    r.floor("C20.R5", 30)


def random_name_fields(ctx) -> dict[tuple[str, str], str]:
    """(class, field) -> where a randomly drawn name is stored into it. Derived from the classes of the reviewed table of
    random sources: a local is tainted when its value is computed from a draw (or from a field whose default factory draws);
    a store `<obj>.<field>[<tainted key>] = …`, `<obj>.<field>[…] = <tainted text>` or `<obj>.<field> = <tainted>` marks
    the field of the mypy-typed class of <obj>."""
    prog, types = ctx.prog, ctx.types
    out: dict[tuple[str, str], str] = {}

    def draws(e: ast.AST) -> bool:
        return any(isinstance(x, ast.Call) and call_name(x).startswith(RANDOM_CALLS) for x in ast.walk(e))

    for (owner, _call) in ACCEPTED_RANDOM:
        ci = prog.classes.get(owner)
        if ci is None:
            continue
        tainted_self: set[str] = set()
        for fname, st in prog.dataclass_fields(owner).items():
            if st.value is not None and draws(st.value):
                tainted_self.add(fname)
                out[(owner, fname)] = f"{ci.module.relpath}:{st.lineno} default factory"
        for fi in ci.methods.values():
            m = fi.module
            tainted: set[str] = set()

            def is_tainted(e: ast.AST) -> bool:
                for x in ast.walk(e):
                    if isinstance(x, ast.Name) and x.id in tainted:
                        return True
                    if isinstance(x, ast.Attribute) and isinstance(x.value, ast.Name) and x.value.id == "self" and x.attr in tainted_self:
                        return True
                    if isinstance(x, ast.Call) and call_name(x).startswith(RANDOM_CALLS):
                        return True
                return False

            changed = True
            while changed:      # names bound from tainted expressions, to a fixed point (loops, later rebinding)
                changed = False
                for st in ast.walk(fi.node):
                    tg: list[ast.AST] = []
                    val = None
                    if isinstance(st, ast.Assign):
                        tg, val = list(st.targets), st.value
                    elif isinstance(st, (ast.AnnAssign, ast.AugAssign)) and st.value is not None:
                        tg, val = [st.target], st.value
                    elif isinstance(st, ast.NamedExpr):
                        tg, val = [st.target], st.value
                    elif isinstance(st, (ast.For, ast.comprehension)):
                        tg, val = [st.target], st.iter
                    elif (isinstance(st, ast.Call) and isinstance(st.func, ast.Attribute) and isinstance(st.func.value, ast.Name)
                          and st.func.attr in ("append", "extend", "add", "insert", "update", "setdefault") and st.args):
                        tg, val = [ast.Name(id=st.func.value.id, ctx=ast.Store())], ast.Tuple(elts=list(st.args), ctx=ast.Load())
                    if val is None or not is_tainted(val):
                        continue
                    for t in tg:
                        for nm in (x.id for x in ast.walk(t) if isinstance(x, ast.Name) and isinstance(x.ctx, ast.Store)):
                            if nm not in tainted:
                                tainted.add(nm)
                                changed = True
            for st in ast.walk(fi.node):
                if isinstance(st, ast.Assign):
                    tg, val = list(st.targets), st.value
                elif isinstance(st, ast.AugAssign):
                    tg, val = [st.target], st.value
                else:
                    continue
                for t in tg:
                    base = None
                    if isinstance(t, ast.Subscript) and isinstance(t.value, ast.Attribute) and (is_tainted(t.slice) or is_tainted(val)):
                        base = t.value
                    elif isinstance(t, ast.Attribute) and is_tainted(val):
                        base = t
                    if base is None:
                        continue
                    ty = types.type_of(m, base.value)
                    for cn in (_all_class_names(types, ty) if ty is not None else ()):
                        if cn in prog.classes:
                            out.setdefault((cn, base.attr), f"{m.relpath}:{st.lineno} {short(st, 70)}")
    return out


def r5_random_names_in_text(ctx, root_sites, by_simple) -> None:
    """The names add_condition and filters draw at random are stored in fields of the rule. An error message that shows the
    generated repr of an object reaching such a field differs between processes."""
    r, prog = ctx.r, ctx.prog
    rnd = random_name_fields(ctx)
    r.analysed["C20.fields_holding_random_names"] = sorted(f"{c}.{f}" for c, f in rnd)
    if len(rnd) < 2:
        raise AnalysisError("C20.R5: the stores of the randomly drawn detection names were not found (expected at least the detection map and the condition list)")
    memo: dict[tuple[str, bool], tuple[set[str], list[tuple[str, bool]]]] = {}

    def direct(key: tuple[str, bool]) -> tuple[set[str], list[tuple[str, bool]]]:
        """Fields with random names shown by the text of the class (and its subclasses) itself, and the objects whose text it embeds."""
        if key in memo:
            return memo[key]
        cq, use_repr = key
        out: set[str] = set()
        nxt: list[tuple[str, bool]] = []
        for sub in prog.subclasses(cq):
            ci = prog.classes.get(sub)
            if ci is None or ci.module.name.startswith(EXCLUDED):
                continue
            kind, what = _text_function(prog, sub, use_repr)
            if kind == "method":
                m = what.module
                for x in ast.walk(what.node):
                    e = None
                    if isinstance(x, ast.FormattedValue):
                        e, rp = x.value, x.conversion == ord("r")
                    elif isinstance(x, ast.Call) and call_name(x) in ("str", "repr") and x.args:
                        e, rp = x.args[0], call_name(x) == "repr"
                    if e is None:
                        continue
                    if isinstance(e, ast.Attribute) and isinstance(e.value, ast.Name) and e.value.id == "self":
                        for b_ in prog.mro(sub):
                            if (b_, e.attr) in rnd:
                                out.add(f"{b_.rsplit('.', 1)[-1]}.{e.attr}")
                    t = ctx.types.type_of(m, e)
                    for cn in (_all_class_names(ctx.types, t) if t is not None else ()):
                        if cn in prog.classes:
                            nxt.append((cn, rp))
                continue
            if kind != "generated":
                continue
            for fname, st in prog.dataclass_fields(sub).items():
                if _field_opt(st, "repr") is False:
                    continue
                for b_ in prog.mro(sub):
                    if (b_, fname) in rnd:
                        out.add(f"{b_.rsplit('.', 1)[-1]}.{fname}")
                ann = unparse(st.annotation).replace('"', "").replace("'", "")
                for nm in set(n.id for n in ast.walk(ast.parse(ann, mode="eval")) if isinstance(n, ast.Name)) if _parsable(ann) else ():
                    for tq in by_simple.get(nm, ()):
                        nxt.append((tq, True))
        memo[key] = (out, nxt)
        return memo[key]

    def shown(cq: str, use_repr: bool) -> set[str]:
        seen_: set[tuple[str, bool]] = set()
        work_ = [(cq, use_repr)]
        out: set[str] = set()
        while work_:
            k = work_.pop()
            if k in seen_:
                continue
            seen_.add(k)
            f_, n_ = direct(k)
            out |= f_
            work_.extend(n_)
        return out

    n = 0
    reported: set[tuple[str, str]] = set()
    for cn, use_repr, owner, etxt, loc in root_sites:
        if not owner:
            continue
        fields = shown(cn, use_repr)
        n += 1
        if not fields:
            continue
        root = cn.rsplit(".", 1)[-1]
        if (owner, root) in reported:
            continue
        reported.add((owner, root))
        r.violation("C20.R5", owner, f"the message shows the text of a {root}",
                    f"{etxt} is interpolated into the error text; the generated repr reaches {', '.join(sorted(fields))}, which hold the detection names "
                    f"add_condition ('_cond_<10 letters>') and filters ('_filt_<10 letters>_…') draw at random, so the error record differs from process to process", loc)
    r.analysed["C20.message_roots_checked_for_random_names"] = n
    r.ok("C20.R5", "random names", f"{n} interpolated objects checked against {len(rnd)} fields that hold randomly drawn names: {', '.join(sorted(c.rsplit('.', 1)[-1] + '.' + f for c, f in rnd))}")


def _parsable(s: str) -> bool:
    try:
        ast.parse(s, mode="eval")
        return True
    except SyntaxError:
        return False
