"""C06.R1: the keys a reader consumes and the keys a writer emits, both read off an interpretation (sa.tabulate) of the
from_dict / to_dict methods: the reader runs on a recording mapping whose values are drawn so that the run gets through,
the writer on an object all of whose attributes are present. Nothing of pySigma runs; the syntax trees are walked."""
from __future__ import annotations

import ast
from typing import Any, Optional

from ..prog import AnalysisError, unparse


class U:
    """A value that goes along with everything a writer does to an attribute: attributes, calls, iteration (two elements,
    so that `for k, v in x.items()` unpacks), text, truth."""

    def __init__(self, name: str = "u"):
        object.__setattr__(self, "_n", name)

    def __getattr__(self, k: str) -> Any:
        if k.startswith("__") and k.endswith("__"):
            raise AttributeError(k)
        return U(f"{object.__getattribute__(self, '_n')}.{k}")

    def __call__(self, *a: Any, **k: Any) -> Any:
        return U(object.__getattribute__(self, "_n") + "()")

    def __iter__(self) -> Any:
        n = object.__getattribute__(self, "_n")
        return iter([U(n + "[0]"), U(n + "[1]")])

    def __getitem__(self, k: Any) -> Any:
        return U(object.__getattribute__(self, "_n") + "[]")

    def __str__(self) -> str:
        return object.__getattribute__(self, "_n")

    __repr__ = __str__

    def __bool__(self) -> bool:
        return True

    def __len__(self) -> int:
        return 2

    def __eq__(self, o: Any) -> bool:
        return o is self

    def __hash__(self) -> int:
        return id(self)

    def __lt__(self, o: Any) -> bool:
        return False

    __gt__ = __le__ = __ge__ = __lt__

    def __contains__(self, o: Any) -> bool:
        return False


class _UMeta(type):
    def __getattr__(cls, k: str) -> Any:
        if k.startswith("__") and k.endswith("__"):
            raise AttributeError(k)
        return U(f"{cls.__name__}.{k}")

    def __getitem__(cls, k: Any) -> Any:
        return U(f"{cls.__name__}[]")

    def __iter__(cls) -> Any:
        return iter(())

    def __call__(cls, *a: Any, **k: Any) -> Any:
        return U(f"{cls.__name__}()")


def _universal_names(prog, module) -> dict[str, Any]:
    """Every class or module the file imports from the package stands for 'some object': calls and attributes yield U."""
    env: dict[str, Any] = {}
    for st in ast.walk(module.tree):
        if isinstance(st, ast.ImportFrom) and ((st.module or "").startswith("sigma") or st.level):
            for al in st.names:
                nm = al.asname or al.name
                env[nm] = _UMeta(nm, (), {})
        elif isinstance(st, ast.Import):
            for al in st.names:
                if al.name.startswith("sigma"):
                    nm = al.asname or al.name.split(".")[0]
                    env[nm] = _UMeta(nm, (), {})
    for st in module.tree.body:
        if isinstance(st, ast.ClassDef):
            env[st.name] = _UMeta(st.name, (), {})
    return env


def _fields(prog, cq: str) -> dict[str, ast.AnnAssign]:
    out: dict[str, ast.AnnAssign] = {}
    for q in reversed(list(prog.mro(cq))):
        c = prog.classes.get(q)
        if c is None:
            continue
        for st in c.node.body:
            if isinstance(st, ast.AnnAssign) and isinstance(st.target, ast.Name) and "ClassVar" not in unparse(st.annotation) and "InitVar" not in unparse(st.annotation):
                out[st.target.id] = st
    return out


def _nested_keys(d: Any, path: tuple = ()) -> dict[tuple, set[str]]:
    out: dict[tuple, set[str]] = {}
    if isinstance(d, dict):
        out[path] = {k for k in d if isinstance(k, str)}
        for k, v in d.items():
            if isinstance(v, dict) and isinstance(k, str):
                out.update(_nested_keys(v, path + (k,)))
    return out


def writer_keys(ctx, cq: str, method: str = "to_dict") -> tuple[dict[tuple, set[str]], list[str]]:
    """Keys (per nesting path of dicts built by the writer itself) that ``cq.method`` emits for an object all of whose
    attributes are present; and the keys that vanish when a numeric attribute is 0 instead."""
    from ..tabulate import Proxy, call_method, Raised
    prog = ctx.prog
    IK = {"max_steps": 20000}
    fields = _fields(prog, cq)
    if not fields:
        raise AnalysisError(f"{cq}: no annotated fields found")

    stored = set()
    for q in prog.mro(cq):
        c = prog.classes.get(q)
        if c is not None:
            for mth in c.methods.values():
                for n in ast.walk(mth.node):
                    if isinstance(n, ast.Attribute) and isinstance(n.ctx, ast.Store) and isinstance(n.value, ast.Name) and n.value.id == "self":
                        stored.add(n.attr)

    reads: set = ctx.__dict__.setdefault("_c06_writer_reads", {}).setdefault(cq, set())

    class _RecAttrs(dict):
        """the instance attributes of the stand-in object; remembers which of them the writer reads"""
        def __contains__(self, k):
            return dict.__contains__(self, k)
        def __getitem__(self, k):
            reads.add(k)
            return dict.__getitem__(self, k)

    def run(over: dict[str, Any]) -> Any:
        attrs = {k: U(k) for k in set(fields) | stored}
        attrs.update(over)
        m = prog.lookup_method(cq, method)
        if m is None:
            raise AnalysisError(f"anchor vanished: method {cq}.{method}")
        env = _universal_names(prog, m.module)
        for q in prog.mro(cq):
            c = prog.classes.get(q)
            if c is not None:
                for k, v in _universal_names(prog, c.module).items():
                    env.setdefault(k, v)
        me = Proxy(prog, cq, env, attrs, interp_kwargs=IK)
        object.__setattr__(me, "_a", _RecAttrs(object.__getattribute__(me, "_a")))
        try:
            return call_method(prog, cq, method, me, env, interp_kwargs=IK)
        except Raised as ex:
            raise AnalysisError(f"{cq}.{method} on an object with every attribute present raises {ex}")

    full = _nested_keys(run({}))
    if not full:
        raise AnalysisError(f"{cq}.{method}: the writer does not return a dict")
    # once more with plain values where the annotation names a plain type (`x is True`, `x > 0`, `isinstance(x, str)`)
    typed: dict[str, Any] = {}
    for k, st in fields.items():
        words = unparse(st.annotation).replace("|", " ").replace("[", " ").replace("]", " ").replace(",", " ").replace('"', " ").replace("'", " ").split()
        if words and words[0] == "bool":
            typed[k] = True
        elif words and words[0] in ("int", "float"):
            typed[k] = 1
        elif words and words[0] == "str":
            typed[k] = "s"
    if typed:
        try:
            for path, keys in _nested_keys(run(typed)).items():
                full.setdefault(path, set()).update(keys)
        except AnalysisError:
            pass
    lost: list[str] = []
    for k, st in sorted(fields.items()):
        ann = unparse(st.annotation)
        if any(t in ann.replace("|", " ").replace("[", " ").replace("]", " ").replace(",", " ").split() for t in ("int", "float")):
            zero = _nested_keys(run({k: 0}))
            for path, keys in full.items():
                for key in sorted(keys - zero.get(path, set())):
                    lost.append(f"{k} = 0 ({ann}): key '{key}' is not written")
    # an optional attribute that is absent takes only its own key with it: the other attributes are still written
    first = run({})
    owner: dict[tuple, set[str]] = {}

    def _owners(v: Any, acc: set[str], depth: int = 0) -> None:
        if isinstance(v, U):
            n = str(v)
            for sep in ".[(":
                n = n.split(sep)[0]
            acc.add(n)
        elif isinstance(v, dict) and depth < 3:
            for a, b in v.items():
                _owners(a, acc, depth + 1)
                _owners(b, acc, depth + 1)
        elif isinstance(v, (list, tuple, set)) and depth < 3:
            for b in v:
                _owners(b, acc, depth + 1)

    def _collect(d: Any, path: tuple) -> None:
        if not isinstance(d, dict):
            return
        for key, v in d.items():
            if isinstance(key, str):
                acc: set[str] = set()
                _owners(v, acc)
                owner[(path, key)] = acc
                if isinstance(v, dict):
                    _collect(v, path + (key,))

    _collect(first, ())
    for k, st in sorted(fields.items()):
        ann = unparse(st.annotation)
        words = ann.replace("|", " ").replace("[", " ").replace("]", " ").replace(",", " ").split()
        if "None" not in words and "Optional" not in words:
            continue
        try:
            absent = _nested_keys(run({k: None}))
        except AnalysisError:
            continue
        for path in sorted(full):
            if path not in absent and path:
                continue      # the whole section went away: judged at the key of the section itself
            for key in sorted(full[path] - absent.get(path, set())):
                own = owner.get((path, key), set())
                if own and k not in own:
                    lost.append(f"{k} = None ({ann}): key '{'/'.join(path + (key,))}', which is written from {', '.join(sorted(own))}, is not written")
    return full, lost


class RecMap(dict):
    """The document handed to a reader: remembers which keys it was asked for (per nesting path) and answers with a value
    of the kind planned for that key."""

    KINDS = ("str", "dict", "list", "int", "none")

    def __init__(self, rec: dict, plan: dict, path: tuple = ()):
        super().__init__()
        self._rec, self._plan, self._path = rec, plan, path

    def _value(self, k: Any) -> Any:
        if not isinstance(k, str):
            self._rec.setdefault("dynamic", []).append((self._path, repr(k)))
            return None
        self._rec.setdefault("keys", {}).setdefault(self._path, set()).add(k)
        self._rec["last"] = (self._path, k)
        kind = self._plan.get((self._path, k), "str")
        if kind == "str":
            return "x"
        if kind == "dict":
            return RecMap(self._rec, self._plan, self._path + (k,))
        if kind == "list":
            return ["x"]
        if kind == "int":
            return 1
        return None

    def get(self, k: Any, default: Any = None) -> Any:  # type: ignore[override]
        v = self._value(k)
        return default if v is None else v

    def __getitem__(self, k: Any) -> Any:
        v = self._value(k)
        if v is None and self._plan.get((self._path, k)) == "none":
            raise KeyError(k)
        return v

    def __contains__(self, k: Any) -> bool:
        return self._value(k) is not None

    def _all(self) -> dict:
        self._rec.setdefault("iterated", set()).add(self._path)
        return {}

    def items(self) -> Any:  # type: ignore[override]
        return self._all().items()

    def keys(self) -> Any:  # type: ignore[override]
        return self._all().keys()

    def values(self) -> Any:  # type: ignore[override]
        return self._all().values()

    def __iter__(self) -> Any:
        return iter(self._all())

    def __len__(self) -> int:
        return 1

    def __bool__(self) -> bool:
        return True

    def pop(self, k: Any, *d: Any) -> Any:  # type: ignore[override]
        v = self._value(k)
        return (d[0] if d else None) if v is None else v

    def copy(self) -> Any:  # type: ignore[override]
        return self


def reader_keys(ctx, cq: str, method: str, nested_of: Optional[tuple] = None) -> tuple[dict[tuple, set[str]], set[tuple], list[str]]:
    """Keys (per nesting path) that ``cq.method`` asks its document for, over runs in collecting mode with the kind of value
    under each key adapted until the run gets through. → (keys per path, paths that are iterated as a whole, notes)."""
    from ..tabulate import ClassProxy, call_method, Raised
    prog = ctx.prog
    IK = {"max_steps": 60000, "behaviours": (Exception,)}
    m = prog.lookup_method(cq, method)
    if m is None:
        raise AnalysisError(f"anchor vanished: method {cq}.{method}")
    env = _universal_names(prog, m.module)
    for q in prog.mro(cq):
        c = prog.classes.get(q)
        if c is not None:
            for k, v in _universal_names(prog, c.module).items():
                env.setdefault(k, v)
    env.pop(cq.rsplit(".", 1)[-1], None)
    fields = _fields(prog, cq)
    rec: dict = {}
    plan: dict = {}
    if nested_of is not None:
        plan = dict(nested_of[0])
        plan[nested_of[1]] = "dict"
    notes: list[str] = []
    params = [p for p in m.params() if p not in ("self", "cls")]
    for attempt in range(60):
        rec.pop("last", None)
        klass = ClassProxy(prog, cq, env, ctor=lambda *a, **k: U("built"), interp_kwargs=IK, overrides={"__dataclass_fields__": {k: None for k in fields}, "__name__": cq.rsplit(".", 1)[-1]})
        doc = RecMap(rec, plan)
        args: list[Any] = []
        for p in params:
            if not args:
                args.append(doc)
            elif p == "collect_errors":
                args.append(True)
            else:
                args.append(None)
        try:
            call_method(prog, cq, method, klass, env, *args, interp_kwargs=IK)
            if nested_of is not None:
                return rec.get("keys", {}), rec.get("iterated", set()), notes
            # sections the reader opens itself: each key once more with a map under it; what is asked of that map is recorded
            # under the longer path (a run that does not get through still tells which keys were asked for)
            keys = {p: set(v) for p, v in rec.get("keys", {}).items()}
            for k in sorted(keys.get((), set())):
                if plan.get(((), k)) == "dict":
                    continue
                try:
                    sub, _, _ = reader_keys(ctx, cq, method, nested_of=(dict(plan), ((), k)))
                except AnalysisError:
                    continue
                for p, v in sub.items():
                    if p and p[0] == k:
                        keys.setdefault(p, set()).update(v)
            return keys, rec.get("iterated", set()), notes
        except (Raised, AnalysisError) as ex:
            last = rec.get("last")
            if nested_of is not None and (last is None or last == nested_of[1] or not last[0]):
                return rec.get("keys", {}), rec.get("iterated", set()), notes  # the section itself is refused: what was asked of it stands
            if last is None:
                raise AnalysisError(f"{cq}.{method} on a recording document: {ex} before any key was read")
            cur = plan.get(last, "str")
            idx = RecMap.KINDS.index(cur)
            if idx + 1 >= len(RecMap.KINDS):
                raise AnalysisError(f"{cq}.{method} on a recording document: no kind of value under {last} lets the reader get through ({ex})")
            plan[last] = RecMap.KINDS[idx + 1]
            notes.append(f"{'/'.join(last[0] + (last[1],))}: {cur} → {plan[last]} ({str(ex)[:60]})")
    raise AnalysisError(f"{cq}.{method} on a recording document: no run got through in 60 attempts ({notes[-3:]})")


def reader_result(ctx, cq: str, method: str, doc: dict) -> Any:
    """``cq.method`` interpreted on the plain document ``doc`` in collecting mode; what it returns (Raised if it raises)."""
    from ..tabulate import ClassProxy, call_method, Raised
    prog = ctx.prog
    IK = {"max_steps": 60000, "behaviours": (Exception,)}
    m = prog.lookup_method(cq, method)
    if m is None:
        raise AnalysisError(f"anchor vanished: method {cq}.{method}")
    cache = ctx.__dict__.setdefault("_c06_reader_env", {})
    if (cq, method) not in cache:
        env = _universal_names(prog, m.module)
        for q in prog.mro(cq):
            c = prog.classes.get(q)
            if c is not None:
                for k, v in _universal_names(prog, c.module).items():
                    env.setdefault(k, v)
        env.pop(cq.rsplit(".", 1)[-1], None)
        cache[(cq, method)] = env
    env = cache[(cq, method)]
    fields = _fields(prog, cq)
    klass = ClassProxy(prog, cq, env, ctor=lambda *a, **k: ("built", a, k), interp_kwargs=IK, overrides={"__dataclass_fields__": {k: None for k in fields}, "__name__": cq.rsplit(".", 1)[-1]})
    params = [p for p in m.params() if p not in ("self", "cls")]
    args: list[Any] = []
    for p in params:
        args.append(doc if not args else True if p == "collect_errors" else None)
    try:
        return call_method(prog, cq, method, klass, env, *args, interp_kwargs=IK)
    except Raised as ex:
        return ex


def writer_reads(ctx, cq: str, method: str = "to_dict") -> set[str]:
    """Attributes of self that ``cq.method`` reads when it is interpreted on an object with every attribute present (empty if the
    writer cannot be interpreted)."""
    try:
        writer_keys(ctx, cq, method)
    except AnalysisError:
        pass
    return set(ctx.__dict__.get("_c06_writer_reads", {}).get(cq, set()))
