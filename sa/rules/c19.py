"""C19 — validation only observes: it is exact about references and changes nothing."""
from __future__ import annotations

import ast
from typing import Optional

from ..prog import AnalysisError, FuncInfo, call_name, short, stmt_head, unparse, walk_no_nested
from ..util import assignments_to, atomic_guards, cfg_of, guards_at
from .c15 import MUTATORS

RULE_MODEL_PREFIXES = ("sigma.rule.", "sigma.conditions.", "sigma.types.", "sigma.correlations.", "sigma.collection.", "sigma.filters.", "sigma.modifiers.")
VC = "sigma.validators.core.condition"
VM = "sigma.validators.core.metadata"


def _validator_functions(prog) -> list[FuncInfo]:
    return [f for q, f in sorted(prog.funcs.items()) if f.module.name.startswith(("sigma.validators", "sigma.validation"))]


def _mutating_methods(ctx) -> dict[str, str]:
    """Methods of rule-model classes that (transitively through self-calls) write to self: qual -> witness."""
    prog = ctx.prog
    direct: dict[str, str] = {}
    for q, f in prog.funcs.items():
        if not f.module.name.startswith(tuple(p.rstrip(".") for p in RULE_MODEL_PREFIXES)) or f.cls is None:
            continue
        if f.name in ("__init__", "__post_init__", "__new__"):
            continue
        for n in walk_no_nested(f.node):
            if isinstance(n, ast.Attribute) and isinstance(n.ctx, (ast.Store, ast.Del)) and isinstance(n.value, ast.Name) and n.value.id == "self":
                direct[q] = f"self.{n.attr} = ..."
                break
            if isinstance(n, ast.Call) and isinstance(n.func, ast.Attribute) and n.func.attr in MUTATORS and unparse(n.func.value).startswith("self."):
                direct[q] = f"{unparse(n.func.value)}.{n.func.attr}(...)"
                break
            if isinstance(n, ast.Subscript) and isinstance(n.ctx, (ast.Store, ast.Del)) and unparse(n.value).startswith("self."):
                direct[q] = f"{unparse(n.value)}[...] = ..."
                break
    # transitive closure over the call graph (restricted to rule-model code)
    changed = True
    mut = dict(direct)
    while changed:
        changed = False
        for q, f in prog.funcs.items():
            if q in mut or f.cls is None or not f.module.name.startswith(tuple(p.rstrip(".") for p in RULE_MODEL_PREFIXES)):
                continue
            if f.name in ("__init__", "__post_init__", "__new__"):
                continue
            for site in ctx.cg.sites.get(q, []):
                c = site.node
                if isinstance(c, ast.Call) and isinstance(c.func, ast.Attribute) and unparse(c.func.value).split(".")[0] in ("self",):
                    hit = next((t for t in site.callees if t in mut), None)
                    if hit:
                        mut[q] = f"calls {hit.rsplit('.', 2)[-2]}.{hit.rsplit('.', 1)[-1]}"
                        changed = True
                        break
    return mut


def run(ctx) -> None:
    r, prog = ctx.r, ctx.prog
    r.explanation = (
        "Purity and exactness mechanism decided on the source: no function of sigma/validators/** or sigma/validation.py stores "
        "to, or calls a (transitively) self-mutating method on, an object of a rule-model type (mypy receiver types + effect "
        "summaries; condition trees only through parse(False) copies); the two reference validators resolve selectors through the "
        "converter's own ConditionSelector.resolve_referenced_detections, recurse over ConditionItem.args, accumulate over all "
        "conditions and have no result path that bypasses the resolver; uniqueness tables are filled unconditionally per rule and "
        "emitted for groups larger than one; exclusions are looked up by rule id and validator class. Order independence of the "
        "issue multiset and exactness on concrete collections are consequences that are not executed.")
    r1_read_only(ctx)
    r2_reference_analysis(ctx)
    r3_exclusions_uniqueness(ctx)
    r4_validator_state(ctx)
    r5_runs_and_words(ctx)


def r1_read_only(ctx) -> None:
    r, prog, types = ctx.r, ctx.prog, ctx.types
    r.rule("C19.R1", "validators never write to the rule model: no attribute/item store or mutating call on a receiver of a rule-model type, no call of a self-mutating rule-model method, and condition trees only via parse(False)")
    mut = _mutating_methods(ctx)
    r.analysed["C19.self_mutating_rule_model_methods"] = len(mut)
    n = 0
    for f in _validator_functions(prog):
        q = f.qual
        # locals bound to a container that is reached through a rule-model object without a copy (`refs = rule.references`):
        # a mutation through the local is a mutation of the rule
        alias_model: dict[str, list[str]] = {}
        changed = True
        while changed:
            changed = False
            for st in walk_no_nested(f.node):
                if isinstance(st, ast.Assign) and len(st.targets) == 1 and isinstance(st.targets[0], ast.Name):
                    nm, v = st.targets[0].id, st.value
                elif isinstance(st, ast.AnnAssign) and isinstance(st.target, ast.Name) and st.value is not None:
                    nm, v = st.target.id, st.value
                elif isinstance(st, ast.NamedExpr):
                    nm, v = st.target.id, st.value
                else:
                    continue
                while isinstance(v, ast.Call) and call_name(v).split(".")[-1] == "cast" and len(v.args) == 2:
                    v = v.args[1]
                if isinstance(v, ast.IfExp):
                    cands = [v.body, v.orelse]
                elif isinstance(v, ast.BoolOp):
                    cands = list(v.values)
                else:
                    cands = [v]
                found: list[str] = []
                for cv in cands:
                    root = cv
                    if not isinstance(root, (ast.Attribute, ast.Subscript, ast.Name)):
                        continue
                    while isinstance(root, (ast.Attribute, ast.Subscript)):
                        root = root.value
                        found += [c for c in types.class_names(f.module, root) if c.startswith(RULE_MODEL_PREFIXES)]
                    if isinstance(root, ast.Name) and root.id in alias_model and cv is not root:
                        found += alias_model[root.id]
                    elif isinstance(cv, ast.Name) and cv.id in alias_model:
                        found += alias_model[cv.id]
                if found and nm not in alias_model:
                    alias_model[nm] = found
                    changed = True
        for x in walk_no_nested(f.node):
            loc = f"{f.module.relpath}:{getattr(x, 'lineno', f.node.lineno)}"
            tgt = None
            how = ""
            if isinstance(x, ast.Attribute) and isinstance(x.ctx, (ast.Store, ast.Del)):
                tgt, how = x.value, f".{x.attr} store"
            elif isinstance(x, ast.Subscript) and isinstance(x.ctx, (ast.Store, ast.Del)):
                tgt, how = x.value, "[...] store"
            elif isinstance(x, ast.Call) and isinstance(x.func, ast.Attribute) and x.func.attr in MUTATORS:
                tgt, how = x.func.value, f".{x.func.attr}()"
            if tgt is not None:
                classes = types.class_names(f.module, tgt)
                model = [c for c in classes if c.startswith(RULE_MODEL_PREFIXES)]
                # containers reached *through* a rule-model object (rule.tags.append) are part of the model too
                root = tgt
                chain_model = []
                while isinstance(root, (ast.Attribute, ast.Subscript)):
                    root = root.value
                    chain_model += [c for c in types.class_names(f.module, root) if c.startswith(RULE_MODEL_PREFIXES)]
                if isinstance(root, ast.Name) and root.id in alias_model:
                    chain_model += alias_model[root.id]
                is_self_state = isinstance(root, ast.Name) and root.id == "self"
                if (model or chain_model) and not (is_self_state and not model and not _self_attr_holds_rule_container(f, tgt)):
                    # storing a rule *into* the validator's own table is fine (self.ids[...].append(rule)); mutating the rule is not
                    if is_self_state and not model:
                        n += 1
                        r.ok("C19.R1", q, f"{short(prog.enclosing_stmt(x), 80)} — validator's own table", loc)
                        continue
                    n += 1
                    r.violation("C19.R1", q, short(prog.enclosing_stmt(x), 120),
                                f"validator writes to the rule model ({how} on {', '.join(c.rsplit('.', 1)[-1] for c in (model or chain_model)[:3])}): the rule's dict form / converted query differs after validation", loc)
                elif is_self_state:
                    n += 1
                    r.ok("C19.R1", q, f"{short(prog.enclosing_stmt(x), 80)} — validator state", loc)
            # calls of mutating rule-model methods / forbidden parse forms
            if isinstance(x, ast.Call):
                d = call_name(x)
                if d.endswith(".parse") or d.endswith(".postprocess"):
                    recv = types.class_names(f.module, x.func.value) if isinstance(x.func, ast.Attribute) else []
                    if any(c.endswith(("SigmaCondition",)) for c in recv) and d.endswith(".parse"):
                        n += 1
                        arg = x.args[0] if x.args else next((kw.value for kw in x.keywords if kw.arg == "postprocess"), None)
                        if isinstance(arg, ast.Constant) and arg.value is False:
                            r.ok("C19.R1", q, f"{short(x, 60)} — un-postprocessed deep copy of the cached tree", loc)
                        else:
                            r.violation("C19.R1", q, short(x, 80), "parse() with postprocessing writes parent links into the rule's detection objects; validators must use parse(False)", loc)
                        continue
                    if d.endswith(".postprocess") and any(c.startswith("sigma.conditions.") or c.startswith("sigma.rule.") for c in recv):
                        n += 1
                        r.violation("C19.R1", q, short(x, 80), "postprocess() rewrites parent links of the rule's detections", loc)
                        continue
                for callee in ctx.cg.sites_callees(q, x) if hasattr(ctx.cg, "sites_callees") else []:
                    pass
            if isinstance(x, ast.Attribute) and x.attr == "parsed" and isinstance(x.ctx, ast.Load):
                recv = types.class_names(f.module, x.value)
                if any(c.endswith("SigmaCondition") for c in recv):
                    n += 1
                    r.violation("C19.R1", q, short(prog.enclosing_stmt(x), 100), ".parsed post-processes the condition against the rule's detections (writes parent links)", loc)
        # mutating rule-model methods called on rule-model receivers
        for site in ctx.cg.sites.get(q, []):
            c = site.node
            if not isinstance(c, ast.Call) or not isinstance(c.func, ast.Attribute):
                continue
            if unparse(c.func.value).split(".")[0] == "self" and not types.class_names(f.module, c.func.value):
                continue
            hits = [t for t in site.callees if t in mut]
            recv = types.class_names(f.module, c.func.value)
            if hits and any(cn.startswith(RULE_MODEL_PREFIXES) for cn in recv):
                loc = f"{f.module.relpath}:{c.lineno}"
                if c.func.attr == "parse":
                    continue  # judged above by its argument
                n += 1
                r.violation("C19.R1", q, short(c, 100), f"calls {hits[0]} which writes to its object ({mut[hits[0]]})", loc)
    r.analysed["C19.validator_functions"] = len(_validator_functions(prog))
    r.ok("C19.R1", "sigma.validators/**, sigma.validation", f"{len(_validator_functions(prog))} functions scanned for stores/mutating calls on rule-model receivers; {len(mut)} self-mutating rule-model methods known")
    r.floor("C19.R1", 5)


def _self_attr_holds_rule_container(f: FuncInfo, tgt: ast.AST) -> bool:
    return False


def r2_reference_analysis(ctx) -> None:
    r, prog = ctx.r, ctx.prog
    r.rule("C19.R2", "reference analysis agrees with the converter: selectors are resolved only through ConditionSelector.resolve_referenced_detections, every result path of the selector branch uses that result, ConditionItem nodes are traversed over all args, and the per-rule result is accumulated over all parsed conditions")
    from ..tabulate import Proxy, call_method, Raised

    class ConditionItem:
        def __init__(self, args):
            self.args = args

    class ConditionIdentifier(ConditionItem):     # as in sigma.conditions: identifiers and selectors ARE condition items
        def __init__(self, identifier):
            self.identifier, self.args = identifier, [identifier]

    class ConditionSelector(ConditionItem):
        def __init__(self, pattern, resolves):
            self.pattern, self._res, self.args = pattern, resolves, ["1", pattern]
            self.asked = []

        def resolve_referenced_detections(self, detections):
            self.asked.append(detections)
            return [ConditionIdentifier(n) for n in self._res]

    class _Leaf:
        pass

    class SigmaCorrelationRule:
        pass

    table: dict = {}

    class SigmaCondition:   # re-parsing a condition string
        def __init__(self, condition, detections=None, source=None):
            self.condition = condition

        def parse(self, postprocess=True):
            return table[self.condition]

        parsed = property(lambda self: table[self.condition])

    def scenario():
        sel_them = ConditionSelector("them", [])             # every detection name starts with '_': 'them' resolves to nothing
        sel_f = ConditionSelector("flt2*", ["flt2a", "flt2b"])
        sel_none = ConditionSelector("nomatch*", [])
        c1 = ConditionItem([ConditionIdentifier("sel"), ConditionItem([ConditionItem([ConditionIdentifier("flt1"), sel_f, _Leaf(), None])])])
        c2 = ConditionItem([sel_none, ConditionIdentifier("late")])
        c3 = sel_them
        flags = []

        def cond(tree, text=""):
            return type("Cond", (), {"parse": lambda self, postprocess=True: (flags.append(postprocess), tree)[1],
                                     "parsed": property(lambda self: (flags.append(True), tree)[1]), "condition": text})()
        det = type("Det", (), {})()
        det.detections = {n: object() for n in ("sel", "flt1", "flt2a", "flt2b", "late", "unused", "other")}
        det.parsed_condition = [cond(c1, "c1"), cond(c2, "c2"), cond(c3, "c3")]
        # the condition strings the rule was loaded with are outdated once a condition transformation ran
        det.condition = ["c1", "c2-as-loaded"]
        table.clear()
        table.update({"c1": c1, "c2": c2, "c3": c3, "c2-as-loaded": ConditionItem([ConditionIdentifier("late")])})
        rule = type("Rule", (), {})()
        rule.detection = det
        return rule, det, [sel_f, sel_none, sel_them], flags
    import re as _re
    env = {"ConditionItem": ConditionItem, "ConditionIdentifier": ConditionIdentifier, "ConditionSelector": ConditionSelector, "SigmaCorrelationRule": SigmaCorrelationRule,
           "SigmaCondition": SigmaCondition, "re": _re}
    for cq, want, what in ((VC + ".DanglingDetectionValidator", ["other", "unused"], "unused detections = all detection names minus the names referenced from any condition (identifiers and what the selectors resolve to)"),
                           (VC + ".DanglingConditionValidator", ["nomatch*", "them"], "dangling selectors = exactly those the converter's resolver resolves to nothing")):
        v = prog.func(cq + ".validate")
        try:
            rule, det, sels, flags = scenario()
            me = Proxy(prog, cq, env, {})
            issues = call_method(prog, cq, "validate", me, env, rule)
            none_for_corr = call_method(prog, cq, "validate", Proxy(prog, cq, env, {}), env, SigmaCorrelationRule())
        except Raised as ex:
            r.violation("C19.R2", v.qual, "validate() interpreted on a three-condition rule", f"raises {ex}", v.loc)
            continue
        names = []
        for iss in issues or []:
            parts = list(getattr(iss, "args", ())) + list(getattr(iss, "kwargs", {}).values())
            names += [x for x in parts if isinstance(x, str)]
        asked_ok = all(s_.asked and all(a is det for a in s_.asked) for s_ in sels)
        if names == want and asked_ok and none_for_corr == [] and flags and not any(flags):
            r.ok("C19.R2", v.qual, f"validate() interpreted on a rule with three conditions (nested operators, selectors, a 'them' that resolves to nothing): {what}; selectors resolved through resolve_referenced_detections(rule.detection) on the unpostprocessed parse tree; correlation rules skipped", v.loc)
        else:
            why = []
            if names != want:
                why.append(f"reports {names}, specified {want} (in sorted order)")
            if not asked_ok:
                why.append("a selector was not resolved through ConditionSelector.resolve_referenced_detections(rule.detection) — the validator's notion of 'matches' can differ from what is converted (e.g. special-casing 'them')")
            if none_for_corr != []:
                why.append(f"a correlation rule yields {none_for_corr}")
            if not flags or any(flags):
                why.append("conditions are not parsed with parse(False) (the unpostprocessed tree)")
            r.violation("C19.R2", v.qual, f"validate(): {why[0][:160]}", "; ".join(why) + f" — {what}", v.loc)
    r.floor("C19.R2", 2)


def _r3_exclusion_table(ctx) -> None:
    """The exclusion table of a validator configuration, interpreted (sa.tabulate; uuid.UUID and defaultdict are the only
    library objects): every entry of the `exclusions` map ends up under the normalised id of its rule — two spellings of one
    id are one rule, their exclusions are merged."""
    from collections import defaultdict
    from uuid import UUID
    from ..tabulate import Interp, Raised
    r, prog = ctx.r, ctx.prog
    f = prog.func("sigma.validation.SigmaValidator.from_dict")
    V1, V2, V3 = (type(n, (), {}) for n in ("V1", "V2", "V3"))
    got = {}

    def cls(validator_classes, exclusions, configuration=None):
        got["ex"] = {k: set(v) for k, v in dict(exclusions).items()}
        return "validator"
    uid = "9a6b8f0e-3c1d-4e2a-8b7c-1d2e3f4a5f60"
    d = {"validators": ["all"], "exclusions": {uid: "v1", uid.upper(): ["v2"], "{" + uid + "}": "v3", "11111111-2222-3333-4444-555555555555": "v1"}}
    it = Interp({"cls": cls, "d": d, "validators": {"v1": V1, "v2": V2, "v3": V3}, "UUID": UUID, "defaultdict": defaultdict,
                 "SigmaConfigurationError": type("SigmaConfigurationError", (Exception,), {}), "KeyError": KeyError}, max_steps=5000)
    try:
        it.call(f.node.body)
    except Raised as ex:
        r.violation("C19.R3", f.qual, "from_dict with the same rule id in three spellings", f"raises {ex}", f.loc)
        return
    want = {UUID(uid): {V1, V2, V3}, UUID("11111111-2222-3333-4444-555555555555"): {V1}}
    if got.get("ex") == want:
        r.ok("C19.R3", f.qual, "exclusion table: entries for one rule id in several spellings are merged under the normalised id", f.loc)
    else:
        shown = {str(k): sorted(c.__name__ for c in v) for k, v in (got.get("ex") or {}).items()}
        r.violation("C19.R3", f.qual, f"exclusion table {shown}",
                    "the same rule id written in two spellings (upper/lower case, braces, urn:uuid:) yields one key: a later entry replaces the exclusions of an earlier one instead of adding to them, so an excluded validator still reports the rule", f.loc)


def r3_exclusions_uniqueness(ctx) -> None:
    r, prog = ctx.r, ctx.prog
    r.rule("C19.R3", "validate_rule skips a validator iff its class is in exclusions[rule.id]; uniqueness tables are filled unconditionally (only a None test on the key) in validate and reported in finalize for groups with more than one member")
    _r3_exclusion_table(ctx)
    from collections import defaultdict
    from ..tabulate import Proxy, call_method, Raised, Recorded
    SV = "sigma.validation.SigmaValidator"
    vr = prog.func(SV + ".validate_rule")
    log: list = []

    def mk(name):
        return type(name, (), {"validate": lambda self, rule: (log.append((name, rule.name)), [(name, rule.name)])[1],
                               "finalize": lambda self: (log.append((name, "finalize")), [(name, "finalize")])[1]})
    VA, VB, VC = mk("A"), mk("B"), mk("C")
    VB2 = type("B2", (VB,), {"validate": lambda self, rule: (log.append(("B2", rule.name)), [("B2", rule.name)])[1],
                             "finalize": lambda self: (log.append(("B2", "finalize")), [("B2", "finalize")])[1]})

    class _R:
        def __init__(self, id_, name):
            self.id, self.name = id_, name
    env = {"defaultdict": defaultdict}
    try:
        me = Proxy(prog, SV, env, {"validators": [VA(), VB(), VC(), VB2()], "exclusions": defaultdict(set, {1: {VB}, 3: {VA, VB, VC}})})
        got1 = call_method(prog, SV, "validate_rule", me, env, _R(1, "r1"))
        got2 = call_method(prog, SV, "validate_rule", me, env, _R(2, "r2"))
        got3 = call_method(prog, SV, "validate_rule", me, env, _R(3, "r3"))
        me.exclusions[None] = {VA}
        got4 = call_method(prog, SV, "validate_rule", me, env, _R(None, "r4"))
        del log[:]
        got_all = call_method(prog, SV, "validate_rules", me, env, iter([_R(1, "r1"), _R(2, "r2")]))
    except Raised as ex:
        got1 = got2 = got3 = got4 = got_all = f"<raises {ex}>"
    want1, want2, want3 = [("A", "r1"), ("C", "r1"), ("B2", "r1")], [("A", "r2"), ("B", "r2"), ("C", "r2"), ("B2", "r2")], [("B2", "r3")]
    want_all = want1 + want2 + [("A", "finalize"), ("B", "finalize"), ("C", "finalize"), ("B2", "finalize")]
    want4 = [("B", "r4"), ("C", "r4"), ("B2", "r4")]
    if (got1, got2, got3, got4) == (want1, want2, want3, want4):
        r.ok("C19.R3", vr.qual, "validate_rule interpreted: every configured validator runs unless its class is in exclusions[rule.id]", vr.loc)
    else:
        r.violation("C19.R3", vr.qual, f"validate_rule: {got1} / {got2} / {got3} / {got4}", f"specified {want1} / {want2} / {want3} / {want4} (validator B excluded for rule 1, all for rule 3, A for rules without id): exclusions must suppress exactly the excluded validator for the excluded rule id", vr.loc)
    vrs = prog.func(SV + ".validate_rules")
    fin_pos = [k for k, e in enumerate(log) if e[1] == "finalize"]
    val_pos = [k for k, e in enumerate(log) if e[1] != "finalize"]
    if got_all == want_all and fin_pos and val_pos and min(fin_pos) > max(val_pos):
        r.ok("C19.R3", vrs.qual, "validate_rules interpreted: every rule validated once, then every validator finalised once", vrs.loc)
    else:
        r.violation("C19.R3", vrs.qual, f"validate_rules yields {got_all}", f"specified {want_all}, with all finalize() calls after the last validate(): uniqueness validators report in finalize and must have seen every rule", vrs.loc)
    # uniqueness validators: interpreted on a run of stand-in rules
    class _Path:
        def __init__(self, d, name):
            self.d, self.name = d, name

        def __str__(self):
            return f"{self.d}/{self.name}"

    class _Rule:
        """stand-in rule: compares equal by content, like the dataclass rules (two copies of a rule are equal, not identical)"""
        def __init__(self, name, id_=None, title=None, source=None):
            self.name, self.id, self.title, self.source = name, id_, title, source

        def __eq__(self, o):
            return isinstance(o, _Rule) and (self.id, self.title, str(getattr(self.source, "path", None))) == (o.id, o.title, str(getattr(o.source, "path", None)))

        __hash__ = None

    def rules_for(attr):
        if attr == "source":
            spec = [("d1", "a.yml"), ("d1", "a.yml"), ("d2", "a.yml"), None, ("d1", "b.yml"), ("d1", "b.yml"), ("d1", "c.yml"), ("d3", "c.yml")]
            return [_Rule(f"r{k}", source=(type("S", (), {"path": _Path(*v)})() if v else None)) for k, v in enumerate(spec)]
        vals = ["u1", "u1", "u2", None, "u3", "u3", "u3", "", ""]
        return [_Rule(f"r{k}", **{("id_" if attr == "id" else "title"): v}) for k, v in enumerate(vals)]
    for cq, attr in ((VM + ".IdentifierUniquenessValidator", "id"), (VM + ".DuplicateTitleValidator", "title"), (VM + ".DuplicateFilenameValidator", "source")):
        f = prog.func(cq + ".validate")
        env2 = {"defaultdict": defaultdict, "super": lambda *a: type("B", (), {"__init__": lambda self, *a, **k: None})()}
        try:
            me = Proxy(prog, cq, env2, {})
            call_method(prog, cq, "__init__", me, env2)
            rs = rules_for(attr)
            for ro in rs:
                out = call_method(prog, cq, "validate", me, env2, ro)
            issues = call_method(prog, cq, "finalize", me, env2)
        except Raised as ex:
            r.violation("C19.R3", f.qual, "uniqueness validator interpreted", f"raises {ex}", f.loc)
            continue
        groups = set()
        for iss in issues or []:
            parts = list(getattr(iss, "args", ())) + list(getattr(iss, "kwargs", {}).values())
            members = next((x for x in parts if isinstance(x, list)), [])
            key = next((x for x in parts if not isinstance(x, list)), None)
            groups.add((tuple(sorted(getattr(m, "name", str(m)) for m in members)), str(key)))
        want = {(("r0", "r1", "r2"), "a.yml"), (("r6", "r7"), "c.yml")} if attr == "source" else {(("r0", "r1"), "u1"), (("r4", "r5", "r6"), "u3"), (("r7", "r8"), "")}
        if groups == want:
            r.ok("C19.R3", f.qual, f"{cq.rsplit('.', 1)[-1]} interpreted on a run of rules (content-equal copies, None values, empty strings, several rules per file): issues name exactly the groups that share a value, with all their members", f.loc)
        else:
            r.violation("C19.R3", f.qual, f"uniqueness groups {sorted(groups)}", f"specified {sorted(want)}: every rule with a value enters the table, groups with more than one member are reported with all their members", f.loc)
    r.floor("C19.R3", 6)


VALIDATOR_STATE = {
    # (class, attribute) written outside __init__ -> why no verdict can depend on an earlier rule through it
    ("sigma.validators.base.SigmaRuleValidator", "rule"): "the rule being validated, stored at the top of every validate() call before anything reads it",
    ("sigma.validators.core.metadata.DuplicateFilenameValidator", "filenames_to_rules"): "uniqueness table, judged by C19.R3",
    ("sigma.validators.core.metadata.DuplicateFilenameValidator", "filenames_to_paths"): "uniqueness table, judged by C19.R3",
    ("sigma.validators.core.metadata.DuplicateTitleValidator", "titles"): "uniqueness table, judged by C19.R3",
    ("sigma.validators.core.metadata.IdentifierUniquenessValidator", "ids"): "uniqueness table, judged by C19.R3",
    ("sigma.validators.core.tags.ATTACKTagValidator", "allowed_tags"): "lazily loaded reference data (MITRE ATT&CK), independent of any rule",
    ("sigma.validators.core.tags.D3FENDTagValidator", "allowed_tags"): "lazily loaded reference data (MITRE D3FEND), independent of any rule",
    ("sigma.validators.core.logsources.SpecificInsteadOfGenericLogsourceValidator", "logsource"): "per-rule context stored in validate() immediately before super().validate(rule) reads it",
    ("sigma.validators.core.logsources.SpecificInsteadOfGenericLogsourceValidator", "eventid_mappings"): "per-rule context, as above",
    ("sigma.validators.core.logsources.SpecificInsteadOfGenericLogsourceValidator", "disallowed_logsource_event_ids"): "per-rule context, as above",
}


def r4_validator_state(ctx) -> None:
    r, prog = ctx.r, ctx.prog
    r.rule("C19.R4", "a validator carries nothing from one rule to the next except the reviewed uniqueness tables and per-call context: every attribute of a validator object that is written (or mutated in place) outside __init__ is in the reviewed table")
    base = "sigma.validators.base.SigmaRuleValidator"
    n = 0
    for cq in sorted(prog.subclasses(base)):
        ci = prog.cls(cq)
        for name, f in sorted(ci.methods.items()):
            if name in ("__init__", "__post_init__"):
                continue
            for nd in walk_no_nested(f.node):
                tgts: list[ast.AST] = []
                if isinstance(nd, (ast.Assign, ast.AugAssign, ast.AnnAssign)):
                    tgts = list(nd.targets) if isinstance(nd, ast.Assign) else [nd.target]
                elif isinstance(nd, ast.Call) and isinstance(nd.func, ast.Attribute) and nd.func.attr in ("append", "extend", "add", "update", "setdefault", "pop", "clear", "insert", "remove", "__setitem__"):
                    tgts = [nd.func.value]
                for t in tgts:
                    b = t
                    while isinstance(b, ast.Subscript):
                        b = b.value
                    if isinstance(b, ast.Attribute) and isinstance(b.value, ast.Name) and b.value.id == "self":
                        n += 1
                        loc = f"{f.module.relpath}:{nd.lineno}"
                        owner = next((k for k in prog.mro(cq) if (k, b.attr) in VALIDATOR_STATE), None)
                        if owner is None:
                            # a method of a shared base class: reviewed if the entry exists for every class that inherits it
                            subs_ = [s_ for s_ in prog.subclasses(cq, strict=True) if prog.lookup_method(s_, name) is f]
                            owners_ = [next((k for k in prog.mro(s_) if (k, b.attr) in VALIDATOR_STATE), None) for s_ in subs_]
                            if subs_ and all(owners_):
                                owner = owners_[0]
                        st_node = prog.enclosing_stmt(nd)
                        read_elsewhere = any(
                            isinstance(x, ast.Attribute) and x.attr == b.attr and isinstance(x.ctx, ast.Load) and isinstance(x.value, ast.Name) and x.value.id == "self"
                            and not any(x is y for y in ast.walk(st_node)) and not (isinstance(prog.parent(x), ast.Subscript) and isinstance(prog.parent(x).ctx, (ast.Store, ast.Del)))
                            for k2 in prog.mro(cq) if k2 in prog.classes for m2 in prog.classes[k2].methods.values() for x in ast.walk(m2.node))
                        if owner:
                            r.ok("C19.R4", f.qual, f"self.{b.attr} — {VALIDATOR_STATE[(owner, b.attr)]}", loc)
                        elif not read_elsewhere:
                            r.ok("C19.R4", f.qual, f"self.{b.attr} is written but never read by the validator: no verdict can depend on it", loc)
                        else:
                            r.violation("C19.R4", f.qual, short(prog.enclosing_stmt(nd), 100), f"the validator object keeps self.{b.attr} across validate() calls: what it reports for a rule can depend on the rules validated before (e.g. a memoised issue list still naming the first rule that had the value)", loc)
    r.floor("C19.R4", 10)


def r5_runs_and_words(ctx) -> None:
    import re as _re
    r, prog = ctx.r, ctx.prog
    r.rule("C19.R5", "a validator object can be used for several runs and reads conditions as tokens: finalize() of every uniqueness validator re-initialises each table it reports from; checks for the selector word 'them' match it as a whole token after 'of', not as a substring of a detection name or pattern")
    # a second run with the same validator object gives the verdict of a fresh one: interpreted (two runs, the second over
    # fewer rules; nothing of the first may show)
    from collections import defaultdict
    from ..tabulate import Proxy, call_method, Raised

    class _P:
        def __init__(self, d, n):
            self.d, self.name = d, n

        def __str__(self):
            return f"{self.d}/{self.name}"

    def mkrule(k, v, attr):
        ro = type("Rule", (), {})()
        ro.name, ro.id, ro.title, ro.source = f"r{k}", None, None, None
        if attr == "source":
            ro.source = type("S", (), {"path": _P(*v)})()
        else:
            setattr(ro, attr, v)
        return ro
    for cq, attr, run1, run2 in (("sigma.validators.core.metadata.IdentifierUniquenessValidator", "id", ["u1", "u1", "u2"], ["u1", "u2"]),
                                 ("sigma.validators.core.metadata.DuplicateTitleValidator", "title", ["t", "t"], ["t"]),
                                 ("sigma.validators.core.metadata.DuplicateFilenameValidator", "source", [("d1", "a.yml"), ("d2", "a.yml")], [("d1", "a.yml")])):
        f = prog.func(cq + ".finalize")
        env2 = {"defaultdict": defaultdict, "super": lambda *a: type("B", (), {"__init__": lambda self, *a, **k: None})()}
        try:
            me = Proxy(prog, cq, env2, {})
            call_method(prog, cq, "__init__", me, env2)
            for k, v in enumerate(run1):
                call_method(prog, cq, "validate", me, env2, mkrule(k, v, attr))
            first = call_method(prog, cq, "finalize", me, env2)
            for k, v in enumerate(run2):
                call_method(prog, cq, "validate", me, env2, mkrule(k + 10, v, attr))
            second = call_method(prog, cq, "finalize", me, env2)
        except Raised as ex:
            r.violation("C19.R5", f.qual, "two runs with one validator object", f"raises {ex}", f.loc)
            continue
        if len(first or []) == 1 and not second:
            r.ok("C19.R5", f.qual, "second run with the same object reports nothing of the first run (tables start from scratch after finalize)", f.loc)
        else:
            r.violation("C19.R5", f.qual, f"first run {len(first or [])} issue(s), second run {len(second or [])} issue(s)", "the tables keep the rules of the finished run: validating again with the same validator object reports rules of the earlier run as colliding (specified: 1 issue, then none)", f.loc)
    # selector word tests in the condition validators
    m = prog.module("sigma.validators.core.condition")
    probes_no = ["selection_themida", "all of themida_*", "1 of themes*", "not all of them-x"]
    probes_yes = ["all of them", "1 of them", "sel and all  of them", "(all of them)"]
    n_pat = 0
    for cq, ci in sorted(prog.classes.items()):
        if ci.module is not m:
            continue
        for name, sts in ci.assigns.items():
            st = sts[-1]
            v = getattr(st, "value", None)
            if isinstance(v, ast.Call) and call_name(v) == "re.compile" and v.args and isinstance(v.args[0], ast.Constant) and "them" in str(v.args[0].value):
                n_pat += 1
                pat = v.args[0].value
                loc = f"{m.relpath}:{st.lineno}"
                hits_no = [p for p in probes_no if _re.search(pat, p)]
                need = [p for p in probes_yes if ("all" in pat and not p.split(" of")[0].strip("( ").endswith("all") and "all" not in p) is False]
                miss_yes = [p for p in probes_yes if ("all" not in pat or "all" in p) and not _re.search(pat, p)]
                if hits_no:
                    r.violation("C19.R5", cq, f"{name} = re.compile({pat!r})", f"the pattern also matches {hits_no}: 'them' inside a detection name or pattern is taken for the selector word, so a rule without any 'of them' selector is reported", loc)
                elif miss_yes:
                    r.violation("C19.R5", cq, f"{name} = re.compile({pat!r})", f"the pattern misses {miss_yes}", loc)
                else:
                    r.ok("C19.R5", cq, f"{name}: matches the selector word as a token ({len(probes_no)} near-miss names rejected)", loc)
        for fn in ci.methods.values():
            for n in walk_no_nested(fn.node):
                if isinstance(n, ast.Compare) and any(isinstance(o, ast.In) for o in n.ops) and isinstance(n.left, ast.Constant) and isinstance(n.left.value, str) and n.left.value in ("them", "all of them", "of them"):
                    r.violation("C19.R5", fn.qual, unparse(n), "substring test on the condition text: a detection called selection_themida contains 'them'", f"{m.relpath}:{n.lineno}")
    if n_pat < 2:
        raise AnalysisError(f"only {n_pat} 'them' patterns found in the condition validators (2 confirmed)")
    r.floor("C19.R5", 5)
