"""C19 — validation only observes: it is exact about references and changes nothing."""
from __future__ import annotations

import ast
from typing import Optional

from ..prog import AnalysisError, FuncInfo, call_name, short, stmt_head, unparse, walk_no_nested
from ..util import assignments_to, atomic_guards, cfg_of, guards_at
from .c15 import MUTATORS

RULE_MODEL_PREFIXES = ("sigma.rule.", "sigma.conditions.", "sigma.types.", "sigma.correlations.", "sigma.collection.", "sigma.filters.", "sigma.modifiers.")
VC = "sigma.validators.core.condition"
VM = "sigma.validators.core.metadata"


def _validator_functions(prog) -> list[FuncInfo]:
    return [f for q, f in sorted(prog.funcs.items()) if f.module.name.startswith(("sigma.validators", "sigma.validation"))]


def _mutating_methods(ctx) -> dict[str, str]:
    """Methods of rule-model classes that (transitively through self-calls) write to self: qual -> witness."""
    prog = ctx.prog
    direct: dict[str, str] = {}
    for q, f in prog.funcs.items():
        if not f.module.name.startswith(tuple(p.rstrip(".") for p in RULE_MODEL_PREFIXES)) or f.cls is None:
            continue
        if f.name in ("__init__", "__post_init__", "__new__"):
            continue
        for n in walk_no_nested(f.node):
            if isinstance(n, ast.Attribute) and isinstance(n.ctx, (ast.Store, ast.Del)) and isinstance(n.value, ast.Name) and n.value.id == "self":
                direct[q] = f"self.{n.attr} = ..."
                break
            if isinstance(n, ast.Call) and isinstance(n.func, ast.Attribute) and n.func.attr in MUTATORS and unparse(n.func.value).startswith("self."):
                direct[q] = f"{unparse(n.func.value)}.{n.func.attr}(...)"
                break
            if isinstance(n, ast.Subscript) and isinstance(n.ctx, (ast.Store, ast.Del)) and unparse(n.value).startswith("self."):
                direct[q] = f"{unparse(n.value)}[...] = ..."
                break
    # transitive closure over the call graph (restricted to rule-model code)
    changed = True
    mut = dict(direct)
    while changed:
        changed = False
        for q, f in prog.funcs.items():
            if q in mut or f.cls is None or not f.module.name.startswith(tuple(p.rstrip(".") for p in RULE_MODEL_PREFIXES)):
                continue
            if f.name in ("__init__", "__post_init__", "__new__"):
                continue
            for site in ctx.cg.sites.get(q, []):
                c = site.node
                if isinstance(c, ast.Call) and isinstance(c.func, ast.Attribute) and unparse(c.func.value).split(".")[0] in ("self",):
                    hit = next((t for t in site.callees if t in mut), None)
                    if hit:
                        mut[q] = f"calls {hit.rsplit('.', 2)[-2]}.{hit.rsplit('.', 1)[-1]}"
                        changed = True
                        break
    return mut


def run(ctx) -> None:
    r, prog = ctx.r, ctx.prog
    r.explanation = (
        "Purity and exactness mechanism decided on the source: no function of sigma/validators/** or sigma/validation.py stores "
        "to, or calls a (transitively) self-mutating method on, an object of a rule-model type (mypy receiver types + effect "
        "summaries; condition trees only through parse(False) copies); the two reference validators resolve selectors through the "
        "converter's own ConditionSelector.resolve_referenced_detections, recurse over ConditionItem.args, accumulate over all "
        "conditions and have no result path that bypasses the resolver; uniqueness tables are filled unconditionally per rule and "
        "emitted for groups larger than one; exclusions are looked up by rule id and validator class. Order independence of the "
        "issue multiset and exactness on concrete collections are consequences that are not executed.")
    r1_read_only(ctx)
    r2_reference_analysis(ctx)
    r3_exclusions_uniqueness(ctx)
    r4_validator_state(ctx)
    r5_runs_and_words(ctx)


def r1_read_only(ctx) -> None:
    r, prog, types = ctx.r, ctx.prog, ctx.types
    r.rule("C19.R1", "validators never write to the rule model: no attribute/item store or mutating call on a receiver of a rule-model type, no call of a self-mutating rule-model method, and condition trees only via parse(False)")
    mut = _mutating_methods(ctx)
    r.analysed["C19.self_mutating_rule_model_methods"] = len(mut)
    n = 0
    for f in _validator_functions(prog):
        q = f.qual
        for x in walk_no_nested(f.node):
            loc = f"{f.module.relpath}:{getattr(x, 'lineno', f.node.lineno)}"
            tgt = None
            how = ""
            if isinstance(x, ast.Attribute) and isinstance(x.ctx, (ast.Store, ast.Del)):
                tgt, how = x.value, f".{x.attr} store"
            elif isinstance(x, ast.Subscript) and isinstance(x.ctx, (ast.Store, ast.Del)):
                tgt, how = x.value, "[...] store"
            elif isinstance(x, ast.Call) and isinstance(x.func, ast.Attribute) and x.func.attr in MUTATORS:
                tgt, how = x.func.value, f".{x.func.attr}()"
            if tgt is not None:
                classes = types.class_names(f.module, tgt)
                model = [c for c in classes if c.startswith(RULE_MODEL_PREFIXES)]
                # containers reached *through* a rule-model object (rule.tags.append) are part of the model too
                root = tgt
                chain_model = []
                while isinstance(root, (ast.Attribute, ast.Subscript)):
                    root = root.value
                    chain_model += [c for c in types.class_names(f.module, root) if c.startswith(RULE_MODEL_PREFIXES)]
                is_self_state = isinstance(root, ast.Name) and root.id == "self"
                if (model or chain_model) and not (is_self_state and not model and not _self_attr_holds_rule_container(f, tgt)):
                    # storing a rule *into* the validator's own table is fine (self.ids[...].append(rule)); mutating the rule is not
                    if is_self_state and not model:
                        n += 1
                        r.ok("C19.R1", q, f"{short(prog.enclosing_stmt(x), 80)} — validator's own table", loc)
                        continue
                    n += 1
                    r.violation("C19.R1", q, short(prog.enclosing_stmt(x), 120),
                                f"validator writes to the rule model ({how} on {', '.join(c.rsplit('.', 1)[-1] for c in (model or chain_model)[:3])}): the rule's dict form / converted query differs after validation", loc)
                elif is_self_state:
                    n += 1
                    r.ok("C19.R1", q, f"{short(prog.enclosing_stmt(x), 80)} — validator state", loc)
            # calls of mutating rule-model methods / forbidden parse forms
            if isinstance(x, ast.Call):
                d = call_name(x)
                if d.endswith(".parse") or d.endswith(".postprocess"):
                    recv = types.class_names(f.module, x.func.value) if isinstance(x.func, ast.Attribute) else []
                    if any(c.endswith(("SigmaCondition",)) for c in recv) and d.endswith(".parse"):
                        n += 1
                        arg = x.args[0] if x.args else next((kw.value for kw in x.keywords if kw.arg == "postprocess"), None)
                        if isinstance(arg, ast.Constant) and arg.value is False:
                            r.ok("C19.R1", q, f"{short(x, 60)} — un-postprocessed deep copy of the cached tree", loc)
                        else:
                            r.violation("C19.R1", q, short(x, 80), "parse() with postprocessing writes parent links into the rule's detection objects; validators must use parse(False)", loc)
                        continue
                    if d.endswith(".postprocess") and any(c.startswith("sigma.conditions.") or c.startswith("sigma.rule.") for c in recv):
                        n += 1
                        r.violation("C19.R1", q, short(x, 80), "postprocess() rewrites parent links of the rule's detections", loc)
                        continue
                for callee in ctx.cg.sites_callees(q, x) if hasattr(ctx.cg, "sites_callees") else []:
                    pass
            if isinstance(x, ast.Attribute) and x.attr == "parsed" and isinstance(x.ctx, ast.Load):
                recv = types.class_names(f.module, x.value)
                if any(c.endswith("SigmaCondition") for c in recv):
                    n += 1
                    r.violation("C19.R1", q, short(prog.enclosing_stmt(x), 100), ".parsed post-processes the condition against the rule's detections (writes parent links)", loc)
        # mutating rule-model methods called on rule-model receivers
        for site in ctx.cg.sites.get(q, []):
            c = site.node
            if not isinstance(c, ast.Call) or not isinstance(c.func, ast.Attribute):
                continue
            if unparse(c.func.value).split(".")[0] == "self" and not types.class_names(f.module, c.func.value):
                continue
            hits = [t for t in site.callees if t in mut]
            recv = types.class_names(f.module, c.func.value)
            if hits and any(cn.startswith(RULE_MODEL_PREFIXES) for cn in recv):
                loc = f"{f.module.relpath}:{c.lineno}"
                if c.func.attr == "parse":
                    continue  # judged above by its argument
                n += 1
                r.violation("C19.R1", q, short(c, 100), f"calls {hits[0]} which writes to its object ({mut[hits[0]]})", loc)
    r.analysed["C19.validator_functions"] = len(_validator_functions(prog))
    r.ok("C19.R1", "sigma.validators/**, sigma.validation", f"{len(_validator_functions(prog))} functions scanned for stores/mutating calls on rule-model receivers; {len(mut)} self-mutating rule-model methods known")
    r.floor("C19.R1", 5)


def _self_attr_holds_rule_container(f: FuncInfo, tgt: ast.AST) -> bool:
    return False


def r2_reference_analysis(ctx) -> None:
    r, prog = ctx.r, ctx.prog
    r.rule("C19.R2", "reference analysis agrees with the converter: selectors are resolved only through ConditionSelector.resolve_referenced_detections, every result path of the selector branch uses that result, ConditionItem nodes are traversed over all args, and the per-rule result is accumulated over all parsed conditions")
    specs = [
        (VC + ".DanglingDetectionValidator", "condition_referenced_ids", "referenced_ids"),
        (VC + ".DanglingConditionValidator", "condition_unknown_referenced_ids", "unknown_detection_refs"),
    ]
    for cq, helper, acc in specs:
        h = prog.func(f"{cq}.{helper}")
        # selector branch
        sel_ifs = [n for n in walk_no_nested(h.node) if isinstance(n, ast.If) and unparse(n.test) == "isinstance(cond, ConditionSelector)"]
        if len(sel_ifs) != 1:
            raise AnalysisError(f"{h.qual}: ConditionSelector branch not found")
        sb = sel_ifs[0]
        loc = f"{h.module.relpath}:{sb.lineno}"
        res_calls = [c for s in sb.body for c in ast.walk(s) if isinstance(c, ast.Call) and call_name(c) == "cond.resolve_referenced_detections" and [unparse(a) for a in c.args] == ["detections"]]
        if not res_calls:
            r.violation("C19.R2", h.qual, "cond.resolve_referenced_detections(detections)", "selector is not resolved with the converter's resolver: the validator's notion of 'matches' can differ from what is converted", loc)
        else:
            cfg = cfg_of(h)
            rn = [n for c in res_calls for n in cfg.node_of_expr(c, prog.parent)]
            rets = [x for s in sb.body for x in ast.walk(s) if isinstance(x, ast.Return)]
            bypass = [x for x in rets if not all(cfg.must_pass(n, rn) for n in cfg.nodes_of(x))]
            if bypass:
                r.violation("C19.R2", h.qual, stmt_head(bypass[0]),
                            "a result of the selector branch is returned without consulting resolve_referenced_detections (special-casing a pattern such as 'them'): "
                            "the answer can disagree with the resolver, e.g. when every detection name starts with '_'", f"{h.module.relpath}:{bypass[0].lineno}")
            else:
                r.ok("C19.R2", h.qual, "every result of the selector branch is computed from resolve_referenced_detections(detections)", loc)
        # order of isinstance tests: Identifier/Selector before the generic ConditionItem
        tests = [unparse(n.test) for n in walk_no_nested(h.node) if isinstance(n, ast.If) and unparse(n.test).startswith("isinstance(cond, ")]
        if "isinstance(cond, ConditionItem)" in tests and tests.index("isinstance(cond, ConditionItem)") == len(tests) - 1:
            r.ok("C19.R2", h.qual, f"dispatch order {tests}: specific node classes before ConditionItem", loc)
        else:
            r.violation("C19.R2", h.qual, str(tests), "the generic ConditionItem case shadows ConditionIdentifier/ConditionSelector (both are ConditionItem subclasses)", loc)
        # recursion over all args
        item_ifs = [n for n in walk_no_nested(h.node) if isinstance(n, ast.If) and unparse(n.test) == "isinstance(cond, ConditionItem)"]
        okrec = False
        for ib in item_ifs:
            loops = [x for s in ib.body for x in ast.walk(s) if isinstance(x, ast.For) and unparse(x.iter) == "cond.args"]
            for lp in loops:
                if any(isinstance(c, ast.Call) and call_name(c) == "ids.update" and f"self.{helper}(arg, detections)" in unparse(c) for c in ast.walk(lp)) \
                        and not any(isinstance(x, (ast.Break, ast.Return)) for x in ast.walk(lp)):
                    okrec = True
        if okrec:
            r.ok("C19.R2", h.qual, "ConditionItem: union over all args, recursively", loc)
        else:
            r.violation("C19.R2", h.qual, "for arg in cond.args: ids.update(self.<helper>(arg, detections))", "operator nodes are not traversed completely", loc)
        # accumulation in validate()
        v = prog.func(f"{cq}.validate")
        loops = [n for n in walk_no_nested(v.node) if isinstance(n, ast.For) and unparse(n.iter) == "rule.detection.parsed_condition"]
        if len(loops) != 1:
            r.violation("C19.R2", v.qual, "for condition in rule.detection.parsed_condition", "validator does not walk all conditions of the rule", v.loc)
            continue
        lp = loops[0]
        vloc = f"{v.module.relpath}:{lp.lineno}"
        rebinds = [n for n in ast.walk(lp) if isinstance(n, ast.Assign) and any(unparse(t) == acc for t in n.targets)]
        updates = [c for c in ast.walk(lp) if isinstance(c, ast.Call) and call_name(c) == f"{acc}.update" and f"self.{helper}(" in unparse(c)] + \
                  [n for n in ast.walk(lp) if isinstance(n, ast.AugAssign) and unparse(n.target) == acc and isinstance(n.op, ast.BitOr)]
        inits = [d for d in assignments_to(v.node, acc) if isinstance(d, ast.AST) and getattr(d, "lineno", 0) < lp.lineno]
        if rebinds:
            r.violation("C19.R2", v.qual, unparse(rebinds[0]), f"{acc} is overwritten inside the loop over the conditions: only the last condition counts, so a detection referenced from an earlier condition is reported as unused", f"{v.module.relpath}:{rebinds[0].lineno}")
        elif updates and inits and not any(isinstance(x, (ast.Break, ast.Continue, ast.Return)) for x in ast.walk(lp)):
            r.ok("C19.R2", v.qual, f"{acc} accumulated with update() over every parsed condition", vloc)
        else:
            r.violation("C19.R2", v.qual, stmt_head(lp), f"{acc} is not accumulated over all conditions", vloc)
    # the final set arithmetic of the dangling-detection validator
    v = prog.func(VC + ".DanglingDetectionValidator.validate")
    src = unparse(v.node)
    diff = [n for n in ast.walk(v.node) if isinstance(n, ast.BinOp) and isinstance(n.op, ast.Sub) and unparse(n) == "detection_names - referenced_ids"]
    in_result = any(isinstance(a_, ast.comprehension) or (isinstance(a_, ast.Call) and call_name(a_) in ("sorted", "list", "set", "frozenset")) for d_ in diff for a_ in [prog.parent(d_)])
    if diff and in_result and ("{name for name in rule.detection.detections.keys()}" in src or "set(rule.detection.detections" in src):
        r.ok("C19.R2", v.qual, "unused = all detection names − referenced names", v.loc)
    else:
        r.violation("C19.R2", v.qual, "detection_names - referenced_ids", "unused detections are not computed as (all detection names) minus (referenced names)", v.loc)
    h = prog.func(VC + ".DanglingConditionValidator.condition_unknown_referenced_ids")
    rets = [x for x in walk_no_nested(h.node) if isinstance(x, ast.Return) and unparse(x.value) == "{cond.pattern}"]
    okp = rets and any(g[0].startswith("resolved_detections == set()") or g[0] in ("not resolved_detections", "len(resolved_detections) == 0") for g in atomic_guards(guards_at(prog, h, rets[0])) if g[1])
    if okp:
        r.ok("C19.R2", h.qual, "dangling iff the resolver returns no detection", h.loc)
    else:
        r.violation("C19.R2", h.qual, "return {cond.pattern}", "a selector must be reported exactly when the resolved set is empty", h.loc)
    r.floor("C19.R2", 9)


def _r3_exclusion_table(ctx) -> None:
    """The exclusion table of a validator configuration, interpreted (sa.tabulate; uuid.UUID and defaultdict are the only
    library objects): every entry of the `exclusions` map ends up under the normalised id of its rule — two spellings of one
    id are one rule, their exclusions are merged."""
    from collections import defaultdict
    from uuid import UUID
    from ..tabulate import Interp, Raised
    r, prog = ctx.r, ctx.prog
    f = prog.func("sigma.validation.SigmaValidator.from_dict")
    V1, V2, V3 = (type(n, (), {}) for n in ("V1", "V2", "V3"))
    got = {}

    def cls(validator_classes, exclusions, configuration=None):
        got["ex"] = {k: set(v) for k, v in dict(exclusions).items()}
        return "validator"
    uid = "9a6b8f0e-3c1d-4e2a-8b7c-1d2e3f4a5f60"
    d = {"validators": ["all"], "exclusions": {uid: "v1", uid.upper(): ["v2"], "{" + uid + "}": "v3", "11111111-2222-3333-4444-555555555555": "v1"}}
    it = Interp({"cls": cls, "d": d, "validators": {"v1": V1, "v2": V2, "v3": V3}, "UUID": UUID, "defaultdict": defaultdict,
                 "SigmaConfigurationError": type("SigmaConfigurationError", (Exception,), {}), "KeyError": KeyError}, max_steps=5000)
    try:
        it.call(f.node.body)
    except Raised as ex:
        r.violation("C19.R3", f.qual, "from_dict with the same rule id in three spellings", f"raises {ex}", f.loc)
        return
    want = {UUID(uid): {V1, V2, V3}, UUID("11111111-2222-3333-4444-555555555555"): {V1}}
    if got.get("ex") == want:
        r.ok("C19.R3", f.qual, "exclusion table: entries for one rule id in several spellings are merged under the normalised id", f.loc)
    else:
        shown = {str(k): sorted(c.__name__ for c in v) for k, v in (got.get("ex") or {}).items()}
        r.violation("C19.R3", f.qual, f"exclusion table {shown}",
                    "the same rule id written in two spellings (upper/lower case, braces, urn:uuid:) yields one key: a later entry replaces the exclusions of an earlier one instead of adding to them, so an excluded validator still reports the rule", f.loc)


def r3_exclusions_uniqueness(ctx) -> None:
    r, prog = ctx.r, ctx.prog
    r.rule("C19.R3", "validate_rule skips a validator iff its class is in exclusions[rule.id]; uniqueness tables are filled unconditionally (only a None test on the key) in validate and reported in finalize for groups with more than one member")
    _r3_exclusion_table(ctx)
    vr = prog.func("sigma.validation.SigmaValidator.validate_rule")
    src = unparse(vr.node)
    ext = [c for c in walk_no_nested(vr.node) if isinstance(c, ast.Call) and call_name(c) == "issues.extend"]
    if "exclusions = self.exclusions[rule.id]" in src and len(ext) == 1:
        gs = atomic_guards(guards_at(prog, vr, ext[0]))
        if ("validator.__class__ not in exclusions", True) in gs or ("validator.__class__ in exclusions", False) in gs or ("type(validator) not in exclusions", True) in gs:
            if len([g for g in gs]) == 1:
                r.ok("C19.R3", vr.qual, "validator.validate(rule) iff validator.__class__ not in exclusions[rule.id]", f"{vr.module.relpath}:{ext[0].lineno}")
            else:
                r.violation("C19.R3", vr.qual, short(ext[0]), f"additional conditions decide whether a validator runs: {gs}", f"{vr.module.relpath}:{ext[0].lineno}")
        else:
            r.violation("C19.R3", vr.qual, short(ext[0]), f"validators are not skipped exactly by class membership in the rule's exclusion set ({gs})", f"{vr.module.relpath}:{ext[0].lineno}")
        lp = [n for n in walk_no_nested(vr.node) if isinstance(n, ast.For)]
        if lp and unparse(lp[0].iter) == "self.validators":
            r.ok("C19.R3", vr.qual, "all configured validators are consulted", vr.loc)
        else:
            r.violation("C19.R3", vr.qual, "for validator in self.validators", "not every configured validator is consulted", vr.loc)
    else:
        r.violation("C19.R3", vr.qual, "exclusions = self.exclusions[rule.id]", "exclusions are not looked up by the rule's id", vr.loc)
    vrs = prog.func("sigma.validation.SigmaValidator.validate_rules")
    if unparse(vrs.node.body[-1]).replace(" ", "") == "return[issueforruleinrulesforissueinself.validate_rule(rule)]+self.finalize()":
        r.ok("C19.R3", vrs.qual, "every rule validated once, then finalize() once", vrs.loc)
    else:
        r.violation("C19.R3", vrs.qual, unparse(vrs.node.body[-1])[:120], "validate_rules must validate every rule once and finalize once afterwards", vrs.loc)
    tables = [
        (VM + ".IdentifierUniquenessValidator", "self.ids", "rule.id", "rule.id is not None"),
        (VM + ".DuplicateTitleValidator", "self.titles", "rule.title", "rule.title is not None"),
        (VM + ".DuplicateFilenameValidator", "self.filenames_to_rules", "rule.source.path.name", "rule.source is not None"),
    ]
    for cq, table, key, guard in tables:
        v = prog.func(cq + ".validate")
        apps = [c for c in walk_no_nested(v.node) if isinstance(c, ast.Call) and unparse(c.func) == f"{table}[{key}].append" and [unparse(a) for a in c.args] == ["rule"]]
        loc = v.loc
        if len(apps) != 1:
            r.violation("C19.R3", v.qual, f"{table}[{key}].append(rule)", "rule is not entered into the uniqueness table under its value", loc)
        else:
            gs = atomic_guards(guards_at(prog, v, apps[0]))
            if gs == [(guard, True)]:
                r.ok("C19.R3", v.qual, f"{table}[{key}].append(rule) iff {guard}", f"{v.module.relpath}:{apps[0].lineno}")
            else:
                r.violation("C19.R3", v.qual, f"{short(apps[0], 60)} under {gs}",
                            f"whether a rule enters the table depends on more than `{guard}` (e.g. a value-equality membership test drops content-identical copies, so the reported group is too small or missing)", f"{v.module.relpath}:{apps[0].lineno}")
        f = prog.func(cq + ".finalize")
        comps = [n for n in walk_no_nested(f.node) if isinstance(n, ast.ListComp)]
        okf = False
        for cmp_ in comps:
            ifs = [unparse(i) for g in cmp_.generators for i in g.ifs]
            if len(ifs) == 1 and ifs[0] in ("len(rules) > 1", "len(paths) > 1"):
                okf = True
        if okf:
            r.ok("C19.R3", f.qual, "issue per group with more than one member", f.loc)
        else:
            r.violation("C19.R3", f.qual, short(comps[0], 120) if comps else "finalize", "collision groups must be exactly those with more than one member", f.loc)
    r.floor("C19.R3", 9)


VALIDATOR_STATE = {
    # (class, attribute) written outside __init__ -> why no verdict can depend on an earlier rule through it
    ("sigma.validators.base.SigmaRuleValidator", "rule"): "the rule being validated, stored at the top of every validate() call before anything reads it",
    ("sigma.validators.core.metadata.DuplicateFilenameValidator", "filenames_to_rules"): "uniqueness table, judged by C19.R3",
    ("sigma.validators.core.metadata.DuplicateFilenameValidator", "filenames_to_paths"): "uniqueness table, judged by C19.R3",
    ("sigma.validators.core.metadata.DuplicateTitleValidator", "titles"): "uniqueness table, judged by C19.R3",
    ("sigma.validators.core.metadata.IdentifierUniquenessValidator", "ids"): "uniqueness table, judged by C19.R3",
    ("sigma.validators.core.tags.ATTACKTagValidator", "allowed_tags"): "lazily loaded reference data (MITRE ATT&CK), independent of any rule",
    ("sigma.validators.core.tags.D3FENDTagValidator", "allowed_tags"): "lazily loaded reference data (MITRE D3FEND), independent of any rule",
    ("sigma.validators.core.logsources.SpecificInsteadOfGenericLogsourceValidator", "logsource"): "per-rule context stored in validate() immediately before super().validate(rule) reads it",
    ("sigma.validators.core.logsources.SpecificInsteadOfGenericLogsourceValidator", "eventid_mappings"): "per-rule context, as above",
    ("sigma.validators.core.logsources.SpecificInsteadOfGenericLogsourceValidator", "disallowed_logsource_event_ids"): "per-rule context, as above",
}


def r4_validator_state(ctx) -> None:
    r, prog = ctx.r, ctx.prog
    r.rule("C19.R4", "a validator carries nothing from one rule to the next except the reviewed uniqueness tables and per-call context: every attribute of a validator object that is written (or mutated in place) outside __init__ is in the reviewed table")
    base = "sigma.validators.base.SigmaRuleValidator"
    n = 0
    for cq in sorted(prog.subclasses(base)):
        ci = prog.cls(cq)
        for name, f in sorted(ci.methods.items()):
            if name in ("__init__", "__post_init__"):
                continue
            for nd in walk_no_nested(f.node):
                tgts: list[ast.AST] = []
                if isinstance(nd, (ast.Assign, ast.AugAssign, ast.AnnAssign)):
                    tgts = list(nd.targets) if isinstance(nd, ast.Assign) else [nd.target]
                elif isinstance(nd, ast.Call) and isinstance(nd.func, ast.Attribute) and nd.func.attr in ("append", "extend", "add", "update", "setdefault", "pop", "clear", "insert", "remove", "__setitem__"):
                    tgts = [nd.func.value]
                for t in tgts:
                    b = t
                    while isinstance(b, ast.Subscript):
                        b = b.value
                    if isinstance(b, ast.Attribute) and isinstance(b.value, ast.Name) and b.value.id == "self":
                        n += 1
                        loc = f"{f.module.relpath}:{nd.lineno}"
                        owner = next((k for k in prog.mro(cq) if (k, b.attr) in VALIDATOR_STATE), None)
                        st_node = prog.enclosing_stmt(nd)
                        read_elsewhere = any(
                            isinstance(x, ast.Attribute) and x.attr == b.attr and isinstance(x.ctx, ast.Load) and isinstance(x.value, ast.Name) and x.value.id == "self"
                            and not any(x is y for y in ast.walk(st_node)) and not (isinstance(prog.parent(x), ast.Subscript) and isinstance(prog.parent(x).ctx, (ast.Store, ast.Del)))
                            for k2 in prog.mro(cq) if k2 in prog.classes for m2 in prog.classes[k2].methods.values() for x in ast.walk(m2.node))
                        if owner:
                            r.ok("C19.R4", f.qual, f"self.{b.attr} — {VALIDATOR_STATE[(owner, b.attr)]}", loc)
                        elif not read_elsewhere:
                            r.ok("C19.R4", f.qual, f"self.{b.attr} is written but never read by the validator: no verdict can depend on it", loc)
                        else:
                            r.violation("C19.R4", f.qual, short(prog.enclosing_stmt(nd), 100), f"the validator object keeps self.{b.attr} across validate() calls: what it reports for a rule can depend on the rules validated before (e.g. a memoised issue list still naming the first rule that had the value)", loc)
    r.floor("C19.R4", 10)


def r5_runs_and_words(ctx) -> None:
    import re as _re
    r, prog = ctx.r, ctx.prog
    r.rule("C19.R5", "a validator object can be used for several runs and reads conditions as tokens: finalize() of every uniqueness validator re-initialises each table it reports from; checks for the selector word 'them' match it as a whole token after 'of', not as a substring of a detection name or pattern")
    for cq, tables in (("sigma.validators.core.metadata.IdentifierUniquenessValidator", ["ids"]), ("sigma.validators.core.metadata.DuplicateTitleValidator", ["titles"]),
                       ("sigma.validators.core.metadata.DuplicateFilenameValidator", ["filenames_to_rules", "filenames_to_paths"])):
        f = prog.func(cq + ".finalize")
        for t in tables:
            resets = [n for n in walk_no_nested(f.node) if isinstance(n, ast.Assign) and unparse(n.targets[0]) == f"self.{t}" and isinstance(n.value, ast.Call) and call_name(n.value) in ("defaultdict", "dict", "list", "set")]
            rets = [x for x in walk_no_nested(f.node) if isinstance(x, ast.Return)]
            loc = f.loc
            if resets and rets and all(x.lineno > resets[0].lineno for x in rets):
                r.ok("C19.R5", f.qual, f"self.{t} re-initialised before finalize() returns", loc)
            else:
                r.violation("C19.R5", f.qual, f"self.{t} never reset", "the table keeps the rules of the finished run: validating again with the same validator object reports every rule as colliding with itself (and with rules of earlier collections)", loc)
    # selector word tests in the condition validators
    m = prog.module("sigma.validators.core.condition")
    probes_no = ["selection_themida", "all of themida_*", "1 of themes*", "not all of them-x"]
    probes_yes = ["all of them", "1 of them", "sel and all  of them", "(all of them)"]
    n_pat = 0
    for cq, ci in sorted(prog.classes.items()):
        if ci.module is not m:
            continue
        for name, sts in ci.assigns.items():
            st = sts[-1]
            v = getattr(st, "value", None)
            if isinstance(v, ast.Call) and call_name(v) == "re.compile" and v.args and isinstance(v.args[0], ast.Constant) and "them" in str(v.args[0].value):
                n_pat += 1
                pat = v.args[0].value
                loc = f"{m.relpath}:{st.lineno}"
                hits_no = [p for p in probes_no if _re.search(pat, p)]
                need = [p for p in probes_yes if ("all" in pat and not p.split(" of")[0].strip("( ").endswith("all") and "all" not in p) is False]
                miss_yes = [p for p in probes_yes if ("all" not in pat or "all" in p) and not _re.search(pat, p)]
                if hits_no:
                    r.violation("C19.R5", cq, f"{name} = re.compile({pat!r})", f"the pattern also matches {hits_no}: 'them' inside a detection name or pattern is taken for the selector word, so a rule without any 'of them' selector is reported", loc)
                elif miss_yes:
                    r.violation("C19.R5", cq, f"{name} = re.compile({pat!r})", f"the pattern misses {miss_yes}", loc)
                else:
                    r.ok("C19.R5", cq, f"{name}: matches the selector word as a token ({len(probes_no)} near-miss names rejected)", loc)
        for fn in ci.methods.values():
            for n in walk_no_nested(fn.node):
                if isinstance(n, ast.Compare) and any(isinstance(o, ast.In) for o in n.ops) and isinstance(n.left, ast.Constant) and isinstance(n.left.value, str) and n.left.value in ("them", "all of them", "of them"):
                    r.violation("C19.R5", fn.qual, unparse(n), "substring test on the condition text: a detection called selection_themida contains 'them'", f"{m.relpath}:{n.lineno}")
    if n_pat < 2:
        raise AnalysisError(f"only {n_pat} 'them' patterns found in the condition validators (2 confirmed)")
    r.floor("C19.R5", 6)
