"""C14 — pipelines compose in a defined order: priority, then stage, then position."""
from __future__ import annotations

import ast
from typing import Optional

from ..prog import AnalysisError, FuncInfo, call_name, short, stmt_head, unparse, walk_no_nested
from ..util import assignments_to, atomic_guards, cfg_of, guards_at

PP = "sigma.processing.pipeline.ProcessingPipeline"
BK = "sigma.conversion.base.Backend"


def _calls(fi: FuncInfo, name: str) -> list[ast.Call]:
    return [c for c in walk_no_nested(fi.node) if isinstance(c, ast.Call) and call_name(c) == name]


def run(ctx) -> None:
    r, prog = ctx.r, ctx.prog
    r.explanation = (
        "Composition order decided on the source: stage order on the CFG of convert/convert_rule/finalize_query/finalize "
        "(pipeline initialised unconditionally per convert(), transformations before conversion, finish before finalize, "
        "post-processing per query and finalizers once, each iterating its list in order), operand order of the backend's "
        "pipeline assembly, field-wise concatenation and later-wins vars merge of '+', the resolver's total, argument-independent "
        "sort key, and an ownership rule: binary operators must not write to or alias mutable state of their operands. "
        "Equality of results across bracketings/permutations is not observed.")
    r1_stage_order(ctx)
    r2_assembly(ctx)
    r3_concatenation(ctx)
    r4_resolver(ctx)
    r5_operands_not_consumed(ctx)
    r6_format_of_cached_pipeline(ctx)
    r7_finalizers_get_the_list(ctx)
    # every emitted query went through finalize_query (output format + post-processing items): the per-rule converters
    # return the finalised list, whatever they store for embedding (shared with C10.R7)
    from . import c10
    from ..util import run_as
    run_as(ctx, c10.r7_subquery_finalisation, "C10.R7", "C14.R8", "post-processing reaches every emitted query: ")


def _dominates(prog, fi: FuncInfo, first: list[ast.AST], then: list[ast.AST]) -> bool:
    cfg = cfg_of(fi)
    fn = [n for c in first for n in cfg.node_of_expr(c, prog.parent)]
    return bool(fn) and bool(then) and all(cfg.must_pass(n, fn) for c in then for n in cfg.node_of_expr(c, prog.parent) if cfg.is_reachable(n))


def _finalize_table(ctx) -> None:
    from ..tabulate import Interp, Raised
    r, prog = ctx.r, ctx.prog
    f = prog.func(PP + ".finalize")

    class _Fin:
        def __init__(self, tag):
            self.tag = tag

        def apply(self, output):
            return list(output) + [self.tag] if isinstance(output, list) else f"{output}+{self.tag}"

    class _S:
        def __init__(self, fins):
            self.finalizers = fins

    wrong = []
    n = 0
    for fins in ([], [_Fin("f1")], [_Fin("f1"), _Fin("f2")]):
        for output in ([], ["q"], ["q1", "q2"], ""):
            it = Interp({"self": _S(fins), "output": output})
            try:
                got = it.call(f.node.body)
            except Raised as e:
                got = f"<raises {e}>"
            want = output
            for fi_ in fins:
                want = fi_.apply(want)
            n += 1
            if got != want:
                wrong.append(f"{len(fins)} finalizer(s), output {output!r}: {got!r} instead of {want!r}")
    if wrong:
        r.violation("C14.R1", f.qual, f"finalize table: {wrong[0]}", f"{len(wrong)} of {n} tabulated cases deviate: every finalizer of the combined pipeline runs once, in order, on the whole result list — also when no query was emitted (an empty list still has to become the finalizers' empty document)", f.loc)
    else:
        r.ok("C14.R1", f.qual, f"finalize tabulated over {n} cases (0..2 finalizers x empty/non-empty output): all finalizers in order, no early exit", f.loc)


def r1_stage_order(ctx) -> None:
    r, prog = ctx.r, ctx.prog
    r.rule("C14.R1", "stage order: convert() initialises the pipeline unconditionally before anything else and finalises once after all rules; convert_rule applies the pipeline before any condition is converted, finishes before it finalises; finalize_query ends in postprocess_query, finalize in the pipeline's finalizers; both iterate their lists in order")
    cv = prog.func(BK + ".convert")
    # Backend.convert interpreted (sa.tabulate, Proxy) on a stand-in collection: the order of the recorded calls
    from .standins import run_backend_convert
    for fmt, reused in ((None, False), ("other", False), (None, True), ("other", True)):
        o = run_backend_convert(ctx, fmt=fmt, reused=reused)
        kinds = [t[0] for t in o.trace]
        what = f"convert(collection, output_format={fmt!r})" + (" on a backend that converted before" if reused else "")
        if o.raised is not None:
            raise AnalysisError(f"{cv.qual}: {what} raises {o.raised} on the stand-in collection")
        if kinds and kinds[0] == "init" and kinds.count("init") >= 1 and o.trace[0] == ("init", fmt):
            r.ok("C14.R1", cv.qual, f"{what}: init_processing_pipeline(output_format) unconditionally, before resolution, conversion and finalisation", cv.loc)
        else:
            r.violation("C14.R1", cv.qual, f"self.init_processing_pipeline(output_format): call order {kinds[:4]}…",
                        "convert() does not rebuild the combined pipeline unconditionally before anything else: a backend object reused with another output format or another user pipeline keeps running the stale combination (backend + user + *previous* format pipeline)", cv.loc)
        if kinds.count("finalize") == 1 and kinds[-1] == "finalize" and o.ret is not None and o.ret[0] == "FINAL" and o.trace[-1][2] == (fmt or "default"):
            r.ok("C14.R1", cv.qual, f"{what}: finalize(queries, format) once, after all rules, as the result", cv.loc)
        else:
            r.violation("C14.R1", cv.qual, f"return self.finalize(queries, ...): call order …{kinds[-3:]}", "finalizers are not run exactly once on the complete query list, after all rules, with the requested format", cv.loc)
    cr = prog.func(BK + ".convert_rule")
    # convert_rule interpreted (sa.tabulate, Proxy) on a stand-in rule with two conditions: the order of the stages
    from .standins import run_per_rule_converter
    o = run_per_rule_converter(ctx, "convert_rule", output=True)
    if o.raised is not None:
        raise AnalysisError(f"{cr.qual}: raises {o.raised} on the stand-in rule")
    tr = o.trace
    first = {k: (tr.index(k) if k in tr else None) for k in ("pipeline", "read conditions", "convert", "finish", "finalize")}
    last = {k: (len(tr) - 1 - tr[::-1].index(k) if k in tr else None) for k in first}
    def before(a, b):  # every a before every b
        return last[a] is not None and first[b] is not None and last[a] < first[b]
    checks = [
        ("pipeline.apply(rule) before convert_condition", tr.count("pipeline") == 1 and before("pipeline", "convert")),
        ("convert_condition before finish_query", tr.count("convert") == 2 and tr.count("finish") == 2 and all(tr[:i_].count("convert") > tr[:i_].count("finish") for i_, k in enumerate(tr) if k == "finish")),
        ("finish_query before finalize_query", tr.count("finalize") == 2 and before("finish", "finalize") and before("convert", "finalize")),
    ]
    for what, okc in checks:
        if okc:
            r.ok("C14.R1", cr.qual, f"{what} (interpreted; stages: {' → '.join(tr)})", cr.loc)
        else:
            r.violation("C14.R1", cr.qual, f"{what}: stages ran as {' → '.join(tr)}", "stage order violated: transformations must run before conversion, query finishing before finalisation/post-processing", cr.loc)
    # a converter called on a backend that has not converted before builds the pipeline itself
    from .standins import backend_with_real_init
    for fn_ in ("convert_rule", "convert_correlation_rule"):
        me_, _env, _IK, inits_ = backend_with_real_init(ctx)
        o_ = run_per_rule_converter(ctx, fn_, output=True, me=me_, keep_pipeline=True)
        fq = prog.func(f"{BK}.{fn_}")
        if o_.raised is None and inits_:
            r.ok("C14.R1", fq.qual, "on a fresh backend the converter initialises the processing pipeline before applying it", fq.loc)
        else:
            r.violation("C14.R1", fq.qual, f"self.last_processing_pipeline.apply(rule): {'raises ' + str(o_.raised) if o_.raised is not None else 'no initialisation'}", "the pipeline is applied before it was initialised: the converter cannot be called on its own", fq.loc)
    # parsed conditions are read after the pipeline ran (the pipeline may rewrite conditions)
    if first["read conditions"] is not None and first["pipeline"] is not None and first["pipeline"] < first["read conditions"]:
        r.ok("C14.R1", cr.qual, "rule.detection.parsed_condition is read only after the pipeline was applied", cr.loc)
    else:
        r.violation("C14.R1", cr.qual, f"rule.detection.parsed_condition: stages ran as {' → '.join(tr)}", "conditions are read before the pipeline ran: condition-rewriting transformations are ignored", cr.loc)
    # the later stages interpreted (sa.tabulate, Proxy) on recording stand-ins
    from ..tabulate import Proxy, call_method, Raised
    from .standins import PipeStandin
    fqf = prog.func(BK + ".finalize_query")
    envq = {"SigmaBackendError": type("SigmaBackendError", (Exception,), {})}
    IKq = {"behaviours": (envq["SigmaBackendError"],), "max_steps": 4000}

    class _PPL(PipeStandin):
        def postprocess_query(self, rule, query): return f"POST({query})"

    meq = Proxy(prog, BK, envq, {"formats": {"default": "d", "other": "o"}, "last_processing_pipeline": _PPL(["p"]), "default_format": "default",
                                 "finalize_query_default": lambda rule, q, i_, st: f"FMT-default({q})", "finalize_query_other": lambda rule, q, i_, st: f"FMT-other({q})"}, interp_kwargs=IKq)
    outs = {}
    for fmt in ("default", "other", "unknown"):
        try:
            outs[fmt] = call_method(prog, BK, "finalize_query", meq, envq, "rule", "q", 0, "state", fmt, interp_kwargs=IKq)
        except Raised as ex:
            outs[fmt] = "error" if "SigmaBackendError" in str(ex) else f"<raises {ex}>"
    if outs == {"default": "POST(FMT-default(q))", "other": "POST(FMT-other(q))", "unknown": "error"}:
        r.ok("C14.R1", fqf.qual, "format-specific finalisation, then postprocess_query(rule, backend_query); an unknown format is refused", fqf.loc)
    else:
        r.violation("C14.R1", fqf.qual, f"return self.last_processing_pipeline.postprocess_query(rule, backend_query): {outs}", "finalize_query no longer ends in the pipeline's query post-processing of the format-specific finalised query", fqf.loc)
    ff = prog.func(BK + ".finalize")
    del PipeStandin.log[:]
    mef = Proxy(prog, BK, envq, {"formats": {"default": "d"}, "last_processing_pipeline": PipeStandin(["p"]), "default_format": "default", "finalize_output_default": lambda qs: ("FMT-OUT", list(qs))}, interp_kwargs=IKq)
    try:
        fo = call_method(prog, BK, "finalize", mef, envq, ["q1", "q2"], "default", interp_kwargs=IKq)
    except Raised as ex:
        fo = f"<raises {ex}>"
    fins = [e for e in PipeStandin.log if e[0] == "finalize"]
    if len(fins) == 1 and isinstance(fo, tuple) and fo[0] == "PIPELINE-FINAL":
        r.ok("C14.R1", ff.qual, "the result of finalize() is what the pipeline's finalizers return (run once, last)", ff.loc)
    else:
        r.violation("C14.R1", ff.qual, f"return self.last_processing_pipeline.finalize(output): result {fo!r}, {len(fins)} finalizer run(s)", "finalize no longer ends in the pipeline's finalizers", ff.loc)
    # the stage loops of the pipeline: list order, every element, each element gets what its predecessor produced
    order: list = []

    class _Stage:
        def __init__(self, tag): self.tag, self.identifier = tag, tag
        def apply(self, *a):
            order.append(self.tag)
            if len(a) == 2:      # query post-processing item: (rule, query) → (query, applied)
                return f"{a[1]}+{self.tag}", self.tag != "b"
            if len(a) == 1 and isinstance(a[0], (list, str)):  # finalizer: output → output
                return (a[0] + [self.tag]) if isinstance(a[0], list) else f"{a[0]}+{self.tag}"
            return self.tag != "b"  # processing item: rule → applied

    from collections import defaultdict as _dd
    stages = [_Stage("a"), _Stage("b"), _Stage("c")]
    envp = {"defaultdict": _dd}
    mep = Proxy(prog, PP, envp, {"items": stages, "postprocessing_items": stages, "finalizers": stages, "applied": [], "applied_ids": set(), "field_name_applied_ids": {}, "field_mappings": None, "state": {}, "vars": {}}, interp_kwargs={"max_steps": 6000})
    for fn, args, want in ((PP + ".apply", ("rule",), "rule"), (PP + ".postprocess_query", ("rule", "q"), "q+a+b+c"), (PP + ".finalize", (["q"],), ["q", "a", "b", "c"])):
        f = prog.func(fn)
        del order[:]
        try:
            got = call_method(prog, PP, fn.rsplit(".", 1)[1], mep, envp, *args, interp_kwargs={"max_steps": 6000})
        except Raised as ex:
            got = f"<raises {ex}>"
        if order == ["a", "b", "c"] and got == want:
            r.ok("C14.R1", f.qual, f"{fn.rsplit('.', 1)[1]}: list order, every element, each element receives its predecessor's result (interpreted on three stand-in elements)", f.loc)
        else:
            r.violation("C14.R1", f.qual, f"{fn.rsplit('.', 1)[1]}: elements run {order}, result {got!r}", f"expected order ['a', 'b', 'c'] and result {want!r}: the stage loop skips, stops early, reorders or does not chain its elements", f.loc)
    _finalize_table(ctx)
    r.floor("C14.R1", 15)


def _flatten_add(e: ast.AST) -> Optional[list[ast.AST]]:
    if isinstance(e, ast.BinOp) and isinstance(e.op, ast.Add):
        l = _flatten_add(e.left)
        rr = _flatten_add(e.right)
        return (l or [e.left]) + (rr or [e.right]) if True else None
    if isinstance(e, ast.Call) and call_name(e) == "sum" and e.args and isinstance(e.args[0], (ast.List, ast.Tuple)):
        return list(e.args[0].elts)
    return None


def r2_assembly(ctx) -> None:
    r, prog = ctx.r, ctx.prog
    r.rule("C14.R2", "init_processing_pipeline combines backend pipeline + user pipeline + output-format pipeline in this operand order and sets vars afterwards — interpreted (sa.tabulate, Proxy) on stand-in pipelines, with and without user pipeline, for the default and a named format")
    from .standins import backend_with_real_init
    f = prog.func(BK + ".init_processing_pipeline")
    loc = f.loc
    bad_order, bad_vars = [], []
    for user in (True, False):
        for fmt in (None, "test"):
            me, env, IK, inits = backend_with_real_init(ctx, user_pipeline=user)
            from ..tabulate import Raised as _Raised2
            try:
                me.init_processing_pipeline(fmt)
            except _Raised2 as ex:
                bad_order.append(f"user pipeline {'given' if user else 'absent'}, format {fmt!r}: raises {ex}")
                continue
            a = me.attrs()
            lp = a.get("last_processing_pipeline")
            want = ["backend"] + (["user"] if user else []) + ["fmt-" + (fmt or "default")]
            case = f"user pipeline {'given' if user else 'absent'}, format {fmt!r}"
            if getattr(lp, "names", None) != want:
                bad_order.append(f"{case}: combined pipeline {getattr(lp, 'names', lp)!r} instead of {want}")
                continue
            wv = {"from_backend": 1, "backend_opt": "val", "backend": "bk", "output_format": fmt or "default"}
            if user:
                wv["from_user"] = 1
            if lp.vars != wv:
                bad_vars.append(f"{case}: vars of the combined pipeline {lp.vars} instead of {wv}")
            if a["backend_processing_pipeline"].vars != {"from_backend": 1} or (user and a["processing_pipeline"].vars != {"from_user": 1}):
                bad_vars.append(f"{case}: vars were written into an operand ({a['backend_processing_pipeline'].vars})")
    if not bad_order:
        r.ok("C14.R2", f.qual, "backend pipeline + user pipeline + pipeline of the requested (or default) output format, in this order (4 interpreted cases)", loc)
    else:
        r.violation("C14.R2", f.qual, bad_order[0], "operand order differs from backend + user + output-format", loc)
    if not bad_vars:
        r.ok("C14.R2", f.qual, "backend vars (backend_<option>, backend, output_format) are set on the combined pipeline after assembly, operands untouched", loc)
    else:
        r.violation("C14.R2", f.qual, bad_vars[0], "vars are written before the combined pipeline exists (they would be lost or land in an operand), or not at all", loc)
    r.floor("C14.R2", 2)


def r3_concatenation(ctx) -> None:
    r, prog = ctx.r, ctx.prog
    r.rule("C14.R3", "'+' builds a new pipeline whose items, postprocessing_items and finalizers are self.X + other.X and whose vars are {**self.vars, **other.vars} (later wins); None and 0 are identities")
    f = prog.func(PP + ".__add__")
    # '+' interpreted (sa.tabulate, Proxy) on two stand-in pipelines (shared with C14.R5 / C15.R5)
    from .standins import pipeline_sum_outcome
    o = pipeline_sum_outcome(ctx)
    loc = f.loc
    if o.raised is not None or o.built is None:
        raise AnalysisError(f"{f.qual}: the sum of two stand-in pipelines gives {o.raised or o.result!r}: constructor call not found")
    kws = o.built
    for fld in ("items", "postprocessing_items", "finalizers"):
        want = o.left.attrs()[fld] + o.right.attrs()[fld]
        got = kws.get(fld)
        if isinstance(got, list) and len(got) == len(want) and all(a is b for a, b in zip(got, want)):
            r.ok("C14.R3", f.qual, f"{fld} = self.{fld} + other.{fld}", loc)
        else:
            r.violation("C14.R3", f.qual, f"{fld}={got!r}", f"{fld} of the sum is not the left operand's {fld} followed by the right operand's", loc)
    v = kws.get("vars")
    if v == {"x": 1, "y": 2, "z": 2} and v is not o.left.attrs()["vars"] and v is not o.right.attrs()["vars"]:
        r.ok("C14.R3", f.qual, "vars = {**self.vars, **other.vars} (fresh dict, later wins)", loc)
    else:
        r.violation("C14.R3", f.qual, f"vars={v!r}",
                    "vars of the sum are not a fresh merge in which the right operand overrides the left (a dict shared with or updated inside an operand makes later sums see variables of pipelines that are not part of them)", loc)
    extra = set(kws) - {"items", "postprocessing_items", "finalizers", "vars"}
    if extra:
        r.violation("C14.R3", f.qual, f"extra constructor arguments {sorted(extra)}", "the sum carries fields beyond the concatenated lists and merged vars", loc)
    if o.none_result is True:
        r.ok("C14.R3", f.qual, "p + None == p", f.loc)
    else:
        r.violation("C14.R3", f.qual, f"if other is None: return self — p + None gives {o.none_result!r}", "None is no longer the right identity of '+' (a backend without user pipeline fails or drops items)", f.loc)
    if "TypeError" in str(o.bad_type):
        r.ok("C14.R3", f.qual, "p + <something else> raises TypeError", f.loc)
    else:
        r.violation("C14.R3", f.qual, f"p + 5: {o.bad_type}", "only pipelines (and None) can be added", f.loc)
    ra = prog.func(PP + ".__radd__")
    if o.radd0 is True and o.radd5 is NotImplemented:
        r.ok("C14.R3", ra.qual, "0 + p == p (sum() start value); anything else is not implemented", ra.loc)
    else:
        r.violation("C14.R3", ra.qual, f"if other == 0: return self — 0 + p is p: {o.radd0!r}, 5 + p gives {o.radd5!r}", "0 is no longer the left identity (sum() over pipelines breaks)", ra.loc)
    r.floor("C14.R3", 6)


def r6_format_of_cached_pipeline(ctx) -> None:
    """The output-format pipeline is the last stage of the combined pipeline: a cached combination belongs to one format."""
    r, prog = ctx.r, ctx.prog
    r.rule("C14.R6", "the per-rule converters reuse the combined pipeline only for the output format it was built for: both converters interpreted (sa.tabulate, Proxy; init_processing_pipeline of the source included) on one backend object with a sequence of requested formats — the pipeline applied to each rule ends with the pipeline of the format requested for it")
    from .standins import backend_with_real_init, run_per_rule_converter, PipeStandin
    n = 0
    for fn in ("convert_rule", "convert_correlation_rule"):
        f = prog.func(f"sigma.conversion.base.Backend.{fn}")
        for seq in (("test", None, "test"), (None, "test", None), (None, None), ("test", "test")):
            me, env, IK, inits = backend_with_real_init(ctx)
            wrong = []
            for k, fmt in enumerate(seq):
                del PipeStandin.log[:]
                o = run_per_rule_converter(ctx, fn, output=True, me=me, keep_pipeline=True, output_format=fmt)
                if o.raised is not None:
                    wrong.append(f"call {k + 1} (format {fmt!r}) raises {o.raised}")
                    break
                applied = [e for e in PipeStandin.log if e[0] == "apply"]
                want = "fmt-" + (fmt or "default")
                if len(applied) != 1 or applied[0][1][-1] != want or applied[0][2].get("output_format") != (fmt or "default"):
                    wrong.append(f"call {k + 1} (format {fmt!r}) runs the pipeline {list(applied[0][1]) if applied else None} with output_format var {applied[0][2].get('output_format') if applied else None!r}")
            n += 1
            if not wrong:
                r.ok("C14.R6", f.qual, f"requested formats {seq}: every rule runs through the pipeline of its requested format", f.loc)
            else:
                r.violation("C14.R6", f.qual, f"requested formats {seq}: {wrong[0]}",
                            "the combined pipeline of an earlier call is reused whatever output format is requested now: convert(default) followed by convert_rule(rule, 'test') applies no 'test' pipeline (and the other way round the 'test' pipeline leaks into 'default'), while query finalisation does use the requested format", f.loc)
    r.floor("C14.R6", 3)


def r7_finalizers_get_the_list(ctx) -> None:
    """Finalizers are documented to operate on the complete list of generated queries."""
    r, prog = ctx.r, ctx.prog
    r.rule("C14.R7", "pipeline finalizers receive the list of queries: Backend.finalize, interpreted (sa.tabulate, Proxy) with a format method that keeps the list and one that collapses it into a string, hands the pipeline's finalizers the query list — not the format-specific collapsed output")
    from ..tabulate import Proxy, call_method, Raised
    from .standins import PipeStandin
    f = prog.func("sigma.conversion.base.Backend.finalize")
    B = "sigma.conversion.base.Backend"
    got = {}
    for fmt in ("default", "str"):
        del PipeStandin.log[:]
        env = {"SigmaBackendError": type("SigmaBackendError", (Exception,), {})}
        me = Proxy(prog, B, env, {"formats": {"default": "d", "str": "s"}, "last_processing_pipeline": PipeStandin(["p"]), "finalize_output_default": lambda qs: list(qs),
                                  "finalize_output_str": lambda qs: "\n".join(qs), "default_format": "default"}, interp_kwargs={"max_steps": 4000})
        try:
            call_method(prog, B, "finalize", me, env, ["q1", "q2"], fmt, interp_kwargs={"max_steps": 4000})
        except Raised as ex:
            raise AnalysisError(f"{f.qual}: raises {ex} on the stand-in backend")
        fin = [e for e in PipeStandin.log if e[0] == "finalize"]
        if len(fin) != 1:
            raise AnalysisError(f"{f.qual}: call of the pipeline finalizers not found ({len(fin)} calls)")
        got[fmt] = fin[0][2]
    if got["default"] == ["q1", "q2"] and got["str"] == ["q1", "q2"]:
        r.ok("C14.R7", f.qual, "finalizers run on the list of queries, whatever the output format", f.loc)
    elif got["default"] == ["q1", "q2"] and got["str"] == "q1\nq2":
        nonlist = []
        for q, m in sorted(prog.funcs.items()):
            if m.cls is not None and m.name.startswith("finalize_output_") and m.module.name.startswith("sigma."):
                ann = unparse(m.node.returns) if m.node.returns is not None else "?"
                if not ann.startswith(("list", "List")) and ann != "Any":
                    nonlist.append(f"{m.cls.name}.{m.name} -> {ann}")
        r.violation("C14.R7", f.qual, "pipeline finalizers get the output of the format method",
                    f"the finalizers are handed the output of the format method; formats that collapse the list ({', '.join(nonlist[:4]) or 'str/bytes/json formats'}) hand them one string: the stock concat finalizer then joins its characters ('m ;; a ;; p …'), json/yaml finalizers dump a single string, bytes + concat raises TypeError", f.loc)
    else:
        r.violation("C14.R7", f.qual, f"finalizers receive {got}", "finalizers run on something that is not the query list", f.loc)
    r.floor("C14.R7", 1)


def r4_resolver(ctx) -> None:
    r, prog = ctx.r, ctx.prog
    r.rule("C14.R4", "the resolver sorts with the total, argument-order-independent key (priority, spec path) — the spec is unique per resolved pipeline — and folds with sum(); an empty list yields an empty pipeline")
    f = prog.func("sigma.processing.resolver.ProcessingPipelineResolver.resolve")
    # `sum(...) or ProcessingPipeline()` (and every `if pipeline:` test) treats a pipeline object as "present": it must never be falsy
    pc = prog.cls(PP)
    falsy = [(b, m) for b in prog.mro(PP) if b in prog.classes for m in ("__bool__", "__len__") if m in prog.classes[b].methods]
    if falsy:
        b, m = falsy[0]
        r.violation("C14.R4", f"{b}.{m}", f"def {m}", f"a pipeline defines {m}: a pipeline without transformation items becomes falsy, and the resolver's `sum(...) or ProcessingPipeline()` then replaces a combined pipeline that only carries post-processing items, finalizers or vars by an empty one", prog.classes[b].methods[m].loc)
    else:
        r.ok("C14.R4", PP, "a pipeline object is always truthy (no __bool__/__len__), as the `or ProcessingPipeline()` fallback assumes", f"{pc.module.relpath}:{pc.node.lineno}")
    _r4_which_pipelines(ctx, f)
    r.floor("C14.R4", 2)


def _r4_which_pipelines(ctx, f: FuncInfo) -> None:
    """resolve() interpreted (sa.tabulate) with stand-ins for the file system and the registry: the combined pipeline consists
    of exactly the named pipelines, in (priority, spec) order, independent of what the working directory contains."""
    from ..tabulate import Raised
    r, prog = ctx.r, ctx.prog

    class _P:
        """Stand-in pipeline: every component is a list of the names it came from, the variables are {'shared': <its name>,
        <its name>: 1}; '+' follows C14.R3 (concatenation, later variables win)."""
        def __init__(self, names=(), priority=0, items=None, postprocessing_items=None, finalizers=None, vars=None, **kw):
            names = list(names)
            self.priority, self.name = priority, "same"
            self.items = list(items) if items is not None else list(names)
            self.postprocessing_items = list(postprocessing_items) if postprocessing_items is not None else list(names)
            self.finalizers = list(finalizers) if finalizers is not None else list(names)
            self.vars = dict(vars) if vars is not None else {k: v for n in names for k, v in (("shared", n), (n, 1))}
            self.allowed_backends = frozenset()

        @property
        def names(self):
            return self.items

        def _clear_pipeline(self):
            pass

        def _set_pipeline(self, *a, **k):
            pass

        set_pipeline = _set_pipeline

        def __add__(self, o):
            if o is None or o == 0:
                return self
            return _P(items=self.items + o.items, postprocessing_items=self.postprocessing_items + o.postprocessing_items,
                      finalizers=self.finalizers + o.finalizers, vars={**self.vars, **o.vars})

        def __radd__(self, o):
            return self if o is None or o == 0 else o.__add__(self)

    class _Path:
        DIRS = {"sysmon": [], "rules/pipelines": ["rules/pipelines/a.yml", "rules/pipelines/b.yml"], "": ["cwd.yml"], ".": ["cwd.yml"]}

        def __init__(self, s):
            self.s = str(s)

        def is_dir(self):
            return self.s in self.DIRS

        def glob(self, pat):
            return [_Path(x) for x in self.DIRS.get(self.s, [])]

        def __str__(self):
            return self.s

    RS = "sigma.processing.resolver.ProcessingPipelineResolver"
    from ..tabulate import Proxy, call_method
    prio = {"sysmon": 10, "custom": 20, "rules/pipelines/a.yml": 5, "rules/pipelines/b.yml": 30, "tie_b": 7, "tie_a": 7, "tie_c": 7, "low": 1, "high": 99}
    cases = [(["custom", "sysmon"], ["sysmon", "custom"], "a registered name wins over a directory of the same name in the working directory; lower priority first"),
             (["custom", "rules/pipelines/"], ["rules/pipelines/a.yml", "custom", "rules/pipelines/b.yml"], "a directory specifier loads the files below it"),
             (["sysmon", "*"], ["sysmon", "*"], "the specifier '*' is a name, not every file below the working directory"),
             (["high", "low", "custom"], ["low", "custom", "high"], "ascending priority"),
             (["tie_b", "tie_a", "tie_c"], ["tie_a", "tie_b", "tie_c"], "equal priorities are ordered by the specifier (unique per resolved pipeline), whatever the argument order"),
             (["tie_c", "tie_b", "tie_a"], ["tie_a", "tie_b", "tie_c"], "equal priorities are ordered by the specifier, whatever the argument order"),
             (["tie_a", "tie_c", "low", "tie_b"], ["low", "tie_a", "tie_b", "tie_c"], "equal priorities are ordered by the specifier, whatever the argument order"),
             ([], [], "no specifier, the empty pipeline")]
    bad = []
    for specs, want, what in cases:
        env = {"Path": _Path, "ProcessingPipeline": lambda *a, **k: _P([], **k), "cast": lambda t, v: v}
        # every resolved pipeline carries the same name attribute: a tie-breaker must not rely on it
        me = Proxy(prog, RS, env, {"pipelines": {"sysmon": object(), "custom": object()}, "resolve_pipeline": lambda spec, target=None: _P([spec], prio.get(spec, 50))}, interp_kwargs={"max_steps": 8000})
        try:
            out = call_method(prog, RS, "resolve", me, env, list(specs), None, interp_kwargs={"max_steps": 8000})
        except Raised as ex:
            bad.append((specs, f"raises {ex}", what))
            continue
        got = list(out.names) if isinstance(out, _P) else repr(out)
        if got != want:
            bad.append((specs, f"combines {got}, specified {want}", what))
            continue
        # every component is concatenated in that order, and the variables of later pipelines win
        for comp in ("postprocessing_items", "finalizers"):
            if list(getattr(out, comp)) != want:
                bad.append((specs, f"{comp} are {list(getattr(out, comp))}, specified {want}", what))
        want_vars = {k: v for n in want for k, v in (("shared", n), (n, 1))}
        if dict(out.vars) != want_vars:
            bad.append((specs, f"variables are {dict(out.vars)}, specified {want_vars} (a variable defined by several pipelines takes the value of the last one in (priority, specifier) order)", what))
    if bad:
        specs, why, what = bad[0]
        r.violation("C14.R4", f.qual, f"resolve({specs})", f"{why} ({what}; +{len(bad) - 1} more case(s)): the resolver must sort with the total, argument-order-independent key (priority, spec path) and fold with sum() in sorted order — which pipelines are combined must not depend on the contents of the working directory or on the order in which they were named, and resolve() must agree with resolve_pipeline(); an empty list yields the empty pipeline", f.loc)
    else:
        r.ok("C14.R4", f.qual, f"resolve() interpreted on {len(cases)} specifier lists: exactly the named pipelines, registered names before directories, sorted by (priority, specifier) in every argument order, folded left to right; the empty list gives an empty pipeline", f.loc)


def r5_operands_not_consumed(ctx, rid: str = "C14.R5", skip_clear: bool = False) -> None:
    r, prog = ctx.r, ctx.prog
    r.rule(rid, "binary operators do not write to their operands and do not put operand-owned mutable objects into the result without copying")
    from .standins import pipeline_sum_outcome
    o = pipeline_sum_outcome(ctx)
    f = prog.func(PP + ".__add__")
    if o.operands_changed:
        r.violation(rid, f.qual, f"'+' changes {o.operands_changed}", "'+' mutates / assigns into its operand: resolving or adding the same pipeline object again sees the leftovers of the previous sum", f.loc)
    else:
        r.ok(rid, f.qual, "the lists and vars of both operands are unchanged after the sum (interpreted)", f.loc)
    aliased = [k for k in ("items", "postprocessing_items", "finalizers", "vars") if o.built and any(o.built.get(k) is p.attrs().get(k) for p in (o.left, o.right))]
    if aliased:
        r.violation(rid, f.qual, f"the sum holds the operand's own {aliased}", "an operand-owned mutable object is placed into the result without copying", f.loc)
    else:
        r.ok(rid, f.qual, "the sum holds new list/dict objects", f.loc)
    if not skip_clear:
        for side, recv in (("left", "self"), ("right", "other")):
            if o.released[side]:
                r.violation(rid, f.qual, f"{recv}._clear_pipeline()",
                            f"'+' strips {recv} of the ownership of its items and moves the item objects into the sum: an operand that is used again afterwards "
                            f"(a pipeline resolved twice, the class-level backend pipeline, one pipeline given to two backends) runs items whose state back-pointer belongs to the last sum built", f.loc)
            else:
                r.ok(rid, f.qual, f"the items of the {side} operand keep their owner", f.loc)
    r.floor(rid, 2)


