"""Call graph over sigma/: mypy-resolved callees + class-hierarchy analysis + the repository's
registry and reflective dispatch idioms (DESIGN §1 E2)."""
from __future__ import annotations

import ast
import re
from dataclasses import dataclass, field
from typing import Iterable, Optional

from .prog import FuncInfo, Program, call_name, dotted, unparse, walk_no_nested


@dataclass
class CallSite:
    caller: str
    node: ast.AST
    callees: list[str]  # qualified names (internal functions or external fullnames)
    kind: str = "call"  # call | ctor | property | registry | reflective | super | cha


class CallGraph:
    def __init__(self, prog: Program, types):
        self.prog = prog
        self.types = types
        self.sites: dict[str, list[CallSite]] = {}
        self.unresolved: list[tuple[str, ast.Call]] = []
        self.n_calls = 0
        self.n_resolved = 0
        self._registries = self._find_registries()
        for q, f in prog.funcs.items():
            self.sites[q] = self._sites_of(f)
        self._callers: Optional[dict[str, list[CallSite]]] = None

    # ------------------------------------------------------------ registries
    def _find_registries(self) -> dict[str, list[str]]:
        """Module-level dicts whose values are classes: name (qualified) -> class quals."""
        out: dict[str, list[str]] = {}
        for m in self.prog.modules.values():
            for name, stmts in m.assigns.items():
                for st in stmts:
                    v = getattr(st, "value", None)
                    if isinstance(v, ast.Dict) and v.values:
                        quals = []
                        for val in v.values:
                            q = self.prog.resolve_expr(m, val) if val is not None else None
                            if q and q in self.prog.classes:
                                quals.append(q)
                        if quals and len(quals) >= len(v.values) // 2:
                            out[f"{m.name}.{name}"] = quals
        return out

    def registry_of(self, m, e: ast.AST) -> Optional[list[str]]:
        q = self.prog.resolve_expr(m, e)
        if q and q in self._registries:
            return self._registries[q]
        return None

    # ------------------------------------------------------------ per function
    def _ctor_targets(self, cq: str) -> list[str]:
        out = []
        for name in ("__new__", "__init__", "__post_init__"):
            f = self.prog.lookup_method(cq, name)
            if f:
                out.append(f.qual)
        return out or [cq + ".__init__"]

    def _cha(self, recv_classes: Iterable[str], name: str) -> list[str]:
        out: list[str] = []
        for rc in recv_classes:
            if rc not in self.prog.classes:
                continue
            base = self.prog.lookup_method(rc, name)
            if base and base.qual not in out:
                out.append(base.qual)
            for sub in self.prog.subclasses(rc, strict=True):
                c = self.prog.classes[sub]
                if name in c.methods and c.methods[name].qual not in out:
                    out.append(c.methods[name].qual)
        return out

    def _param_registries(self, f: FuncInfo, pname: str, depth: int = 0) -> list[str]:
        """Classes of every registry that a caller hands to parameter pname of f (callers found by method name; a caller that
        passes its own parameter on is followed)."""
        key = (f.qual, pname)
        memo = self.__dict__.setdefault("_param_reg_memo", {})
        if key in memo:
            return memo[key]
        memo[key] = []
        out: list[str] = []
        params = [p for p in f.params() if p not in ("self", "cls")]
        if pname not in params or depth > 3:
            return out
        idx = params.index(pname)
        for g in self.prog.funcs.values():
            for c in ast.walk(g.node):
                if not isinstance(c, ast.Call):
                    continue
                fn = c.func
                nm = fn.attr if isinstance(fn, ast.Attribute) else fn.id if isinstance(fn, ast.Name) else None
                if nm != f.name:
                    continue
                arg = c.args[idx] if idx < len(c.args) and not any(isinstance(a, ast.Starred) for a in c.args[:idx + 1]) else next((k.value for k in c.keywords if k.arg == pname), None)
                if arg is None:
                    continue
                while isinstance(arg, ast.Call) and isinstance(arg.func, (ast.Name, ast.Attribute)) and (arg.func.id if isinstance(arg.func, ast.Name) else arg.func.attr) == "cast" and len(arg.args) == 2:
                    arg = arg.args[1]
                reg = self.registry_of(g.module, arg)
                if reg and not (isinstance(arg, ast.Name) and arg.id in g.params()):
                    out += [x for x in reg if x not in out]
                elif isinstance(arg, ast.Name) and arg.id in g.params():
                    out += [x for x in self._param_registries(g, arg.id, depth + 1) if x not in out]
        memo[key] = out
        return out

    def _registry_expr_classes(self, f: FuncInfo, e: ast.AST) -> Optional[list[str]]:
        if isinstance(e, ast.Name) and e.id in f.params():
            got = self._param_registries(f, e.id)
            if got:
                return got
        return self.registry_of(f.module, e)

    def _local_registry_classes(self, f: FuncInfo, name: str) -> list[str]:
        out: list[str] = []
        m = f.module
        for n in walk_no_nested(f.node):
            val = None
            if isinstance(n, ast.Assign) and any(isinstance(t, ast.Name) and t.id == name for t in n.targets):
                val = n.value
                if isinstance(val, ast.Subscript):
                    reg = self._registry_expr_classes(f, val.value)
                elif isinstance(val, ast.Call) and isinstance(val.func, ast.Attribute) and val.func.attr == "get":
                    reg = self._registry_expr_classes(f, val.func.value)
                else:
                    reg = None
                if reg:
                    out += [c for c in reg if c not in out]
            elif isinstance(n, (ast.For, ast.comprehension)):
                it = n.iter
                names = [x.id for x in ast.walk(n.target) if isinstance(x, ast.Name)]
                if name in names and isinstance(it, ast.Call) and isinstance(it.func, ast.Attribute) and it.func.attr in ("items", "values"):
                    reg = self.registry_of(m, it.func.value)
                    if reg:
                        out += [c for c in reg if c not in out]
        return out

    def _sites_of(self, f: FuncInfo) -> list[CallSite]:
        prog, types, m = self.prog, self.types, f.module

        def walk_no_nested(node: ast.AST):  # as prog.walk_no_nested, but lambdas belong to the enclosing function (reduce(lambda r, f: f.apply_on_rule(r), …))
            stack = [node]
            first = True
            while stack:
                n = stack.pop()
                if not first and isinstance(n, (ast.FunctionDef, ast.AsyncFunctionDef, ast.ClassDef)):
                    continue
                first = False
                yield n
                stack.extend(reversed(list(ast.iter_child_nodes(n))))

        sites: list[CallSite] = []
        call_funcs: set[int] = set()
        for n in walk_no_nested(f.node):
            if isinstance(n, ast.Call):
                call_funcs.add(id(n.func))
        for n in walk_no_nested(f.node):
            if isinstance(n, ast.Call):
                self.n_calls += 1
                callees: list[str] = []
                kind = "call"
                fulls = types.callee_fullnames(m, n)
                for fn in fulls:
                    fn = prog._canon(fn)
                    if fn in prog.classes:
                        callees += self._ctor_targets(fn)
                        kind = "ctor"
                    else:
                        callees.append(fn)
                # class hierarchy analysis on method calls
                if isinstance(n.func, ast.Attribute) and not dotted(n.func).startswith("super()"):
                    recv = types.receiver_classes(m, n.func)
                    if not recv and isinstance(n.func.value, ast.Name) and n.func.value.id in ("self", "cls") and f.cls:
                        recv = [f.cls.qual]
                    extra = self._cha(recv, n.func.attr)
                    for e in extra:
                        if e not in callees:
                            callees.append(e)
                            if kind == "call" and len(callees) > 1:
                                kind = "cha"
                    # calling through a class object of type Type[X]: cls(...) handled below
                # cls(...) / self.__class__(...) / type(self)(...)
                if isinstance(n.func, ast.Name) and n.func.id == "cls" and f.cls:
                    callees = []
                    for sub in prog.subclasses(f.cls.qual):
                        for t in self._ctor_targets(sub):
                            if t not in callees:
                                callees.append(t)
                    kind = "ctor"
                # registry dispatch: REG[key](...)  /  REG[key].from_dict(...)
                reg_sub = None
                if isinstance(n.func, ast.Subscript):
                    reg_sub = (n.func.value, None)
                elif isinstance(n.func, ast.Attribute) and isinstance(n.func.value, ast.Subscript):
                    reg_sub = (n.func.value.value, n.func.attr)
                if reg_sub is not None:
                    classes = self.registry_of(m, reg_sub[0])
                    if classes:
                        kind = "registry"
                        for cq in classes:
                            if reg_sub[1] is None:
                                tg = self._ctor_targets(cq)
                            else:
                                mm = prog.lookup_method(cq, reg_sub[1])
                                tg = [mm.qual] if mm else []
                            for t in tg:
                                if t not in callees:
                                    callees.append(t)
                # a function defined inside this function (or inside an enclosing one), called by its name
                if isinstance(n.func, ast.Name):
                    scope_q = f.qual
                    while True:
                        cand = f"{scope_q}.<locals>.{n.func.id}"
                        if cand in prog.funcs:
                            if cand not in callees:
                                callees.append(cand)
                            break
                        if ".<locals>." not in scope_q:
                            break
                        scope_q = scope_q.rsplit(".<locals>.", 1)[0]
                # a local bound from a registry:  cls_ = REG.get(k) / REG[k] / for k, cls_ in REG.items(): cls_(...)
                if isinstance(n.func, ast.Name) and n.func.id not in ("cls", "self"):
                    regs = self._local_registry_classes(f, n.func.id)
                    if regs:
                        kind = "registry"
                        callees = [c for c in callees if c != n.func.id]
                        for cq in regs:
                            for t in self._ctor_targets(cq):
                                if t not in callees:
                                    callees.append(t)
                # reflective: getattr(self, f"...")(…) or getattr(self, "a" + x)
                if isinstance(n.func, ast.Name) and n.func.id == "getattr" and len(n.args) >= 2:
                    pat = _fstring_pattern(n.args[1])
                    if pat is not None and f.cls:
                        kind = "reflective"
                        rx = re.compile(pat)
                        for cq in prog.subclasses(f.cls.qual):
                            for q in prog.mro(cq):
                                c = prog.classes.get(q)
                                if not c:
                                    continue
                                for name, meth in c.methods.items():
                                    if rx.fullmatch(name) and meth.qual not in callees:
                                        callees.append(meth.qual)
                    elif pat is None and f.cls and isinstance(n.args[1], ast.Name) and isinstance(n.args[0], ast.Name) and n.args[0].id in ("self", "cls"):
                        # getattr(self, name) with the name taken from a table of the class: every string constant of a
                        # class-level table (of the class or its bases) that names a method may be meant
                        names: set[str] = set()
                        for q in prog.mro(f.cls.qual):
                            c = prog.classes.get(q)
                            if not c:
                                continue
                            for sts in c.assigns.values():
                                for st in sts:
                                    v = getattr(st, "value", None)
                                    if v is not None:
                                        names |= {x.value for x in ast.walk(v) if isinstance(x, ast.Constant) and isinstance(x.value, str) and x.value.isidentifier()}
                        if names:
                            kind = "reflective"
                            for cq in prog.subclasses(f.cls.qual):
                                for q in prog.mro(cq):
                                    c = prog.classes.get(q)
                                    if not c:
                                        continue
                                    for name, meth in c.methods.items():
                                        if name in names and meth.qual not in callees:
                                            callees.append(meth.qual)
                if callees:
                    self.n_resolved += 1
                else:
                    self.unresolved.append((f.qual, n))
                sites.append(CallSite(f.qual, n, callees, kind))
            elif isinstance(n, (ast.Subscript, ast.Compare, ast.BinOp)):
                # operator dunders of program classes: x[k] → __getitem__/__setitem__, a in b → __contains__, a + b → __add__/__radd__
                pairs: list[tuple[ast.AST, str]] = []
                if isinstance(n, ast.Subscript):
                    pairs.append((n.value, "__getitem__" if isinstance(n.ctx, ast.Load) else "__setitem__" if isinstance(n.ctx, ast.Store) else "__delitem__"))
                elif isinstance(n, ast.Compare):
                    for op, right in zip(n.ops, n.comparators):
                        if isinstance(op, (ast.In, ast.NotIn)):
                            pairs.append((right, "__contains__"))
                        elif isinstance(op, (ast.Lt, ast.Gt, ast.LtE, ast.GtE)):
                            pairs.append((n.left, {ast.Lt: "__lt__", ast.Gt: "__gt__", ast.LtE: "__le__", ast.GtE: "__ge__"}[type(op)]))
                elif isinstance(n.op, ast.Add):
                    pairs += [(n.left, "__add__"), (n.right, "__radd__")]
                tg = []
                for recv_e, meth in pairs:
                    for rc in types.class_names(m, recv_e):
                        if rc in prog.classes:
                            for cand in self._cha([rc], meth):
                                if cand not in tg:
                                    tg.append(cand)
                if tg:
                    sites.append(CallSite(f.qual, n, tg, "operator"))
            elif isinstance(n, ast.Attribute) and isinstance(n.ctx, ast.Load) and id(n) not in call_funcs:
                # property reads
                recv = types.receiver_classes(m, n)
                if not recv and isinstance(n.value, ast.Name) and n.value.id == "self" and f.cls:
                    recv = [f.cls.qual]
                tg = []
                for rc in recv:
                    if rc in prog.classes:
                        for cand in self._cha([rc], n.attr):
                            fi = prog.funcs.get(cand)
                            if fi and any(d in ("property", "cached_property", "functools.cached_property") for d in fi.decorators):
                                tg.append(cand)
                if tg:
                    sites.append(CallSite(f.qual, n, tg, "property"))
        return sites

    # ------------------------------------------------------------ queries
    def callees(self, q: str) -> list[str]:
        out: list[str] = []
        for s in self.sites.get(q, []):
            for c in s.callees:
                if c not in out:
                    out.append(c)
        return out

    def reachable(self, roots: Iterable[str], stop: Iterable[str] = ()) -> dict[str, Optional[str]]:
        """Functions reachable from roots: qual -> predecessor (for path printing)."""
        stop = set(stop)
        pred: dict[str, Optional[str]] = {}
        stack = []
        for r in roots:
            pred[r] = None
            stack.append(r)
        while stack:
            q = stack.pop()
            if q in stop:
                continue
            for c in self.callees(q):
                if c not in pred:
                    pred[c] = q
                    stack.append(c)
        return pred

    def path_to(self, pred: dict[str, Optional[str]], q: str) -> list[str]:
        out = [q]
        while pred.get(out[-1]) is not None:
            out.append(pred[out[-1]])  # type: ignore[arg-type]
        return list(reversed(out))

    def callers(self, q: str) -> list[CallSite]:
        if self._callers is None:
            self._callers = {}
            for caller, sites in self.sites.items():
                for s in sites:
                    for c in s.callees:
                        self._callers.setdefault(c, []).append(s)
        return self._callers.get(q, [])


def _fstring_pattern(e: ast.AST) -> Optional[str]:
    """Regex of attribute names a reflective getattr can address, None if not an f-string/concat."""
    if isinstance(e, ast.JoinedStr):
        parts = []
        for v in e.values:
            if isinstance(v, ast.Constant):
                parts.append(re.escape(str(v.value)))
            else:
                parts.append(r"\w+")
        return "".join(parts)
    if isinstance(e, ast.BinOp) and isinstance(e.op, ast.Add):
        l = _fstring_pattern(e.left) if not isinstance(e.left, ast.Constant) else re.escape(str(e.left.value))
        r = _fstring_pattern(e.right) if not isinstance(e.right, ast.Constant) else re.escape(str(e.right.value))
        if l is None and r is None:
            return None
        return (l or r"\w+") + (r or r"\w+")
    return None
