"""Self-test of the checkers (DESIGN §1 E8): scratch copies of /repo/sigma with one construct
broken (the check must report the named rule) or rewritten without changing behaviour (the check
must stay silent).  The edits are only test inputs for the checker; the verdict on /repo never
depends on them."""
from __future__ import annotations

import importlib
import json
import os
import re
import shutil
import subprocess
import sys
import tempfile
from concurrent.futures import ThreadPoolExecutor

from .prog import REPO
from .report import VERIF


def load_variants(prop: str) -> list[dict]:
    try:
        mod = importlib.import_module(f"selftest.variants.{prop.lower()}")
    except ImportError:
        return load_seeds(prop) + load_twins(prop)
    return list(getattr(mod, "VARIANTS", [])) + load_seeds(prop) + load_twins(prop)


def load_seeds(prop: str) -> list[dict]:
    """Seeded changes kept under /verif/seeded (made by independent sub-agents): each must still be reported by one of
    the rules recorded in its meta.json."""
    out = []
    root = os.path.join(VERIF, "seeded")
    if not os.path.isdir(root):
        return out
    for d in sorted(os.listdir(root)):
        mp = os.path.join(root, d, "meta.json")
        pp = os.path.join(root, d, "patch.diff")
        if not (os.path.exists(mp) and os.path.exists(pp)):
            continue
        with open(mp, encoding="utf-8") as f:
            meta = json.load(f)
        rules = sorted({r for t in meta.get("detected_by", []) for r in re.findall(r"C\d\d\.R\w+", t) if r.startswith(prop + ".")})
        if rules:
            out.append({"name": f"seed-{d}", "patch": pp, "expect": rules})
    return out


def load_twins(prop: str) -> list[dict]:
    """Behaviour-preserving refactorings kept under /verif/twins (made by independent sub-agents): each must stay silent
    for the properties listed in its meta.json."""
    out = []
    root = os.path.join(VERIF, "twins")
    if not os.path.isdir(root):
        return out
    for d in sorted(os.listdir(root)):
        mp = os.path.join(root, d, "meta.json")
        pp = os.path.join(root, d, "patch.diff")
        if not (os.path.exists(mp) and os.path.exists(pp)):
            continue
        with open(mp, encoding="utf-8") as f:
            meta = json.load(f)
        if prop in meta.get("properties", []):
            out.append({"name": f"twin-{d}", "patch": pp, "expect": None})
    return out


def _apply(root: str, v: dict) -> str | None:
    """Apply the edit(s) of variant v below root; returns None if applied, else why stale."""
    if "patch" in v:
        p = subprocess.run(["git", "apply", "-p1", v["patch"]], cwd=root, capture_output=True, text=True)
        return None if p.returncode == 0 else f"seeded patch does not apply: {p.stderr.strip()[:200]}"
    edits = v.get("edits") or [{"file": v["file"], "old": v["old"], "new": v["new"], "count": v.get("count", 1)}]
    for e in edits:
        path = os.path.join(root, e["file"])
        if not os.path.exists(path):
            return f"{e['file']} missing"
        with open(path, encoding="utf-8") as f:
            src = f.read()
        n = src.count(e["old"])
        if n != e.get("count", 1):
            return f"anchor text occurs {n}x in {e['file']} (expected {e.get('count', 1)})"
        src = src.replace(e["old"], e["new"])
        try:
            compile(src, path, "exec")
        except SyntaxError as ex:
            return f"edited file does not compile: {ex}"
        with open(path, "w", encoding="utf-8") as f:
            f.write(src)
    return None


def run_variant(prop: str, v: dict, base: str) -> dict:
    d = tempfile.mkdtemp(prefix=f"verif-scratch-{os.getpid()}-", dir=base)
    res = {"name": v["name"], "expect": v.get("expect"), "outcome": "", "reported": []}
    try:
        shutil.copytree(os.path.join(REPO, "sigma"), os.path.join(d, "sigma"),
                        ignore=shutil.ignore_patterns("__pycache__"))
        for extra in ("mypy.ini", "pyproject.toml"):
            if os.path.exists(os.path.join(REPO, extra)):
                shutil.copy(os.path.join(REPO, extra), d)
        stale = _apply(d, v)
        if stale:
            res["outcome"] = "stale"
            res["detail"] = stale
            return res
        env = dict(os.environ, VERIF_REPO=d, PYTHONPATH=VERIF, PYTHONDONTWRITEBYTECODE="1")
        p = subprocess.run([sys.executable, "-m", "sa.cli", prop, "--no-evidence", "--no-selftest", "--tier", "quick"],
                           cwd=VERIF, env=env, capture_output=True, text=True, timeout=600)
        rules = re.findall(r"^\s+(C\d\d\.R\w+) at ", p.stdout, flags=re.M)
        res["reported"] = sorted(set(rules))
        res["exit"] = p.returncode
        exp = v.get("expect")
        if p.returncode == 2:
            # an extractor refusing the shape is acceptable for a firing variant only if declared
            res["outcome"] = "pass" if exp == "ANALYSIS-ERROR" else "analysis-error"
            res["detail"] = (p.stdout + p.stderr)[-400:]
        elif exp is None:
            res["outcome"] = "pass" if p.returncode == 0 else "false-alarm"
        elif exp == "ANALYSIS-ERROR":
            res["outcome"] = "missed"
        else:
            exps = exp if isinstance(exp, list) else [exp]
            hit = any(any(rr == e or rr.startswith(e) for rr in rules) for e in exps)
            res["outcome"] = "pass" if (p.returncode == 1 and hit) else "missed"
        if res["outcome"] not in ("pass",):
            res.setdefault("detail", p.stdout[-600:])
        return res
    except Exception as ex:  # pragma: no cover
        res["outcome"] = "error"
        res["detail"] = repr(ex)
        return res
    finally:
        shutil.rmtree(d, ignore_errors=True)


def run_selftest(ctx, only: str | None = None) -> dict:
    prop = ctx.prop
    variants = load_variants(prop)
    if only:
        variants = [v for v in variants if only in v["name"]]
    base = tempfile.gettempdir()
    results = []
    if variants:
        with ThreadPoolExecutor(max_workers=min(16, os.cpu_count() or 4)) as ex:
            results = list(ex.map(lambda v: run_variant(prop, v, base), variants))
    summary = {
        "variants": len(results),
        "firing": sum(1 for v in variants if v.get("expect")),
        "silent_twins": sum(1 for v in variants if not v.get("expect")),
        "passed": sum(1 for r in results if r["outcome"] == "pass"),
        "stale": [r["name"] for r in results if r["outcome"] == "stale"],
        "failed": [r for r in results if r["outcome"] not in ("pass", "stale")],
        "results": [{k: r[k] for k in ("name", "expect", "outcome", "reported")} for r in results],
    }
    ctx.r.selftest = summary
    print(f"[{prop}] selftest: {summary['passed']}/{summary['variants']} variants as expected "
          f"({summary['firing']} firing, {summary['silent_twins']} silent twins, {len(summary['stale'])} stale)")
    for name in summary["stale"]:
        print(f"SELFTEST-STALE {prop} {name}: anchor text / patch no longer applies to the tree (refresh the variant)")
    for r in summary["failed"]:
        print(f"SELFTEST-MISMATCH {prop} {r['name']}: expected {r['expect']!r}, outcome {r['outcome']}, reported {r['reported']}")
        if os.environ.get("VERIF_SELFTEST_VERBOSE"):
            print(r.get("detail", ""))
    return summary


if __name__ == "__main__":
    # python -m sa.selftest Cxx [name-substring]  — run the variants of one property verbosely
    from .cli import Ctx
    from .report import Report
    prop = sys.argv[1].upper()
    os.environ["VERIF_SELFTEST_VERBOSE"] = "1"

    class _C:  # minimal ctx
        pass
    c = _C()
    c.prop = prop
    c.r = Report(prop, "thorough", write_evidence=False)
    s = run_selftest(c, sys.argv[2] if len(sys.argv) > 2 else None)
    sys.exit(0 if not s["failed"] else 3)
