"""Helpers shared by the rule modules: cached CFGs, guard extraction, def-use, constants."""
from __future__ import annotations

import ast
from typing import Any, Iterable, Optional

from .cfg import CFG, expr_guards
from .prog import AnalysisError, FuncInfo, Program, dotted, unparse, walk_no_nested

_cfgs: dict[int, CFG] = {}


def cfg_of(fi: FuncInfo) -> CFG:
    c = _cfgs.get(id(fi.node))
    if c is None:
        c = CFG(fi.node)
        _cfgs[id(fi.node)] = c
    return c


def guards_at(prog: Program, fi: FuncInfo, node: ast.AST) -> list[tuple[ast.AST, bool]]:
    """(test, polarity) pairs that hold whenever ``node`` is evaluated: CFG-dominating branch
    outcomes of the enclosing statement (all copies of it) + short-circuit/IfExp/comprehension
    guards inside the statement."""
    cfg = cfg_of(fi)
    nids = cfg.node_of_expr(node, prog.parent)
    nids = [n for n in nids if cfg.is_reachable(n)]
    out: list[tuple[ast.AST, bool]] = []
    if nids:
        sets = []
        for n in nids:
            sets.append({(id(t), p): (t, p) for t, p, _l in cfg.guards(n)})
        common = set(sets[0])
        for s in sets[1:]:
            common &= set(s)
        out = [sets[0][k] for k in sets[0] if k in common]
    # expression-level guards up to the enclosing statement/test
    stop = node
    cur = node
    while cur is not None and id(cur) not in cfg._stmt_nodes:
        cur = prog.parent(cur)
    if cur is not None:
        out += expr_guards(node, cur, prog.parent)
    return out


def guard_texts(gs: Iterable[tuple[ast.AST, bool]]) -> list[str]:
    out = []
    for t, p in gs:
        if isinstance(t, (ast.For, ast.match_case)):
            continue
        out.append(("" if p else "not ") + "(" + unparse(t) + ")")
    return out


def strip_not(t: ast.AST, pol: bool) -> tuple[ast.AST, bool]:
    """Normalise ``not X`` tests: returns (X, flipped polarity)."""
    while isinstance(t, ast.UnaryOp) and isinstance(t.op, ast.Not):
        t = t.operand
        pol = not pol
    return t, pol


def atomic_guards(gs: Iterable[tuple[ast.AST, bool]]) -> list[tuple[str, bool]]:
    """Split dominating guards into atoms that are known to hold: `a and b` true → a, b true;
    `a or b` false → a false, b false; `not x` flips."""
    out: list[tuple[str, bool]] = []

    def rec(t: ast.AST, pol: bool) -> None:
        t, pol = strip_not(t, pol)
        if isinstance(t, ast.BoolOp):
            if isinstance(t.op, ast.And) and pol:
                for v in t.values:
                    rec(v, True)
                return
            if isinstance(t.op, ast.Or) and not pol:
                for v in t.values:
                    rec(v, False)
                return
        if isinstance(t, (ast.For, ast.match_case)):
            return
        out.append((unparse(t), pol))

    for t, p in gs:
        rec(t, p)
    return out


def assignments_to(fn: ast.AST, name: str) -> list[ast.AST]:
    """All values assigned to local ``name`` in function fn (flow-insensitive).  For targets that
    are not a plain single assignment (loop/with/tuple unpack) the statement itself is returned."""
    out: list[ast.AST] = []
    for n in walk_no_nested(fn):
        if isinstance(n, ast.Assign):
            for t in n.targets:
                if isinstance(t, ast.Name) and t.id == name:
                    out.append(n.value)
                elif any(isinstance(x, ast.Name) and x.id == name for x in ast.walk(t)) and not isinstance(t, (ast.Subscript, ast.Attribute)):
                    out.append(n)
        elif isinstance(n, ast.AnnAssign) and isinstance(n.target, ast.Name) and n.target.id == name:
            if n.value is not None:
                out.append(n.value)
        elif isinstance(n, ast.AugAssign) and isinstance(n.target, ast.Name) and n.target.id == name:
            out.append(n)
        elif isinstance(n, ast.NamedExpr) and n.target.id == name:
            out.append(n.value)
        elif isinstance(n, (ast.For, ast.comprehension)):
            if any(isinstance(x, ast.Name) and x.id == name for x in ast.walk(n.target)):
                out.append(n)
        elif isinstance(n, ast.With):
            for it in n.items:
                if it.optional_vars is not None and any(
                        isinstance(x, ast.Name) and x.id == name for x in ast.walk(it.optional_vars)):
                    out.append(n)
        elif isinstance(n, ast.ExceptHandler) and n.name == name:
            out.append(n)
    return out


def const_eval(prog: Program, m, e: ast.AST, depth: int = 0) -> Any:
    """Evaluate literal expressions (E6).  Raises ValueError when not a compile-time constant."""
    if depth > 8:
        raise ValueError("too deep")
    if isinstance(e, ast.Constant):
        return e.value
    if isinstance(e, (ast.Tuple, ast.List, ast.Set)):
        vals = [const_eval(prog, m, x, depth + 1) for x in e.elts]
        return tuple(vals) if isinstance(e, ast.Tuple) else (list(vals) if isinstance(e, ast.List) else set(vals))
    if isinstance(e, ast.Dict):
        return {const_eval(prog, m, k, depth + 1): const_eval(prog, m, v, depth + 1) for k, v in zip(e.keys, e.values)}
    if isinstance(e, ast.BinOp):
        l, r = const_eval(prog, m, e.left, depth + 1), const_eval(prog, m, e.right, depth + 1)
        ops = {ast.Add: lambda a, b: a + b, ast.Sub: lambda a, b: a - b, ast.Mult: lambda a, b: a * b,
               ast.FloorDiv: lambda a, b: a // b, ast.Mod: lambda a, b: a % b, ast.BitOr: lambda a, b: a | b,
               ast.Div: lambda a, b: a / b, ast.Pow: lambda a, b: a ** b}
        f = ops.get(type(e.op))
        if f is None:
            raise ValueError("op")
        return f(l, r)
    if isinstance(e, ast.UnaryOp) and isinstance(e.op, ast.USub):
        return -const_eval(prog, m, e.operand, depth + 1)
    if isinstance(e, ast.Name):
        import string
        known = {"alphanums": string.ascii_letters + string.digits, "alphas": string.ascii_letters,
                 "nums": string.digits}
        q = m.imports.get(e.id, "")
        if q.startswith("pyparsing.") and e.id in known:
            return known[e.id]
        if q.startswith("string."):
            return getattr(string, q.split(".", 1)[1])
        if e.id in m.assigns and len(m.assigns[e.id]) == 1:
            st = m.assigns[e.id][0]
            v = getattr(st, "value", None)
            if v is not None:
                return const_eval(prog, m, v, depth + 1)
        if q:
            mod, _, attr = q.rpartition(".")
            if mod in prog.modules:
                mm = prog.modules[mod]
                if attr in mm.assigns and len(mm.assigns[attr]) == 1:
                    v = getattr(mm.assigns[attr][0], "value", None)
                    if v is not None:
                        return const_eval(prog, mm, v, depth + 1)
        raise ValueError(f"name {e.id}")
    if isinstance(e, ast.Attribute):
        d = dotted(e)
        import string
        if d.startswith("string."):
            return getattr(string, d.split(".", 1)[1])
        raise ValueError(f"attr {d}")
    if isinstance(e, ast.Call) and isinstance(e.func, ast.Name) and e.func.id in ("frozenset", "set", "tuple", "list") and len(e.args) <= 1:
        inner = const_eval(prog, m, e.args[0], depth + 1) if e.args else ()
        return {"frozenset": frozenset, "set": set, "tuple": tuple, "list": list}[e.func.id](inner)
    raise ValueError(type(e).__name__)


def find_stmt(fi: FuncInfo, pred) -> list[ast.stmt]:
    return [n for n in walk_no_nested(fi.node) if isinstance(n, ast.stmt) and pred(n)]


def require(cond: bool, msg: str) -> None:
    if not cond:
        raise AnalysisError(msg)


def run_as(ctx, fn, old_id: str, new_id: str, prefix: str = "") -> None:
    """Run a rule function of another property module and report what it records under ``new_id`` (the rule text gets
    ``prefix``): one mechanism can be a necessary condition of two properties."""
    r = ctx.r
    before = len(r.obligations)
    nf = len(r.findings)
    fl = len(r.floor_failures) if hasattr(r, "floor_failures") else 0
    fn(ctx)
    for o in r.obligations[before:]:
        if o["rule"] == old_id:
            o["rule"] = new_id
    for f in r.findings[nf:]:
        if f.rule == old_id:
            f.rule = new_id
    r.rule_counts[new_id] = r.rule_counts.get(new_id, 0) + r.rule_counts.pop(old_id, 0)
    r.rule_text[new_id] = prefix + r.rule_text.pop(old_id, "")
    if hasattr(r, "floor_failures"):
        r.floor_failures[fl:] = [x.replace(old_id, new_id) if isinstance(x, str) else x for x in r.floor_failures[fl:]]
