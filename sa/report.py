"""Reports, known findings, evidence files, exit codes (DESIGN §1 E7)."""
from __future__ import annotations

import json
import os
import sys
import time
from dataclasses import dataclass, field
from typing import Any, Optional

VERIF = os.path.dirname(os.path.dirname(os.path.abspath(__file__)))
KNOWN = os.path.join(VERIF, "known_findings.json")


def _norm(s: str) -> str:
    return " ".join(s.split())


@dataclass
class Finding:
    prop: str
    rule: str
    where: str  # qualified function / class / module
    construct: str  # normalised statement or table entry
    msg: str
    loc: str = ""  # file:line, informational only
    path: list[str] = field(default_factory=list)

    def key(self) -> tuple[str, str, str, str]:
        return (self.prop, self.rule, self.where, _norm(self.construct))

    def as_dict(self) -> dict[str, Any]:
        return {"property": self.prop, "rule": self.rule, "where": self.where,
                "construct": _norm(self.construct), "message": self.msg, "loc": self.loc,
                "path": self.path}


class Report:
    def __init__(self, prop: str, tier: str, seed: int = 0, write_evidence: bool = True,
                 replay_filter: Optional[dict] = None):
        self.prop = prop
        self.tier = tier
        self.seed = seed
        self.write_evidence = write_evidence
        self.t0 = time.time()
        self.findings: list[Finding] = []
        self.obligations: list[dict[str, Any]] = []
        self.rule_counts: dict[str, int] = {}
        self.rule_text: dict[str, str] = {}
        self.notes: list[str] = []
        self.floor_failures: list[str] = []
        self.analysed: dict[str, Any] = {}
        self.assumptions: list[str] = []
        self.explanation = ""
        self.selftest: Optional[dict[str, Any]] = None
        self.replay_filter = replay_filter
        self.known = self._load_known()

    # -------------------------------------------------------------- known findings
    def _load_known(self) -> list[dict[str, Any]]:
        if not os.path.exists(KNOWN):
            return []
        with open(KNOWN, encoding="utf-8") as f:
            data = json.load(f)
        return [k for k in data.get("findings", []) if k.get("property") == self.prop]

    def _match_known(self, f: Finding) -> Optional[dict[str, Any]]:
        for k in self.known:
            if (k.get("rule") == f.rule and k.get("where") == f.where
                    and _norm(k.get("construct", "")) == _norm(f.construct)):
                return k
        return None

    # -------------------------------------------------------------- recording
    def rule(self, rule: str, text: str) -> None:
        """Declare a rule (its statement appears in evidence)."""
        self.rule_text[rule] = text
        self.rule_counts.setdefault(rule, 0)

    def ok(self, rule: str, where: str, what: str, loc: str = "") -> None:
        """One obligation examined and discharged."""
        self.rule_counts[rule] = self.rule_counts.get(rule, 0) + 1
        self.obligations.append({"rule": rule, "where": where, "what": _norm(what)[:300], "loc": loc,
                                 "discharged": True})

    def violation(self, rule: str, where: str, construct: str, msg: str, loc: str = "",
                  path: Optional[list[str]] = None) -> None:
        self.rule_counts[rule] = self.rule_counts.get(rule, 0) + 1
        f = Finding(self.prop, rule, where, construct, msg, loc, path or [])
        # de-duplicate
        if any(g.key() == f.key() for g in self.findings):
            return
        self.findings.append(f)
        self.obligations.append({"rule": rule, "where": where, "what": _norm(construct)[:300],
                                 "loc": loc, "discharged": False})

    def note(self, s: str) -> None:
        self.notes.append(s)

    def floor(self, rule: str, minimum: int) -> None:
        """Fail the run (exit 2) if a rule examined fewer instances than confirmed by hand."""
        n = self.rule_counts.get(rule, 0)
        if any(f.rule == rule for f in self.findings):
            return  # a concrete violation of this rule was found: report that, not the thinner instance count
        if n < minimum:
            # deferred: the other rules still run; finish() exits 2 unless a concrete violation was found
            self.floor_failures.append(f"{rule}: only {n} instance(s) examined, at least {minimum} were "
                                       f"confirmed on the pinned tree — extractor no longer recognises the code")

    # -------------------------------------------------------------- finishing
    def finish(self) -> int:
        new: list[Finding] = []
        known_hit: list[tuple[Finding, dict[str, Any]]] = []
        for f in self.findings:
            if self.replay_filter is not None:
                rf = self.replay_filter
                if not (rf.get("rule") == f.rule and rf.get("where") == f.where
                        and _norm(rf.get("construct", "")) == _norm(f.construct)):
                    continue
            k = self._match_known(f)
            if k is not None:
                known_hit.append((f, k))
            else:
                new.append(f)
        matched_ids = {id(k) for _, k in known_hit}
        stale = [k for k in self.known if id(k) not in matched_ids]
        wall = time.time() - self.t0

        print(f"[{self.prop}] tier={self.tier} rules={len(self.rule_text)} "
              f"obligations={len(self.obligations)} discharged="
              f"{sum(1 for o in self.obligations if o['discharged'])} wall={wall:.1f}s")
        for r in sorted(self.rule_text):
            print(f"  {r}: {self.rule_counts.get(r, 0)} instance(s) — {self.rule_text[r]}")
        for f, k in known_hit:
            print(f"KNOWN-FINDING: property={self.prop} {f.rule} {f.where}: {_norm(f.construct)[:120]} — "
                  f"{k.get('what', f.msg)}")
        replay_dir = os.path.join(VERIF, "evidence", "replay")
        for i, f in enumerate(new):
            path = os.path.join(replay_dir, f"{self.prop}-{i}.json")
            if self.write_evidence:
                os.makedirs(replay_dir, exist_ok=True)
                with open(path, "w", encoding="utf-8") as fh:
                    json.dump(f.as_dict(), fh, indent=1)
            print(f"  {f.rule} at {f.loc or f.where} in {f.where}: {_norm(f.construct)[:200]}")
            print(f"    -> {f.msg}")
            for p in f.path:
                print(f"       path: {p}")
            print(f"VIOLATION property={self.prop} replay={path}")
        if self.write_evidence:
            self._write_evidence(new, known_hit, stale, wall)
        for msg in self.floor_failures:
            print(f"ANALYSIS-ERROR property={self.prop}: {msg}")
        sys.stdout.flush()
        if new:
            return 1
        return 2 if self.floor_failures else 0

    def _write_evidence(self, new, known_hit, stale, wall) -> None:
        obligations = len(self.obligations)
        discharged = sum(1 for o in self.obligations if o["discharged"])
        distinct = len({(o["rule"], o["where"], o["what"]) for o in self.obligations})
        samples = []
        seen_rules: set[str] = set()
        for o in self.obligations:  # one sample per rule first, then fill up
            if o["rule"] not in seen_rules:
                seen_rules.add(o["rule"])
                samples.append(o)
        for o in self.obligations:
            if len(samples) >= 40:
                break
            if o not in samples:
                samples.append(o)
        ev = {
            "property_id": self.prop,
            "tier": self.tier,
            "seed": self.seed,
            "level": "other",
            "coverage": {
                "explanation": self.explanation or "static analysis of /repo/sigma (see rules)",
                "obligations": obligations,
                "discharged": discharged,
                "evaluations": max(obligations, 1),
                "distinct_nontrivial": distinct,
                "rule": "one obligation per (rule, function/class, normalised construct) the rule "
                        "examined in the current source; distinct = distinct such triples; trivial "
                        "instances (nothing to examine) are not recorded",
                "samples": samples,
                "rules": {r: {"statement": self.rule_text[r], "instances": self.rule_counts.get(r, 0)}
                          for r in sorted(self.rule_text)},
                "analysed": self.analysed,
                "known_findings_matched": [
                    {"rule": f.rule, "where": f.where, "construct": _norm(f.construct), "loc": f.loc}
                    for f, _ in known_hit],
                "known_findings_stale": [
                    {"rule": k.get("rule"), "where": k.get("where"), "construct": k.get("construct")}
                    for k in stale],
                "violations": [f.as_dict() for f in new],
                "notes": self.notes,
                "exhaustive": False,
            },
            "assumptions": self.assumptions or [
                "no monkey-patching / setattr with computed names outside the enumerated reflective sites",
                "third-party and stdlib callees behave as documented",
                "backends outside /repo are out of scope",
            ],
            "wall_s": round(wall, 3),
            "violations": len(new),
        }
        if self.selftest is not None:
            ev["coverage"]["selftest"] = self.selftest
        d = os.path.join(VERIF, "evidence")
        os.makedirs(d, exist_ok=True)
        tmp = os.path.join(d, f".{self.prop}.json.tmp")
        with open(tmp, "w", encoding="utf-8") as fh:
            json.dump(ev, fh, indent=1, default=str)
        os.replace(tmp, os.path.join(d, f"{self.prop}.json"))
