"""Interprocedural exception-escape analysis with document taint (DESIGN §1 E5, C07).

For every function in scope: which exception classes can leave it, given (a) explicit raises,
(b) implicit raises of operations on document-derived (tainted / Any-typed) values, (c) what its
callees let escape, minus what enclosing handlers at the raise/call site catch."""
from __future__ import annotations

import ast
import re
from dataclasses import dataclass, field
from typing import Callable, Optional

from .prog import FuncInfo, Program, call_name, init_params, short, stmt_head, unparse, walk_no_nested
from .raises import bases_of, exc_class_of, handler_names, is_sigma_error
from .util import cfg_of, assignments_to, atomic_guards, guards_at


@dataclass
class Esc:
    exc: str                 # bare or qualified class name
    origin_fn: str
    origin: str              # normalised construct at the origin
    loc: str
    why: str
    path: tuple[str, ...] = ()
    collecting_only: bool = False

    def key(self) -> tuple[str, str, str]:
        return (self.exc, self.origin_fn, self.origin)


CONVERTERS = {
    # callee (dotted or bare) -> exceptions for a tainted argument
    "UUID": ("ValueError", "AttributeError", "TypeError"), "uuid.UUID": ("ValueError", "AttributeError", "TypeError"),
    "int": ("ValueError", "TypeError", "OverflowError"), "float": ("ValueError", "TypeError", "OverflowError"),
    "date": ("ValueError", "TypeError"), "datetime.date": ("ValueError", "TypeError"), "date.fromisoformat": ("ValueError", "TypeError"),
    "re.compile": ("re.error", "TypeError", "OverflowError", "RecursionError"),  # huge repetition count / very deep nesting
    "ip_network": ("ValueError",), "ipaddress.ip_network": ("ValueError",),
    "len": ("TypeError",), "sorted": ("TypeError",), "set": ("TypeError",), "frozenset": ("TypeError",), "list": ("TypeError",), "tuple": ("TypeError",),
    "dict": ("TypeError", "ValueError"), "enumerate": (), "str": (), "repr": (), "bool": (), "isinstance": (), "type": (), "print": (), "id": (),
}
DICT_METHODS = {"get", "items", "keys", "values", "pop", "setdefault", "update", "copy"}
STR_METHODS = {"split", "upper", "lower", "strip", "startswith", "endswith", "replace", "format", "join", "rstrip", "lstrip", "encode", "find", "isdigit", "count", "partition", "rpartition", "casefold"}


def p_kind_exc(cfg, pred: int, succ: int) -> bool:
    """Is pred→succ an exceptional edge (into an except handler or an exceptional finally copy) from a statement node?"""
    return cfg.nodes[succ].kind == "except" and cfg.nodes[pred].kind in ("stmt", "test", "for", "with-enter")


class EscapeAnalysis:
    def __init__(self, ctx, in_scope: Callable[[FuncInfo], bool], entry_taint: dict[str, set[str]], assume_mapping: Optional[dict[str, set[str]]] = None):
        self.assume_mapping = assume_mapping or {}
        self.param_assume: dict[str, dict[str, Optional[str]]] = {}
        self.ctx = ctx
        self.prog: Program = ctx.prog
        self.types = ctx.types
        self.cg = ctx.cg
        self.in_scope = in_scope
        self._entry_taint = {k: set(v) for k, v in entry_taint.items()}
        self.taint: dict[str, set[str]] = {k: set(v) for k, v in entry_taint.items()}
        self.field_taint: set[tuple[str, str]] = set()
        self.new_field_taint: set[tuple[str, str]] = set()
        self.field_key_taint: set[tuple[str, str]] = set()
        self.new_field_key_taint: set[tuple[str, str]] = set()
        self.escapes: dict[str, dict[tuple, Esc]] = {}
        self._local_taint_cache: dict[str, set[str]] = {}
        self.n_ops = 0

    # ------------------------------------------------------------------ taint
    def _field_tainted(self, fi: FuncInfo, e: ast.AST) -> bool:
        """e is (a projection of) an attribute read X.f where f is a field that a loader may leave holding a document
        value of unchecked type (a recorded-but-kept invalid value), X typed as the class (or a sub/superclass)."""
        ft = getattr(self, "field_taint", None)
        if not ft:
            return False
        while isinstance(e, (ast.Subscript, ast.Call)):
            if isinstance(e, ast.Call):
                if isinstance(e.func, ast.Attribute) and e.func.attr in DICT_METHODS:
                    e = e.func.value
                else:
                    return False
            else:
                e = e.value
        if not isinstance(e, ast.Attribute):
            return False
        cands = [k for k, f in ft if f == e.attr]
        if not cands:
            return False
        if isinstance(e.value, ast.Name) and e.value.id == "self" and fi.cls is not None:
            recv = [fi.cls.qual]
        else:
            recv = [c for c in self.types.class_names(fi.module, e.value) if c in self.prog.classes]
        for rc in recv:
            for k in cands:
                if k == rc or k in self.prog.mro(rc) or rc in self.prog.mro(k):
                    return True
        return False

    def _root_name(self, e: ast.AST) -> Optional[str]:
        while isinstance(e, (ast.Attribute, ast.Subscript, ast.Call)):
            if isinstance(e, ast.Call):
                if isinstance(e.func, ast.Attribute) and e.func.attr in DICT_METHODS | {"__getitem__"}:
                    e = e.func.value
                else:
                    return None
            else:
                e = e.value
        return e.id if isinstance(e, ast.Name) else None

    def local_tainted_names(self, fi: FuncInfo) -> set[str]:
        key = fi.qual + "|" + ",".join(sorted(self.taint.get(fi.qual, ())))
        if key in self._local_taint_cache:
            return self._local_taint_cache[key]
        names = set(self.taint.get(fi.qual, ()))
        changed = True
        while changed:
            changed = False
            for n in walk_no_nested(fi.node):
                tgt_names: list[str] = []
                src: Optional[ast.AST] = None
                if isinstance(n, ast.Assign) and len(n.targets) == 1:
                    tgt_names = [x.id for x in ast.walk(n.targets[0]) if isinstance(x, ast.Name)] if not isinstance(n.targets[0], (ast.Attribute, ast.Subscript)) else []
                    src = n.value
                elif isinstance(n, ast.AnnAssign) and isinstance(n.target, ast.Name) and n.value is not None:
                    tgt_names, src = [n.target.id], n.value
                elif isinstance(n, ast.NamedExpr):
                    tgt_names, src = [n.target.id], n.value
                elif isinstance(n, (ast.For, ast.comprehension)):
                    tgt_names = [x.id for x in ast.walk(n.target) if isinstance(x, ast.Name)]
                    src = n.iter
                    kt = self._key_tainted_iter(fi, src)
                    if kt:
                        first = n.target.elts[0] if isinstance(n.target, ast.Tuple) and n.target.elts else n.target
                        if isinstance(first, ast.Name) and first.id not in names:
                            names.add(first.id)
                            changed = True
                        continue
                    if isinstance(src, ast.Call) and call_name(src) in ("enumerate", "zip", "sorted", "reversed", "list"):
                        src = src.args[-1] if src.args else None
                if src is None or not tgt_names:
                    continue
                if self._expr_tainted_by_names(src, names) or self._field_tainted(fi, src):
                    for t in tgt_names:
                        if t not in names:
                            names.add(t)
                            changed = True
        self._local_taint_cache[key] = names
        return names

    def _expr_tainted_by_names(self, e: ast.AST, names: set[str]) -> bool:
        """Is e a projection (get/[]/items/iteration/deep_dict_update…) of a tainted name?"""
        if isinstance(e, ast.Name):
            return e.id in names
        if isinstance(e, ast.Subscript):
            return self._expr_tainted_by_names(e.value, names)
        if isinstance(e, ast.Attribute):
            return isinstance(e.value, ast.Name) and e.value.id == "self" and f"self.{e.attr}" in names
        if isinstance(e, ast.Call):
            if isinstance(e.func, ast.Attribute) and e.func.attr in DICT_METHODS:
                return self._expr_tainted_by_names(e.func.value, names)
            if call_name(e) in ("deep_dict_update", "copy.deepcopy", "dict", "list", "copy.copy"):
                return any(self._expr_tainted_by_names(a, names) for a in e.args)
            return False
        if isinstance(e, ast.IfExp):
            return self._expr_tainted_by_names(e.body, names) or self._expr_tainted_by_names(e.orelse, names)
        if isinstance(e, (ast.Tuple, ast.List)):
            return any(self._expr_tainted_by_names(x, names) for x in e.elts)
        if isinstance(e, ast.DictComp):
            # {k: f(v) for k, v in doc.items()}: the keys are the document's keys
            bound = set()
            for g in e.generators:
                it = g.iter
                if isinstance(it, ast.Call) and isinstance(it.func, ast.Attribute) and it.func.attr in ("items", "keys"):
                    it = it.func.value
                if self._expr_tainted_by_names(it, names):
                    bound |= {x.id for x in ast.walk(g.target) if isinstance(x, ast.Name)}
            return isinstance(e.key, ast.Name) and e.key.id in bound
        return False

    def is_tainted(self, fi: FuncInfo, e: ast.AST) -> bool:
        names = self.local_tainted_names(fi)
        if self._expr_tainted_by_names(e, names):
            return True
        if self._field_tainted(fi, e):
            return True
        a = self.types.is_any(fi.module, e)
        if a:
            # Any that stems from document data: root must be a tainted local; Any from third-party APIs is not document data
            root = self._root_name(e)
            return root in names if root else False
        return False

    def arg_tainted_at(self, fi: FuncInfo, e: ast.AST, at: ast.AST) -> bool:
        """is_tainted refined by reaching definitions for a plain local name used at node ``at``: walking the CFG
        backwards from the use, every path must meet either an assignment of a non-document value (x = Enum[...],
        x = None, x = Class(...)) or a branch edge on which the name is known to be None; a path that reaches a
        document-derived assignment (or the function entry) first keeps the name tainted."""
        if not self.is_tainted(fi, e):
            return False
        nt = self.narrowed(fi, e, at)
        if nt is not None and (nt.startswith("list[") or nt.split(".")[-1] in ("str", "int", "float", "bool", "UUID", "date", "datetime")):
            return False  # checked down to the elements / a scalar: nothing of unchecked type is left in it
        if not isinstance(e, ast.Name) or e.id in fi.params():
            return True
        name = e.id
        cfg = cfg_of(fi)
        names = self.local_tainted_names(fi)
        start = cfg.nodes_of(at) or cfg.nodes_of(self.prog.enclosing_stmt(at))
        if not start:
            return True
        seen: set[tuple[int, bool]] = set()
        stack = [(p, False) for s0 in start for p in cfg.nodes[s0].pred]
        while stack:
            nid, via_exc = stack.pop()
            if (nid, via_exc) in seen:
                continue
            seen.add((nid, via_exc))
            node = cfg.nodes[nid]
            a = node.ast
            if via_exc:
                # reached through an exceptional edge: the statement raised before completing, its assignment did not happen
                stack.extend((p, p_kind_exc(cfg, p, nid)) for p in node.pred)
                continue
            if node.kind == "entry":
                return True
            if node.kind == "branch" and a is not None:
                t = unparse(a)
                if (t == f"{name} is None" and node.polarity) or (t == f"{name} is not None" and node.polarity is False):
                    continue  # on this edge the name holds None
                m_ = re.fullmatch(r"(not )?isinstance\(" + re.escape(name) + r", ([\w.]+)\)", t)
                if m_ and m_.group(2).split(".")[-1] in ("str", "int", "float", "bool", "UUID", "date", "datetime") \
                        and ((m_.group(1) is None and node.polarity) or (m_.group(1) and node.polarity is False)):
                    continue  # on this edge the name was checked to be a scalar of that type
            if node.kind in ("stmt", "with-enter", "for") and a is not None:
                kill = None
                if isinstance(a, ast.Assign) and any(isinstance(t, ast.Name) and t.id == name for t in a.targets):
                    kill = a.value
                elif isinstance(a, ast.AnnAssign) and isinstance(a.target, ast.Name) and a.target.id == name and a.value is not None:
                    kill = a.value
                if kill is not None:
                    if self._checked_value(fi, kill, a):
                        continue
                    if self._expr_tainted_by_names(kill, names - {name}) or (self._expr_tainted_by_names(kill, names) and not isinstance(kill, ast.Name)):
                        return True  # a document-derived definition reaches the use
                    continue
            stack.extend((p, p_kind_exc(cfg, p, nid)) for p in node.pred)
        return False

    def _key_tainted_iter(self, fi: FuncInfo, it: ast.AST) -> bool:
        """it iterates the keys (X, X.keys(), X.items()) of a field whose dict was built with the document's own keys."""
        if not self.field_key_taint:
            return False
        if isinstance(it, ast.Call) and isinstance(it.func, ast.Attribute) and it.func.attr in ("items", "keys"):
            it = it.func.value
        if not isinstance(it, ast.Attribute):
            return False
        cands = [k for k, f in self.field_key_taint if f == it.attr]
        if not cands:
            return False
        if isinstance(it.value, ast.Name) and it.value.id == "self" and fi.cls is not None:
            recv = [fi.cls.qual]
        else:
            recv = [c for c in self.types.class_names(fi.module, it.value) if c in self.prog.classes]
        return any(k == rc or k in self.prog.mro(rc) or rc in self.prog.mro(k) for rc in recv for k in cands)

    def _kwargs_sources(self, fi: FuncInfo, name: str) -> list[tuple[str, ast.AST, FuncInfo, ast.AST]]:
        """(key, value expression, helper function, its return statement) for a local that holds a dict returned by a helper
        as a dict display, possibly as first element of a returned tuple:  kwargs, errors = super().helper(...)"""
        out = []
        for n in walk_no_nested(fi.node):
            if not isinstance(n, ast.Assign) or not isinstance(n.value, ast.Call):
                continue
            t = n.targets[0]
            pos = None
            if isinstance(t, ast.Name) and t.id == name:
                pos = -1
            elif isinstance(t, ast.Tuple):
                for i, x in enumerate(t.elts):
                    if isinstance(x, ast.Name) and x.id == name:
                        pos = i
            if pos is None:
                continue
            for site in self.cg.sites.get(fi.qual, []):
                if site.node is not n.value:
                    continue
                for callee in site.callees:
                    hfi = self.prog.funcs.get(callee)
                    if hfi is None:
                        continue
                    for ret in (x for x in walk_no_nested(hfi.node) if isinstance(x, ast.Return) and x.value is not None):
                        d = ret.value
                        if pos is not None and pos >= 0 and isinstance(d, ast.Tuple) and pos < len(d.elts):
                            d = d.elts[pos]
                        if isinstance(d, ast.Dict):
                            for k, v in zip(d.keys, d.values):
                                if isinstance(k, ast.Constant) and isinstance(k.value, str):
                                    out.append((k.value, v, hfi, ret))
        return out

    def _checked_value(self, fi: FuncInfo, v: ast.AST, at: ast.AST) -> bool:
        """v is, at statement ``at``, a value whose type was checked down to scalars: a narrowed scalar / element-checked
        list, or a list/tuple display of such values ([doc["condition"]] under isinstance(doc["condition"], str))."""
        scalars = ("str", "int", "float", "bool", "UUID", "date", "datetime")
        nt = self.narrowed(fi, v, at)
        if nt is not None and (nt.startswith("list[") or nt.split(".")[-1] in scalars):
            return True
        if isinstance(v, (ast.List, ast.Tuple)) and v.elts:
            return all(not self.is_tainted(fi, x) or self._checked_value(fi, x, at) for x in v.elts)
        return False

    def _fresh_container(self, v: ast.AST) -> bool:
        while isinstance(v, ast.Call) and call_name(v) == "cast" and len(v.args) == 2:
            v = v.args[1]
        return isinstance(v, (ast.Dict, ast.List, ast.DictComp, ast.ListComp, ast.SetComp)) or (isinstance(v, ast.Call) and call_name(v) in ("dict", "list") and not v.args)

    def narrowed(self, fi: FuncInfo, e: ast.AST, at: ast.AST, _depth: int = 0) -> Optional[str]:
        """Type text e is narrowed to at node ``at`` by a dominating isinstance guard (or None)."""
        txt = unparse(e)
        if isinstance(e, ast.Name) and e.id in self.assume_mapping.get(fi.qual, ()):
            return "dict"
        if isinstance(e, ast.Call) and isinstance(e.func, ast.Attribute) and e.func.attr in ("keys", "items", "values"):
            return "iterable"
        if isinstance(e, ast.Name) and self.param_assume.get(fi.qual, {}).get(e.id):
            if not assignments_to(fi.node, e.id):
                return self.param_assume[fi.qual][e.id]
        if isinstance(e, ast.Name):
            # implicit narrowing: a dict-method call on the same name that every path to `at` has passed
            from .util import cfg_of
            cfg = cfg_of(fi)
            at_nodes = [n for n in cfg.node_of_expr(at, self.prog.parent) if cfg.is_reachable(n)]
            if at_nodes:
                prior = []
                for x in walk_no_nested(fi.node):
                    if isinstance(x, ast.Call) and isinstance(x.func, ast.Attribute) and x.func.attr in ("get", "items", "keys", "values") \
                            and isinstance(x.func.value, ast.Name) and x.func.value.id == e.id:
                        ns = cfg.node_of_expr(x, self.prog.parent)
                        if not any(n in at_nodes for n in ns):
                            prior += ns
                    # a str-keyed subscript that succeeded (or whose KeyError ended the function) shows a mapping
                    if isinstance(x, ast.Subscript) and isinstance(x.value, ast.Name) and x.value.id == e.id \
                            and isinstance(x.slice, ast.Constant) and isinstance(x.slice.value, str) and isinstance(x.ctx, ast.Load):
                        ns = cfg.node_of_expr(x, self.prog.parent)
                        if not any(n in at_nodes for n in ns):
                            prior += ns
                    # … or the same inside a helper of the class / module the name was handed to, on every path to the
                    # helper's normal return (exceptions of the helper end this function or are the caller's handlers' business)
                    if isinstance(x, ast.Call) and _depth < 2 and any(isinstance(a_, ast.Name) and a_.id == e.id for a_ in x.args):
                        h_ = None
                        if isinstance(x.func, ast.Attribute) and isinstance(x.func.value, ast.Name) and x.func.value.id in ("self", "cls") and fi.cls is not None:
                            h_ = self.prog.lookup_method(fi.cls.qual, x.func.attr)
                        elif isinstance(x.func, ast.Name):
                            hq_ = self.prog.resolve_expr(fi.module, x.func)
                            h_ = self.prog.funcs.get(hq_) if hq_ else None
                        if h_ is not None and h_ is not fi:
                            ps_ = [p_ for p_ in h_.params() if p_ not in ("self", "cls")]
                            idx_ = next((i_ for i_, a_ in enumerate(x.args) if isinstance(a_, ast.Name) and a_.id == e.id), None)
                            if idx_ is not None and idx_ < len(ps_):
                                pn_ = ps_[idx_]
                                hcfg = cfg_of(h_)
                                shows = [y for y in walk_no_nested(h_.node) if (isinstance(y, ast.Subscript) and isinstance(y.value, ast.Name) and y.value.id == pn_ and isinstance(y.slice, ast.Constant)
                                                                                and isinstance(y.slice.value, str) and isinstance(y.ctx, ast.Load))
                                         or (isinstance(y, ast.Call) and isinstance(y.func, ast.Attribute) and y.func.attr in ("get", "items", "keys", "values") and isinstance(y.func.value, ast.Name) and y.func.value.id == pn_)]
                                hn_ = [n_ for y in shows for n_ in hcfg.node_of_expr(y, self.prog.parent)]
                                rets_ = [n_ for y in walk_no_nested(h_.node) if isinstance(y, ast.Return) for n_ in hcfg.nodes_of(y)]
                                if hn_ and rets_ and not assignments_to(h_.node, pn_) and all(hcfg.must_pass(n_, hn_) for n_ in rets_):
                                    ns = cfg.node_of_expr(x, self.prog.parent)
                                    if not any(n in at_nodes for n in ns):
                                        prior += ns
                if prior and all(cfg.must_pass(n, prior) for n in at_nodes):
                    return "dict"
        for g, pol in atomic_guards(guards_at(self.prog, fi, at)):
            if pol and g.startswith(f"isinstance({txt}, "):
                return g[len(f"isinstance({txt}, "):-1]
            # element check: all(isinstance(x, T) for x in <e>) holds on the way here
            if pol:
                m_ = re.fullmatch(r"all\(\(?isinstance\((\w+), ([\w., ()]+)\) for \1 in " + re.escape(txt) + r"\)?\)", g)
                if m_:
                    return f"list[{m_.group(2)}]"
            if not pol:  # the same check spelled as a refusal: any(not isinstance(x, T) for x in <e>) does not hold here
                m_ = re.fullmatch(r"any\(\(?not isinstance\((\w+), ([\w., ()]+)\) for \1 in " + re.escape(txt) + r"\)?\)", g)
                if m_:
                    return f"list[{m_.group(2)}]"
            if pol and (g.startswith(f"{txt} in ") or g.startswith(f"{txt} == ")) and not g.startswith(f"{txt} in self."):
                return "checked-member"
        if isinstance(e, ast.Name) and _depth < 3:
            # (a) normalisation idiom:  if not isinstance(x, T): ...; x = <fresh T>   — after it x is a T on both paths
            from .util import cfg_of as _cfg_of
            cfg = _cfg_of(fi)
            at_nodes = [n for n in cfg.node_of_expr(at, self.prog.parent) if cfg.is_reachable(n)]
            for x in walk_no_nested(fi.node):
                if isinstance(x, ast.If) and unparse(x.test).startswith(f"not isinstance({e.id}, ") and not x.orelse:
                    last = x.body[-1]
                    if isinstance(last, ast.Assign) and unparse(last.targets[0]) == e.id and self._fresh_container(last.value):
                        tn = cfg.nodes_of(x.test)
                        if at_nodes and tn and all(cfg.must_pass(n, tn) for n in at_nodes) and not any(n in tn for n in at_nodes):
                            later = [v for v in assignments_to(fi.node, e.id) if isinstance(v, ast.AST) and getattr(v, "lineno", 0) > x.end_lineno]
                            if not later:
                                return unparse(x.test)[len(f"not isinstance({e.id}, "):-1]
            # (b) every assignment of the name is a fresh container or an already narrowed name
            defs = assignments_to(fi.node, e.id)
            if defs and e.id not in fi.params():
                kinds = set()
                for v in defs:
                    if isinstance(v, ast.AST) and not isinstance(v, (ast.stmt, ast.comprehension)) and self._fresh_container(v):
                        kinds.add("dict" if isinstance(v, (ast.Dict, ast.DictComp)) or (isinstance(v, ast.Call) and "dict" in unparse(v)) else "list")
                    elif isinstance(v, ast.Name):
                        k = self.narrowed(fi, v, v, _depth + 1)
                        kinds.add(k if k else "?")
                    elif isinstance(v, ast.Call) and call_name(v) == "deep_dict_update":
                        kinds.add("dict")
                    else:
                        kinds.add("?")
                if kinds and "?" not in kinds and all("dict" in k for k in kinds):
                    return "dict"
                if kinds == {"list"}:
                    return "list"
        t = self.types.type_str(fi.module, e)
        if t and t not in ("Any",) and not t.startswith("Any") and isinstance(e, ast.Name) and e.id not in self.taint.get(fi.qual, ()):
            return None
        return None

    # ------------------------------------------------------------------ per-function facts
    def _implicit(self, fi: FuncInfo) -> list[tuple[ast.AST, tuple[str, ...], str, str]]:
        """(node, exception names, root variable, description) for operations on tainted values."""
        out = []
        prog = self.prog
        for n in walk_no_nested(fi.node):
            if isinstance(n, ast.Subscript) and not self.is_tainted(fi, n.value) and not isinstance(n.slice, (ast.Slice, ast.Constant)):
                tr = (self.types.type_str(fi.module, n.value) or "").split("[")[0].split(".")[-1].lower()
                if tr in ("dict", "defaultdict", "ordereddict") and self.is_tainted(fi, n.slice) and self.narrowed(fi, n.slice, n) is None and not self._is_dict_key(fi, n.slice):
                    self.n_ops += 1
                    out.append((n, ("TypeError",), self._root_name(n.slice) or unparse(n.slice), f"{short(n.slice, 40)} is hashed as key of {short(n.value, 40)}: a list or map from the document is unhashable"))
            if isinstance(n, ast.Attribute) and isinstance(n.ctx, ast.Load):
                v = n.value
                if not self.is_tainted(fi, v):
                    continue
                nt = self.narrowed(fi, v, n)
                if nt is not None:
                    continue
                self.n_ops += 1
                root = self._root_name(v) or unparse(v)
                out.append((n, ("AttributeError",), root, f"{short(v, 40)}.{n.attr} on a document value of unchecked type"))
            elif isinstance(n, ast.Subscript) and isinstance(n.ctx, ast.Load):
                v = n.value
                if not self.is_tainted(fi, v):
                    continue
                self.n_ops += 1
                root = self._root_name(v) or unparse(v)
                nt = self.narrowed(fi, v, n)
                is_slice = isinstance(n.slice, ast.Slice)
                str_key = isinstance(n.slice, ast.Constant) and isinstance(n.slice.value, str)
                int_key = isinstance(n.slice, ast.Constant) and isinstance(n.slice.value, int) or (isinstance(n.slice, ast.UnaryOp) and isinstance(n.slice.operand, ast.Constant))
                if nt is not None and "dict" in nt:
                    ktxt = unparse(n.slice)
                    present = any(pol and g in (f"{ktxt} in {unparse(v)}", f"{ktxt} in {unparse(v)}.keys()") for g, pol in atomic_guards(guards_at(prog, fi, n))) \
                        or any((not pol) and g in (f"{ktxt} not in {unparse(v)}", f"{ktxt} not in {unparse(v)}.keys()") for g, pol in atomic_guards(guards_at(prog, fi, n)))
                    if not present:
                        # inside a handler that cannot catch KeyError, of a try whose body evaluates the very same subscript:
                        # the handler only runs after that evaluation succeeded (nothing in between changes the map)
                        for anc in prog.ancestors(n):
                            if isinstance(anc, ast.ExceptHandler):
                                tr_ = prog.parent(anc)
                                hn = [unparse(x).rsplit(".", 1)[-1] for x in (anc.type.elts if isinstance(anc.type, ast.Tuple) else [anc.type])] if anc.type is not None else ["BaseException"]
                                if isinstance(tr_, ast.Try) and not (set(hn) & {"KeyError", "LookupError", "Exception", "BaseException"}) \
                                        and any(isinstance(x, ast.Subscript) and unparse(x) == unparse(n) for st_ in tr_.body for x in ast.walk(st_)) \
                                        and sum(1 for st_ in tr_.body for x in ast.walk(st_) if isinstance(x, (ast.Call, ast.Subscript))) <= 3:
                                    present = True
                                break
                            if anc is fi.node:
                                break
                    if not present:
                        if isinstance(v, ast.Name) and isinstance(n.slice, ast.Name) and v.id in fi.params() and n.slice.id in fi.params():
                            # remembered for the call sites: a caller may hand over a key it has taken from the map itself
                            self._keyerr_params = getattr(self, "_keyerr_params", {})
                            self._keyerr_params[(fi.qual, f"{short(n, 50)}: key may be missing")] = (v.id, n.slice.id)
                        out.append((n, ("KeyError",), root, f"{short(n, 50)}: key may be missing"))
                elif nt is not None and ("list" in nt or "str" in nt):
                    if not is_slice:
                        out.append((n, ("IndexError",) if int_key else ("IndexError", "TypeError"), root, f"{short(n, 50)}: index may be out of range"))
                elif nt is None:
                    if is_slice:
                        excs = ("TypeError",)
                    elif str_key:
                        excs = ("KeyError", "TypeError")
                    elif int_key:
                        excs = ("IndexError", "TypeError", "KeyError")
                    else:
                        excs = ("KeyError", "TypeError", "IndexError")
                    out.append((n, excs, root, f"{short(n, 50)} on a document value of unchecked type"))
            elif isinstance(n, (ast.For, ast.comprehension)):
                it = n.iter
                if isinstance(it, ast.Call) and isinstance(it.func, ast.Attribute) and it.func.attr in ("items", "keys", "values"):
                    continue  # the attribute access is the failing operation
                if isinstance(it, ast.Call) and call_name(it) in ("enumerate", "zip", "sorted", "reversed"):
                    it = it.args[-1] if it.args else it
                if self.is_tainted(fi, it) and self.narrowed(fi, it, n if isinstance(n, ast.For) else prog.parent(n)) is None:
                    self.n_ops += 1
                    out.append((n if isinstance(n, ast.For) else prog.parent(n), ("TypeError",), self._root_name(it) or unparse(it), f"iteration over {short(it, 40)} of unchecked type"))
            elif isinstance(n, ast.Compare) and any(isinstance(o, (ast.In, ast.NotIn)) for o in n.ops):
                c = n.comparators[-1]
                if self.is_tainted(fi, c) and self.narrowed(fi, c, n) is None:
                    self.n_ops += 1
                    out.append((n, ("TypeError",), self._root_name(c) or unparse(c), f"membership test in {short(c, 40)} of unchecked type"))
                # hashing: `x in {…}` / `x in <set or dict>` with a document value of unchecked type (a list or map is unhashable)
                left = n.left
                if self.is_tainted(fi, left) and self.narrowed(fi, left, n) is None and not self._is_dict_key(fi, left):
                    ts = self.ctx.types.type_str(fi.module, c) or ""
                    hashed = isinstance(c, (ast.Set, ast.Dict, ast.SetComp, ast.DictComp)) or ts.split("[")[0].split(".")[-1].lower() in ("set", "frozenset", "dict", "defaultdict")
                    if hashed:
                        self.n_ops += 1
                        out.append((n, ("TypeError",), self._root_name(left) or unparse(left), f"{short(left, 40)} is hashed by the membership test in {short(c, 40)}: a list or map from the document is unhashable"))
            elif isinstance(n, ast.BinOp) and isinstance(n.op, (ast.Add, ast.Mod)) and not isinstance(n.op, ast.Mod):
                # str + <document value of unchecked type>
                for a, b in ((n.left, n.right), (n.right, n.left)):
                    ta = self.types.type_str(fi.module, a) or ""
                    if (isinstance(a, ast.Constant) and isinstance(a.value, str)) or ta in ("builtins.str", "str"):
                        if self.is_tainted(fi, b) and self.narrowed(fi, b, n) is None and not (isinstance(b, ast.Constant)):
                            tb = self.types.type_str(fi.module, b) or ""
                            if tb in ("builtins.str", "str") and not self._from_mapping_key(fi, b):
                                continue
                            self.n_ops += 1
                            out.append((n, ("TypeError",), self._root_name(b) or unparse(b), f"str + {short(b, 40)}: a document value of unchecked type is concatenated to a string"))
                            break
            elif isinstance(n, ast.Call):
                d = call_name(n)
                if isinstance(n.func, ast.Attribute) and n.func.attr == "join" and n.args and isinstance(n.func.value, ast.Constant) and isinstance(n.func.value.value, str):
                    a0 = n.args[0]
                    inner = a0.args[0] if isinstance(a0, ast.Call) and call_name(a0) in ("sorted", "list", "set", "tuple") and a0.args else a0
                    if self._key_collection(fi, inner):
                        self.n_ops += 1
                        out.append((n, ("TypeError",), self._root_name(inner) or unparse(inner), f"join over {short(inner, 40)}: keys of a document map need not be strings"))
                # ordering: sorted()/min()/max() over the keys of a document map compares them with each other — keys of
                # different YAML types (1 and 'a') are not orderable; a key function or a conversion of the elements is fine
                if d in ("sorted", "min", "max") and n.args and not any(k.arg == "key" for k in n.keywords) and self._key_collection(fi, n.args[0]):
                    self.n_ops += 1
                    out.append((n, ("TypeError",), self._root_name(n.args[0]) or unparse(n.args[0]), f"{d}({short(n.args[0], 40)}) orders keys of a document map: keys of different types (a number and a string) cannot be compared"))
                if isinstance(n.func, ast.Attribute) and n.func.attr in ("get", "setdefault", "add", "pop", "discard", "remove") and n.args:
                    tr = (self.types.type_str(fi.module, n.func.value) or "").split("[")[0].split(".")[-1].lower()
                    k0 = n.args[0]
                    if tr in ("dict", "defaultdict", "set", "frozenset") and not self.is_tainted(fi, n.func.value) and self.is_tainted(fi, k0) and self.narrowed(fi, k0, n) is None and not self._is_dict_key(fi, k0):
                        self.n_ops += 1
                        out.append((n, ("TypeError",), self._root_name(k0) or unparse(k0), f"{short(k0, 40)} is hashed by {short(n.func, 40)}(): a list or map from the document is unhashable"))
                excs = CONVERTERS.get(d)
                if excs is None and d.split(".")[-1] in ("UUID",):
                    excs = CONVERTERS["UUID"]
                if d in ("date", "datetime.date", "datetime", "datetime.datetime") and self.prog.resolve_expr(fi.module, n.func) in (None, "datetime.date", "datetime.datetime") \
                        and (n.args or n.keywords) and not all(isinstance(a_, ast.Constant) for a_ in list(n.args) + [k_.value for k_ in n.keywords]):
                    # a calendar constructor refuses component values that are no date (30 February), whatever checked their
                    # shape before: numbers computed from a matched text are not a date yet
                    self.n_ops += 1
                    out.append((n, ("ValueError",), unparse(n.args[0]) if n.args else d, f"{short(n, 60)}: a calendar constructor raises ValueError for components that are no date (day 30 in February)"))
                    excs = None
                if excs:
                    args = list(n.args) + [k.value for k in n.keywords]
                    for a in args:
                        if self.is_tainted(fi, a):
                            nt = self.narrowed(fi, a, n)
                            ex = excs
                            if nt is not None and "str" in nt:
                                ex = tuple(x for x in excs if x in ("ValueError", "re.error") or (d == "re.compile" and x in ("OverflowError", "RecursionError")))
                            if nt is not None and any(k in nt for k in ("iterable", "list", "dict", "str")) and d in ("len", "sorted", "set", "frozenset", "list", "tuple"):
                                ex = ()
                            if d == "int" and isinstance(a, ast.Subscript) and isinstance(a.slice, ast.Slice):
                                ex = tuple(x for x in ex if x != "OverflowError")  # a slice is never a float
                            if ex:
                                self.n_ops += 1
                                out.append((n, ex, self._root_name(a) or unparse(a), f"{d}({short(a, 40)}) with a document value" + ("" if nt is None else f" narrowed to {nt}")))
                            break
                # enum lookup E[x]
            if isinstance(n, ast.Subscript) and isinstance(n.ctx, ast.Load):
                q = prog.resolve_expr(fi.module, n.value)
                if q in prog.classes and any(b.split(".")[-1] in ("Enum", "IntEnum") for b in prog.classes[q].bases):
                    if self.is_tainted(fi, n.slice) or any(self.is_tainted(fi, x) for x in ast.walk(n.slice) if isinstance(x, ast.expr)):
                        self.n_ops += 1
                        out.append((n, ("KeyError",), unparse(n.slice), f"enum lookup {short(n, 50)} with a document value"))
        return out

    def _from_mapping_key(self, fi: FuncInfo, e: ast.AST) -> bool:
        return self._is_dict_key(fi, e)

    def _key_collection(self, fi: FuncInfo, e: ast.AST, depth: int = 0) -> bool:
        """e is a collection made of the keys of a document map (d.keys(), frozenset(d.keys()), set operations on it)."""
        if depth > 12:
            return False
        if isinstance(e, ast.Call):
            if isinstance(e.func, ast.Attribute) and e.func.attr == "keys" and self.is_tainted(fi, e.func.value):
                return True
            if isinstance(e.func, ast.Attribute) and e.func.attr in ("difference", "intersection", "union", "symmetric_difference", "copy"):
                return self._key_collection(fi, e.func.value, depth + 1)
            if call_name(e) in ("frozenset", "set", "list", "sorted", "tuple") and e.args:
                return self._key_collection(fi, e.args[0], depth + 1)
            return False
        if isinstance(e, ast.Name):
            vals = [v for v in assignments_to(fi.node, e.id) if isinstance(v, ast.AST) and not isinstance(v, (ast.For, ast.comprehension, ast.With, ast.ExceptHandler, ast.AugAssign))]
            return bool(vals) and any(self._key_collection(fi, v, depth + 1) for v in vals)
        if isinstance(e, ast.BinOp) and isinstance(e.op, (ast.Sub, ast.BitAnd, ast.BitOr)):
            return self._key_collection(fi, e.left, depth + 1)
        return False

    def _is_dict_key(self, fi: FuncInfo, e: ast.AST) -> bool:
        """e is a name bound to the keys of a mapping (for k, v in d.items() / for k in d.keys()): hashable by construction."""
        if not isinstance(e, ast.Name):
            return False
        for n in ast.walk(fi.node):
            if isinstance(n, (ast.For, ast.comprehension)) and isinstance(n.iter, ast.Call) and isinstance(n.iter.func, ast.Attribute):
                if n.iter.func.attr == "items" and isinstance(n.target, ast.Tuple) and n.target.elts and isinstance(n.target.elts[0], ast.Name) and n.target.elts[0].id == e.id:
                    return True
                if n.iter.func.attr == "keys" and isinstance(n.target, ast.Name) and n.target.id == e.id:
                    return True
        return False

    def _member_of(self, fi: FuncInfo, key: ast.AST, doc: ast.AST, at: ast.AST, depth: int = 0) -> bool:
        """``key`` is known to be a key of the map ``doc`` at ``at``: guarded by `key in doc`, or bound (once) to an element
        drawn from a generator that keeps only elements `x in doc` (next(...), single-element unpacking), or to the result
        of a helper all of whose returns are such an element for the corresponding parameter."""
        prog = self.prog
        dtxt = unparse(doc)
        if any(pol and g in (f"{unparse(key)} in {dtxt}", f"{unparse(key)} in {dtxt}.keys()") for g, pol in atomic_guards(guards_at(prog, fi, at))):
            return True
        if not isinstance(key, ast.Name) or depth > 2:
            return False

        def filtered_gen(e: ast.AST, dname: str) -> bool:
            if isinstance(e, ast.Call) and call_name(e) == "next" and e.args:
                e = e.args[0]
            if isinstance(e, (ast.GeneratorExp, ast.ListComp)) and len(e.generators) == 1 and isinstance(e.elt, ast.Name) and isinstance(e.generators[0].target, ast.Name) \
                    and e.elt.id == e.generators[0].target.id:
                return any(isinstance(c, ast.Compare) and len(c.ops) == 1 and isinstance(c.ops[0], ast.In) and unparse(c.left) == e.elt.id and unparse(c.comparators[0]) in (dname, dname + ".keys()")
                           for c in e.generators[0].ifs)
            return False
        binds = [st for st in ast.walk(fi.node) if isinstance(st, ast.Assign) and any(isinstance(t, ast.Name) and t.id == key.id for tg in st.targets for t in ast.walk(tg))]
        if len(binds) != 1 or any(isinstance(x, (ast.For, ast.comprehension)) and any(isinstance(t, ast.Name) and t.id == key.id for t in ast.walk(x.target)) for x in ast.walk(fi.node)):
            return False
        st = binds[0]
        tg = st.targets[0]
        if isinstance(tg, (ast.Tuple, ast.List)) and len(tg.elts) == 1 and isinstance(tg.elts[0], ast.Name) and filtered_gen(st.value, dtxt):
            return True
        if isinstance(tg, ast.Name) and filtered_gen(st.value, dtxt) and isinstance(st.value, ast.Call):
            return True
        if isinstance(tg, ast.Name) and isinstance(st.value, ast.Call) and isinstance(st.value.func, ast.Attribute) and isinstance(st.value.func.value, ast.Name) \
                and st.value.func.value.id in ("cls", "self") and fi.cls is not None:
            h = prog.lookup_method(fi.cls.qual, st.value.func.attr)
            if h is not None:
                ps = [p_ for p_ in h.params() if p_ not in ("self", "cls")]
                bound = {ps[i]: a_ for i, a_ in enumerate(st.value.args) if i < len(ps)}
                dparam = next((p_ for p_, a_ in bound.items() if unparse(a_) == dtxt), None)
                rets = [x for x in walk_no_nested(h.node) if isinstance(x, ast.Return)]
                if dparam and rets and all(x.value is not None and filtered_gen(x.value, dparam) for x in rets):
                    return True
        return False

    def _caught(self, fi: FuncInfo, node: ast.AST, exc: str) -> bool:
        names = bases_of(self.prog, exc) if exc in self.prog.classes or "." not in exc else [exc.rsplit(".", 1)[-1], exc, "Exception", "BaseException"]
        child = node
        for anc in self.prog.ancestors(node):
            if anc is fi.node:
                break
            if isinstance(anc, ast.Try):
                in_body = any(child is s for s in anc.body)
                if in_body:
                    for h in anc.handlers:
                        hn = handler_names(h)
                        full = [unparse(t) for t in (h.type.elts if isinstance(h.type, ast.Tuple) else [h.type])] if h.type is not None else []
                        if any(x in names for x in hn) or exc in full:
                            return True
            child = anc
        return False

    # ------------------------------------------------------------------ fixed point
    def run(self, roots: list[str]) -> None:
        """Outer iteration over the set of object fields that may keep a document value (found at constructor calls)."""
        self.field_taint = set()
        self.field_key_taint = set()
        for _round in range(4):
            self.new_field_taint: set[tuple[str, str]] = set()
            self.new_field_key_taint = set()
            self.taint = {k: set(v) for k, v in self._entry_taint.items()}
            self._local_taint_cache.clear()
            self.escapes = {}
            self.n_ops = 0
            self._run_once(roots)
            if self.new_field_taint <= self.field_taint and self.new_field_key_taint <= self.field_key_taint:
                break
            self.field_taint |= self.new_field_taint
            self.field_key_taint |= self.new_field_key_taint

    def _run_once(self, roots: list[str]) -> None:
        prog = self.prog
        # 1. propagate taint through calls (worklist)
        work = list(roots)
        seen_pairs: set[tuple[str, str]] = set()
        while work:
            q = work.pop()
            fi = prog.funcs.get(q)
            if fi is None or not self.in_scope(fi):
                continue
            names = self.local_tainted_names(fi)
            for site in self.cg.sites.get(q, []):
                c = site.node
                if not isinstance(c, ast.Call):
                    # property reads and operator dunders: the callee is reached (its raises count), no arguments to track
                    for callee in site.callees:
                        cf = prog.funcs.get(callee)
                        if cf is not None and self.in_scope(cf) and (q, callee) not in seen_pairs:
                            seen_pairs.add((q, callee))
                            work.append(callee)
                    continue
                for callee in site.callees:
                    cf = prog.funcs.get(callee)
                    if cf is None or not self.in_scope(cf):
                        continue
                    params = [p for p in cf.params() if p not in ("self", "cls")]
                    if callee.endswith(("__init__", "__post_init__", "__new__")):
                        cq = callee.rsplit(".", 1)[0]
                        if callee.endswith("__post_init__") or (callee.endswith("__init__") and False):
                            ip = init_params(prog, cq) if cq in prog.classes else []
                            flds = [n_ for n_, _ in ip]
                            real = {n_ for n_, is_f in ip if is_f}
                            extra = [p_ for p_ in cf.params() if p_ != "self"]  # InitVar parameters
                            if extra and any(self.is_tainted(fi, a) for a in list(c.args) + [k.value for k in c.keywords]):
                                if set(extra) - self.taint.get(callee, set()):
                                    self.taint.setdefault(callee, set()).update(extra)
                                    self._local_taint_cache.clear()
                                    work.append(callee)
                            # tainted constructor args become tainted self.<field>: modelled as tainted pseudo-param "self.<field>"
                            newt = set()
                            for i, a in enumerate(c.args):
                                if i < len(flds) and self.arg_tainted_at(fi, a, c):
                                    newt.add("self." + flds[i])
                            for kw in c.keywords:
                                if kw.arg and self.arg_tainted_at(fi, kw.value, c):
                                    newt.add("self." + kw.arg)
                            # **kwargs built by a helper that returns a dict display (from_dict_common_params): key → field
                            for kw in c.keywords:
                                if kw.arg is None and isinstance(kw.value, ast.Name):
                                    for kname, vexpr, hfi, hret in self._kwargs_sources(fi, kw.value.id):
                                        if kname in real and self.arg_tainted_at(hfi, vexpr, hret):
                                            newt.add("self." + kname)
                            keyonly = set()
                            for kw in c.keywords:
                                if kw.arg and isinstance(kw.value, ast.DictComp):
                                    keyonly.add("self." + kw.arg)
                            for nm in newt:
                                if nm[5:] in real:
                                    if nm in keyonly:
                                        self.new_field_key_taint.add((cq, nm[5:]))
                                    else:
                                        self.new_field_taint.add((cq, nm[5:]))
                            newt -= keyonly
                            if newt - self.taint.get(callee, set()):
                                self.taint.setdefault(callee, set()).update(newt)
                                self._local_taint_cache.clear()
                                work.append(callee)
                            elif (q, callee) not in seen_pairs:
                                seen_pairs.add((q, callee))
                                work.append(callee)
                            continue
                    newt = set()
                    for i, a in enumerate(c.args):
                        if i < len(params) and self.is_tainted(fi, a):
                            newt.add(params[i])
                    for kw in c.keywords:
                        if kw.arg in params and self.is_tainted(fi, kw.value):
                            newt.add(kw.arg)
                    if newt - self.taint.get(callee, set()):
                        self.taint.setdefault(callee, set()).update(newt)
                        self._local_taint_cache.clear()
                        work.append(callee)
                    elif (q, callee) not in seen_pairs:
                        seen_pairs.add((q, callee))
                        work.append(callee)
        self.reached = sorted({q for q, _ in seen_pairs} | {c for _, c in seen_pairs} | set(roots))
        # 1b. parameters narrowed at *every* call site that passes document data are narrowed in the callee
        for _ in range(4):
            obs: dict[str, dict[str, list[Optional[str]]]] = {}
            for q in self.reached:
                fi = prog.funcs.get(q)
                if fi is None or not self.in_scope(fi):
                    continue
                for site in self.cg.sites.get(q, []):
                    c = site.node
                    if not isinstance(c, ast.Call):
                        continue
                    for callee in site.callees:
                        cf = prog.funcs.get(callee)
                        if cf is None or not self.in_scope(cf) or callee.endswith(("__init__", "__post_init__", "__new__")):
                            continue
                        params = [p for p in cf.params() if p not in ("self", "cls")]
                        pairs = [(params[i], a) for i, a in enumerate(c.args) if i < len(params)] + [(kw.arg, kw.value) for kw in c.keywords if kw.arg in params]
                        for pname, a in pairs:
                            if pname in self.taint.get(callee, ()):
                                if self.is_tainted(fi, a):
                                    obs.setdefault(callee, {}).setdefault(pname, []).append(self.narrowed(fi, a, c))
            new_assume: dict[str, dict[str, Optional[str]]] = {}
            for callee, ps in obs.items():
                for pname, ns in ps.items():
                    if ns and all(n is not None for n in ns):
                        kinds = {"dict" if "dict" in n else ("list" if "list" in n else ("str" if "str" in n else n)) for n in ns}  # type: ignore[operator]
                        if len(kinds) == 1:
                            new_assume.setdefault(callee, {})[pname] = kinds.pop()
            for q0, ps0 in self.assume_mapping.items():
                pass
            if new_assume == self.param_assume:
                break
            self.param_assume = new_assume
        # 2. local facts
        local: dict[str, dict[tuple, Esc]] = {}
        for q in self.reached:
            fi = prog.funcs.get(q)
            if fi is None or not self.in_scope(fi):
                continue
            d: dict[tuple, Esc] = {}
            from .raises import explicit_raises
            for node, cls, h in explicit_raises(prog, fi):
                if cls is None or h is not None:
                    continue
                coll = any(g == "collect_errors" and pol is False for g, pol in atomic_guards(guards_at(prog, fi, node)))
                e = Esc(cls, q, " ".join(unparse(node).split())[:140], f"{fi.module.relpath}:{node.lineno}", "explicit raise", collecting_only=False)
                e.strict_only = coll  # type: ignore[attr-defined]
                d[e.key()] = e
            seen_roots: set[tuple[str, str]] = set()
            for node, excs, root, desc in self._implicit(fi):
                for ex in excs:
                    if self._caught(fi, node, ex):
                        continue
                    if (root, ex) in seen_roots:
                        continue
                    seen_roots.add((root, ex))
                    e = Esc(ex, q, f"{desc} [{ex}]", f"{fi.module.relpath}:{node.lineno}", desc)
                    e.strict_only = False  # type: ignore[attr-defined]
                    d[e.key()] = e
            local[q] = d
        # 3. propagate through calls
        self.escapes = {q: dict(v) for q, v in local.items()}
        changed = True
        it = 0
        while changed and it < 50:
            changed = False
            it += 1
            for q in self.reached:
                fi = prog.funcs.get(q)
                if fi is None or q not in self.escapes:
                    continue
                for site in self.cg.sites.get(q, []):
                    for callee in site.callees:
                        for k, e in list(self.escapes.get(callee, {}).items()):
                            if k in self.escapes[q]:
                                continue
                            if self._caught(fi, site.node, e.exc):
                                continue
                            kp = getattr(self, "_keyerr_params", {}).get((callee, e.why)) if e.exc == "KeyError" and e.origin_fn == callee else None
                            if kp is not None and isinstance(site.node, ast.Call):
                                cf_ = prog.funcs.get(callee)
                                ps_ = [p_ for p_ in cf_.params() if p_ not in ("self", "cls")] if cf_ is not None else []
                                bound_ = {ps_[i]: a_ for i, a_ in enumerate(site.node.args) if i < len(ps_)}
                                bound_.update({k_.arg: k_.value for k_ in site.node.keywords if k_.arg})
                                if kp[0] in bound_ and kp[1] in bound_ and self._member_of(fi, bound_[kp[1]], bound_[kp[0]], site.node):
                                    continue  # the key was drawn from the keys of this very map
                            ne = Esc(e.exc, e.origin_fn, e.origin, e.loc, e.why, (q,) + e.path)
                            ne.strict_only = getattr(e, "strict_only", False)  # type: ignore[attr-defined]
                            self.escapes[q][k] = ne
                            changed = True
