"""Type and name resolution through mypy (used as a library; it is a pinned dev dependency of
the repository and lives in /venv).  ast nodes are joined to mypy expressions by source span."""
from __future__ import annotations

import ast
import os
import sys
import time
from typing import Any, Iterable, Optional

from .prog import AnalysisError, Program, ModuleInfo

_SKIP_ATTRS = {
    "node", "info", "type", "unanalyzed_type", "original_def", "impl", "def_node", "var",
    "type_annotation", "analyzed", "partial_fallback", "defn", "mro", "names", "imports",
    "alias_tvars", "target", "type_guard", "type_is", "ret_type", "arg_types", "definition",
    "func_def", "special_sig", "callee_type", "unanalyzed_items", "type_args",
}


class Types:
    def __init__(self, prog: Program):
        self.prog = prog
        t0 = time.time()
        try:
            from mypy import build
            from mypy.main import process_options
            import mypy.nodes as N
            import mypy.types as T
        except ImportError as e:  # pragma: no cover
            raise AnalysisError(f"mypy not importable in this interpreter: {e}")
        self.N, self.T = N, T
        cwd = os.getcwd()
        os.chdir(prog.repo)
        try:
            srcs, opts = process_options(
                ["-p", "sigma", "--no-incremental", "--cache-dir", os.devnull, "--strict",
                 "--no-error-summary", "--no-warn-unused-ignores"]
            )
            opts.preserve_asts = True
            opts.export_types = True
            opts.incremental = False
            old_stdout, old_stderr = sys.stdout, sys.stderr
            try:
                res = build.build(srcs, opts)
            finally:
                sys.stdout, sys.stderr = old_stdout, old_stderr
        except SystemExit as e:
            raise AnalysisError(f"mypy build failed: {e}")
        finally:
            os.chdir(cwd)
        self.res = res
        self.errors = list(res.errors)
        self.types = res.types
        self.build_s = time.time() - t0
        # span index per module
        self._idx: dict[str, dict[tuple[int, int, int, int], list[Any]]] = {}
        self._funcdefs: dict[str, Any] = {}
        self.n_exprs = 0
        for name, mf in res.files.items():
            if name == "sigma" or name.startswith("sigma."):
                self._index_file(name, mf)

    # ------------------------------------------------------------------ indexing
    def _index_file(self, modname: str, mf: Any) -> None:
        N = self.N
        idx: dict[tuple[int, int, int, int], list[Any]] = {}
        seen: set[int] = set()
        stack: list[Any] = [mf]
        while stack:
            n = stack.pop()
            if id(n) in seen:
                continue
            seen.add(id(n))
            if isinstance(n, N.Expression):
                if n.end_line is not None:
                    idx.setdefault((n.line, n.column, n.end_line, n.end_column), []).append(n)
                    self.n_exprs += 1
            if isinstance(n, N.FuncDef):
                self._funcdefs[n.fullname] = n
            for a in dir(type(n)):
                if a.startswith("_") or a in _SKIP_ATTRS:
                    continue
                try:
                    v = getattr(n, a)
                except Exception:
                    continue
                if callable(v) and not isinstance(v, N.Node):
                    continue
                self._push(v, stack)
        self._idx[modname] = idx

    def _push(self, v: Any, stack: list[Any]) -> None:
        N = self.N
        if isinstance(v, N.Node):
            if isinstance(v, (N.Var, N.TypeInfo, N.TypeAlias, N.MypyFile, N.TypeVarLikeExpr)):
                return
            stack.append(v)
        elif isinstance(v, (list, tuple)):
            for x in v:
                self._push(x, stack)

    # ------------------------------------------------------------------ lookup
    def _find(self, m: ModuleInfo, node: ast.AST) -> list[Any]:
        idx = self._idx.get(m.name)
        if idx is None:
            return []
        key = (node.lineno, node.col_offset, node.end_lineno, node.end_col_offset)
        found = idx.get(key)
        if not found and node.col_offset > 0:
            # expressions inside an f-string: mypy records the start column one to the left of ast's (the '{')
            found = idx.get((node.lineno, node.col_offset - 1, node.end_lineno, node.end_col_offset))
        return found or []

    _KIND = {
        ast.Call: "CallExpr", ast.Name: "NameExpr", ast.Attribute: "MemberExpr",
        ast.Subscript: "IndexExpr", ast.Constant: None, ast.BinOp: "OpExpr",
        ast.Compare: "ComparisonExpr",
    }

    def expr(self, m: ModuleInfo, node: ast.AST) -> Optional[Any]:
        cands = self._find(m, node)
        if not cands:
            return None
        want = self._KIND.get(type(node))
        if want:
            for c in cands:
                if type(c).__name__ == want:
                    return c
        # prefer candidates that have a type
        for c in cands:
            if c in self.types:
                return c
        return cands[0]

    def type_of(self, m: ModuleInfo, node: ast.AST) -> Optional[Any]:
        e = self.expr(m, node)
        if e is None:
            return None
        return self.types.get(e)

    def type_str(self, m: ModuleInfo, node: ast.AST) -> Optional[str]:
        t = self.type_of(m, node)
        return None if t is None else str(t)

    def instances(self, t: Any) -> list[Any]:
        """Flatten a mypy type into its Instance/TypeType components."""
        T = self.T
        t = T.get_proper_type(t)
        out: list[Any] = []
        if isinstance(t, T.UnionType):
            for it in t.items:
                out += self.instances(it)
        elif isinstance(t, T.Instance):
            out.append(t)
        elif isinstance(t, T.TypeType):
            out += self.instances(t.item)
        elif isinstance(t, T.TypeVarType):
            out += self.instances(t.upper_bound)
        elif isinstance(t, T.TupleType):
            out += self.instances(t.partial_fallback)
        elif isinstance(t, T.CallableType) and t.is_type_obj():
            out += self.instances(t.ret_type)
        elif isinstance(t, T.LiteralType):
            out += self.instances(t.fallback)
        return out

    def class_names(self, m: ModuleInfo, node: ast.AST) -> list[str]:
        t = self.type_of(m, node)
        if t is None:
            return []
        return [i.type.fullname for i in self.instances(t)]

    def is_any(self, m: ModuleInfo, node: ast.AST) -> Optional[bool]:
        t = self.type_of(m, node)
        if t is None:
            return None
        return isinstance(self.T.get_proper_type(t), self.T.AnyType)

    def is_set_type(self, m: ModuleInfo, node: ast.AST) -> Optional[bool]:
        t = self.type_of(m, node)
        if t is None:
            return None
        names = [i.type.fullname for i in self.instances(t)]
        return any(n in ("builtins.set", "builtins.frozenset", "typing.AbstractSet", "typing.Set",
                         "typing.FrozenSet", "typing.MutableSet") for n in names)

    # ------------------------------------------------------------------ calls
    def callee_fullnames(self, m: ModuleInfo, call: ast.Call) -> list[str]:
        """Fully qualified names of the statically resolved callee(s); [] when unresolved."""
        N, T = self.N, self.T
        e = self.expr(m, call)
        if e is None or not isinstance(e, N.CallExpr):
            return []
        c = e.callee
        out: list[str] = []
        if isinstance(c, N.NameExpr):
            if c.fullname:
                out.append(c.fullname)
        elif isinstance(c, N.MemberExpr):
            if c.fullname:  # module attribute
                out.append(c.fullname)
            else:
                rt = self.types.get(c.expr)
                if rt is not None:
                    for inst in self.instances(rt):
                        fn = self._lookup(inst.type, c.name)
                        if fn:
                            out.append(fn)
        elif isinstance(c, N.SuperExpr):
            if c.info is not None:
                for base in c.info.mro[1:]:
                    if c.name in base.names:
                        out.append(f"{base.fullname}.{c.name}")
                        break
        return out

    def _lookup(self, info: Any, name: str) -> Optional[str]:
        for base in info.mro:
            if name in base.names:
                return f"{base.fullname}.{name}"
        return None

    def receiver_classes(self, m: ModuleInfo, attr: ast.Attribute) -> list[str]:
        return self.class_names(m, attr.value)
