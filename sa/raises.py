"""Explicit-raise facts (DESIGN §1 E5, explicit half): which exception classes a function raises
itself, minus what its own enclosing handlers catch."""
from __future__ import annotations

import ast
from typing import Optional

from .prog import FuncInfo, Program, call_name, unparse, walk_no_nested

SIGMA_ERROR = "sigma.exceptions.SigmaError"

BUILTIN_BASES = {
    "KeyError": ["LookupError", "Exception"], "IndexError": ["LookupError", "Exception"],
    "ValueError": ["Exception"], "TypeError": ["Exception"], "AttributeError": ["Exception"],
    "NotImplementedError": ["RuntimeError", "Exception"], "RuntimeError": ["Exception"],
    "UnicodeDecodeError": ["UnicodeError", "ValueError", "Exception"], "UnicodeEncodeError": ["UnicodeError", "ValueError", "Exception"],
    "UnicodeError": ["ValueError", "Exception"], "OverflowError": ["ArithmeticError", "Exception"], "RecursionError": ["RuntimeError", "Exception"],
    "OSError": ["Exception"],
    "FileNotFoundError": ["OSError", "Exception"], "StopIteration": ["Exception"],
    "AssertionError": ["Exception"], "LookupError": ["Exception"], "Exception": [],
    "UnboundLocalError": ["NameError", "Exception"], "NameError": ["Exception"],
    "ZeroDivisionError": ["ArithmeticError", "Exception"],
}


def exc_class_of(prog: Program, fi: FuncInfo, e: Optional[ast.AST]) -> Optional[str]:
    """Qualified (sigma) or bare (builtin) class name of a raised expression; None if unknown
    (re-raise of a caught object, computed class)."""
    if e is None:
        return None
    if isinstance(e, ast.Call):
        e = e.func
    if isinstance(e, (ast.Name, ast.Attribute)):
        q = prog.resolve_expr(fi.module, e)
        if q and q in prog.classes:
            return q
        if isinstance(e, ast.Name):
            if e.id in BUILTIN_BASES or e.id.endswith(("Error", "Exception")):
                # local variable holding an exception instance?
                return e.id if e.id[0].isupper() else None
        return None
    return None


def is_sigma_error(prog: Program, cls: str) -> bool:
    if cls in prog.classes:
        return SIGMA_ERROR in prog.mro(cls)
    return False


def bases_of(prog: Program, cls: str) -> list[str]:
    """Names (bare) of all base classes incl. itself, for matching except clauses."""
    out = [cls.rsplit(".", 1)[-1]]
    if cls in prog.classes:
        for q in prog.mro(cls)[1:]:
            out.append(q.rsplit(".", 1)[-1])
            if q not in prog.classes:
                out += BUILTIN_BASES.get(q.rsplit(".", 1)[-1], [])
    else:
        out += BUILTIN_BASES.get(cls, ["Exception"])
    if "Exception" not in out:
        out.append("Exception")
    out.append("BaseException")
    return out


def handler_names(h: ast.ExceptHandler) -> list[str]:
    if h.type is None:
        return ["BaseException"]
    ts = h.type.elts if isinstance(h.type, ast.Tuple) else [h.type]
    return [unparse(t).rsplit(".", 1)[-1] for t in ts]


def caught_locally(prog: Program, fi: FuncInfo, node: ast.AST, cls: str) -> Optional[ast.ExceptHandler]:
    """The handler inside fi that catches an exception of class cls raised at node, if any."""
    names = bases_of(prog, cls)
    child = node
    for anc in prog.ancestors(node):
        if anc is fi.node:
            break
        if isinstance(anc, ast.Try):
            in_body = any(child is s for s in anc.body)
            if in_body:
                for h in anc.handlers:
                    if any(n in names for n in handler_names(h)):
                        return h
        child = anc
    return None


def explicit_raises(prog: Program, fi: FuncInfo) -> list[tuple[ast.Raise, Optional[str], Optional[ast.ExceptHandler]]]:
    out = []
    for n in walk_no_nested(fi.node):
        if isinstance(n, ast.Raise):
            cls = exc_class_of(prog, fi, n.exc)
            h = caught_locally(prog, fi, n, cls) if cls else None
            out.append((n, cls, h))
    return out
