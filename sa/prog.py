"""Program model of /repo/sigma built from the stdlib ``ast`` only.

Everything a rule asks for is resolved here by *qualified name*; a name that no longer exists
raises AnalysisError (exit 2), never a silent pass.
"""
from __future__ import annotations

import ast
import hashlib
import os
from dataclasses import dataclass, field
from typing import Iterator, Optional

REPO = os.environ.get("VERIF_REPO", "/repo")
PKG = "sigma"


class AnalysisError(Exception):
    """The analysis cannot be carried out (anchor vanished, shape not recognised)."""


@dataclass
class ModuleInfo:
    name: str
    path: str
    src: str
    tree: ast.Module
    imports: dict[str, str] = field(default_factory=dict)  # local name -> qualified name
    classes: dict[str, "ClassInfo"] = field(default_factory=dict)
    funcs: dict[str, "FuncInfo"] = field(default_factory=dict)
    assigns: dict[str, list[ast.stmt]] = field(default_factory=dict)  # module-level name -> stmts

    @property
    def relpath(self) -> str:
        return os.path.relpath(self.path, REPO)


@dataclass
class ClassInfo:
    qual: str
    name: str
    module: ModuleInfo
    node: ast.ClassDef
    bases: list[str] = field(default_factory=list)  # qualified where resolvable
    methods: dict[str, "FuncInfo"] = field(default_factory=dict)
    assigns: dict[str, list[ast.stmt]] = field(default_factory=dict)  # class-level name -> stmts
    decorators: list[str] = field(default_factory=list)

    @property
    def is_dataclass(self) -> bool:
        return any(d.split("(")[0].split(".")[-1] == "dataclass" for d in self.decorators)


@dataclass
class FuncInfo:
    qual: str
    name: str
    module: ModuleInfo
    node: ast.FunctionDef
    cls: Optional[ClassInfo] = None
    decorators: list[str] = field(default_factory=list)

    @property
    def loc(self) -> str:
        return f"{self.module.relpath}:{self.node.lineno}"

    def params(self) -> list[str]:
        a = self.node.args
        return [x.arg for x in a.posonlyargs + a.args + a.kwonlyargs] + (
            [a.vararg.arg] if a.vararg else []
        ) + ([a.kwarg.arg] if a.kwarg else [])


def unparse(node: ast.AST) -> str:
    """Normalised text of a node (identity of a construct; independent of layout)."""
    try:
        return ast.unparse(node)
    except Exception:  # pragma: no cover
        return ast.dump(node)


def short(node: ast.AST, n: int = 160) -> str:
    s = " ".join(unparse(node).split())
    return s if len(s) <= n else s[: n - 3] + "..."


def stmt_head(node: ast.AST, n: int = 160) -> str:
    """Normalised first line of a statement (compound statements: header only)."""
    if isinstance(node, (ast.If, ast.While)):
        s = ("if " if isinstance(node, ast.If) else "while ") + unparse(node.test)
    elif isinstance(node, ast.For):
        s = f"for {unparse(node.target)} in {unparse(node.iter)}"
    elif isinstance(node, ast.With):
        s = "with " + ", ".join(unparse(i) for i in node.items)
    elif isinstance(node, ast.Try):
        s = "try"
    elif isinstance(node, ast.Match):
        s = "match " + unparse(node.subject)
    elif isinstance(node, (ast.FunctionDef, ast.AsyncFunctionDef, ast.ClassDef)):
        s = ("class " if isinstance(node, ast.ClassDef) else "def ") + node.name
    else:
        s = unparse(node)
    s = " ".join(s.split())
    return s if len(s) <= n else s[: n - 3] + "..."


class Program:
    def __init__(self, repo: str = REPO):
        self.repo = repo
        self.modules: dict[str, ModuleInfo] = {}
        self.classes: dict[str, ClassInfo] = {}
        self.funcs: dict[str, FuncInfo] = {}
        self._parents: dict[int, ast.AST] = {}
        self._owner: dict[int, FuncInfo] = {}
        self._load()
        self._subs: dict[str, set[str]] = {}
        for c in self.classes.values():
            for b in c.bases:
                self._subs.setdefault(b, set()).add(c.qual)

    # ---------------------------------------------------------------- loading
    def _load(self) -> None:
        root = os.path.join(self.repo, PKG)
        if not os.path.isdir(root):
            raise AnalysisError(f"{root} not found")
        h = hashlib.sha256()
        for dirpath, dirnames, filenames in os.walk(root):
            dirnames[:] = sorted(d for d in dirnames if d != "__pycache__")
            for fn in sorted(filenames):
                if not fn.endswith(".py"):
                    continue
                path = os.path.join(dirpath, fn)
                rel = os.path.relpath(path, self.repo)[:-3].replace(os.sep, ".")
                if rel.endswith(".__init__"):
                    rel = rel[: -len(".__init__")]
                with open(path, encoding="utf-8") as f:
                    src = f.read()
                h.update(path.encode())
                h.update(src.encode())
                try:
                    tree = ast.parse(src, filename=path)
                except SyntaxError as e:
                    raise AnalysisError(f"syntax error in {path}: {e}")
                m = ModuleInfo(rel, path, src, tree)
                self.modules[rel] = m
        self.digest = h.hexdigest()
        for m in self.modules.values():
            self._index_module(m)
        # resolve bases (second pass, needs all imports)
        for c in self.classes.values():
            c.bases = [self.resolve_expr(c.module, b) or unparse(b) for b in c.node.bases]

    def _index_module(self, m: ModuleInfo) -> None:
        is_pkg = m.path.endswith("__init__.py")
        for node in ast.walk(m.tree):
            for ch in ast.iter_child_nodes(node):
                self._parents[id(ch)] = node
        for node in ast.walk(m.tree):
            if isinstance(node, ast.Import):
                for a in node.names:
                    m.imports.setdefault((a.asname or a.name).split(".")[0] if not a.asname else a.asname,
                                         a.name if a.asname else a.name.split(".")[0])
            elif isinstance(node, ast.ImportFrom):
                base = node.module or ""
                if node.level:
                    parts = m.name.split(".")
                    if not is_pkg:
                        parts = parts[:-1]
                    parts = parts[: len(parts) - (node.level - 1)]
                    base = ".".join(parts + ([node.module] if node.module else []))
                for a in node.names:
                    m.imports.setdefault(a.asname or a.name, f"{base}.{a.name}")

        def visit(body: list[ast.stmt], prefix: str, cls: Optional[ClassInfo]) -> None:
            for st in body:
                if isinstance(st, (ast.FunctionDef, ast.AsyncFunctionDef)):
                    fi = FuncInfo(f"{prefix}.{st.name}", st.name, m, st, cls,
                                  [unparse(d) for d in st.decorator_list])
                    # overloads / property setters: keep the last plain definition, remember all
                    self.funcs[fi.qual] = fi
                    if cls is not None:
                        cls.methods[st.name] = fi
                    else:
                        m.funcs[st.name] = fi
                    for sub in ast.walk(st):
                        self._owner[id(sub)] = fi
                    # nested defs are indexed under the enclosing function's qualname
                    visit([s for s in ast.walk(st) if isinstance(s, (ast.FunctionDef, ast.AsyncFunctionDef)) and s is not st and self._parents.get(id(s)) is not None and self._nearest_def(s) is st],
                          fi.qual + ".<locals>", None)
                elif isinstance(st, ast.ClassDef):
                    ci = ClassInfo(f"{prefix}.{st.name}", st.name, m, st,
                                   decorators=[unparse(d) for d in st.decorator_list])
                    self.classes[ci.qual] = ci
                    if cls is None and prefix == m.name:
                        m.classes[st.name] = ci
                    visit(st.body, ci.qual, ci)
                elif isinstance(st, (ast.Assign, ast.AnnAssign, ast.AugAssign)):
                    targets = st.targets if isinstance(st, ast.Assign) else [st.target]
                    for t in targets:
                        for n in ast.walk(t):
                            if isinstance(n, ast.Name):
                                (cls.assigns if cls is not None else m.assigns).setdefault(n.id, []).append(st)
                elif isinstance(st, (ast.If, ast.Try)) and cls is None:
                    # module-level conditional definitions (TYPE_CHECKING, try/except imports)
                    for sub in (st.body + st.orelse + (getattr(st, "finalbody", []) or [])):
                        visit([sub], prefix, cls)
                    for hnd in getattr(st, "handlers", []):
                        visit(hnd.body, prefix, cls)

        visit(m.tree.body, m.name, None)

    def _nearest_def(self, node: ast.AST) -> Optional[ast.AST]:
        p = self._parents.get(id(node))
        while p is not None and not isinstance(p, (ast.FunctionDef, ast.AsyncFunctionDef, ast.ClassDef)):
            p = self._parents.get(id(p))
        return p

    # ---------------------------------------------------------------- lookup
    def module(self, name: str) -> ModuleInfo:
        if name not in self.modules:
            raise AnalysisError(f"anchor vanished: module {name}")
        return self.modules[name]

    def cls(self, qual: str) -> ClassInfo:
        if qual not in self.classes:
            raise AnalysisError(f"anchor vanished: class {qual}")
        return self.classes[qual]

    def func(self, qual: str) -> FuncInfo:
        if qual not in self.funcs:
            raise AnalysisError(f"anchor vanished: function {qual}")
        return self.funcs[qual]

    def has_func(self, qual: str) -> bool:
        return qual in self.funcs

    def parent(self, node: ast.AST) -> Optional[ast.AST]:
        return self._parents.get(id(node))

    def owner(self, node: ast.AST) -> Optional[FuncInfo]:
        return self._owner.get(id(node))

    def ancestors(self, node: ast.AST) -> Iterator[ast.AST]:
        p = self._parents.get(id(node))
        while p is not None:
            yield p
            p = self._parents.get(id(p))

    def enclosing_stmt(self, node: ast.AST) -> ast.AST:
        cur = node
        while not isinstance(cur, ast.stmt):
            cur = self._parents[id(cur)]
        return cur

    def resolve_name(self, m: ModuleInfo, name: str) -> Optional[str]:
        """Qualified name a bare name refers to at module scope of m."""
        if name in m.classes:
            return m.classes[name].qual
        if name in m.funcs:
            return m.funcs[name].qual
        if name in m.imports:
            q = m.imports[name]
            return self._canon(q)
        if name in m.assigns:
            return f"{m.name}.{name}"
        return None

    def _canon(self, q: str, depth: int = 0) -> str:
        """Follow re-exports (sigma.rule.SigmaRule -> sigma.rule.rule.SigmaRule)."""
        if q in self.classes or q in self.funcs or q in self.modules or depth > 5:
            return q
        mod, _, attr = q.rpartition(".")
        if mod in self.modules:
            mm = self.modules[mod]
            if attr in mm.imports:
                return self._canon(mm.imports[attr], depth + 1)
        return q

    def resolve_expr(self, m: ModuleInfo, e: ast.AST) -> Optional[str]:
        if isinstance(e, ast.Name):
            return self.resolve_name(m, e.id)
        if isinstance(e, ast.Attribute):
            base = self.resolve_expr(m, e.value)
            if base is None:
                return None
            return self._canon(f"{base}.{e.attr}")
        if isinstance(e, ast.Subscript):  # Generic[...] bases
            return self.resolve_expr(m, e.value)
        if isinstance(e, ast.Constant) and isinstance(e.value, str):
            return self.resolve_name(m, e.value)
        return None

    # ---------------------------------------------------------------- hierarchy
    def mro(self, qual: str) -> list[str]:
        """C3-free approximation: depth-first, left-to-right, duplicates removed keeping the last
        occurrence (sufficient for the single/mixin inheritance in this repository)."""
        seen: list[str] = []

        def rec(q: str) -> None:
            seen.append(q)
            c = self.classes.get(q)
            if c:
                for b in c.bases:
                    rec(b)

        rec(qual)
        out: list[str] = []
        for q in reversed(seen):
            if q not in out:
                out.append(q)
        out.reverse()
        # keep first element first
        if out and out[0] != qual:
            out.remove(qual)
            out.insert(0, qual)
        return out

    def is_subclass(self, qual: str, base: str) -> bool:
        return base in self.mro(qual)

    def subclasses(self, qual: str, strict: bool = False) -> list[str]:
        out: list[str] = [] if strict else [qual]
        stack = [qual]
        seen = {qual}
        while stack:
            q = stack.pop()
            for s in sorted(self._subs.get(q, ())):
                if s not in seen:
                    seen.add(s)
                    out.append(s)
                    stack.append(s)
        return out

    def lookup_method(self, cls_qual: str, name: str) -> Optional[FuncInfo]:
        for q in self.mro(cls_qual):
            c = self.classes.get(q)
            if c and name in c.methods:
                return c.methods[name]
        return None

    def lookup_class_attr(self, cls_qual: str, name: str) -> Optional[tuple[ClassInfo, ast.stmt]]:
        for q in self.mro(cls_qual):
            c = self.classes.get(q)
            if c and name in c.assigns:
                return c, c.assigns[name][-1]
        return None

    def all_class_attrs(self, cls_qual: str) -> dict[str, tuple[ClassInfo, ast.stmt]]:
        out: dict[str, tuple[ClassInfo, ast.stmt]] = {}
        for q in reversed(self.mro(cls_qual)):
            c = self.classes.get(q)
            if c:
                for k, v in c.assigns.items():
                    out[k] = (c, v[-1])
        return out

    def is_abstract(self, qual: str) -> bool:
        c = self.classes.get(qual)
        if not c:
            return False
        if any(b in ("abc.ABC", "ABC") for b in c.bases):
            return True
        for q in self.mro(qual):
            cc = self.classes.get(q)
            if not cc:
                continue
            for name, f in cc.methods.items():
                if any(d.endswith("abstractmethod") for d in f.decorators):
                    impl = self.lookup_method(qual, name)
                    if impl is f:
                        return True
        return False

    # ---------------------------------------------------------------- iteration helpers
    def functions_in(self, *module_prefixes: str) -> list[FuncInfo]:
        return [f for q, f in sorted(self.funcs.items())
                if any(f.module.name == p or f.module.name.startswith(p + ".") for p in module_prefixes)]

    def dataclass_fields(self, qual: str) -> dict[str, ast.AnnAssign]:
        """Annotated class-level names over the MRO (ClassVar excluded)."""
        out: dict[str, ast.AnnAssign] = {}
        for q in reversed(self.mro(qual)):
            c = self.classes.get(q)
            if not c:
                continue
            for st in c.node.body:
                if isinstance(st, ast.AnnAssign) and isinstance(st.target, ast.Name):
                    if "ClassVar" in unparse(st.annotation):
                        continue
                    out[st.target.id] = st
        return out


def init_params(prog: "Program", qual: str) -> list[tuple[str, bool]]:
    """Positional parameters of the dataclass-generated __init__ of ``qual``: (name, is_real_field) — fields declared with
    field(init=False) are left out, InitVar pseudo-fields are parameters but not fields."""
    out = []
    for name, st in prog.dataclass_fields(qual).items():
        v = st.value
        if isinstance(v, ast.Call) and call_name(v).split(".")[-1] == "field" and any(
                k.arg == "init" and isinstance(k.value, ast.Constant) and k.value.value is False for k in v.keywords):
            continue
        out.append((name, "InitVar" not in unparse(st.annotation)))
    return out


def calls_in(node: ast.AST) -> list[ast.Call]:
    return [n for n in ast.walk(node) if isinstance(n, ast.Call)]


def call_name(c: ast.Call) -> str:
    """Dotted text of the callee (``self.foo.bar``), '' when not a plain name chain."""
    return dotted(c.func)


def dotted(e: ast.AST) -> str:
    parts: list[str] = []
    while isinstance(e, ast.Attribute):
        parts.append(e.attr)
        e = e.value
    if isinstance(e, ast.Name):
        parts.append(e.id)
        return ".".join(reversed(parts))
    if isinstance(e, ast.Call) and isinstance(e.func, ast.Name) and e.func.id == "super":
        parts.append("super()")
        return ".".join(reversed(parts))
    return ""


def walk_no_nested(node: ast.AST) -> Iterator[ast.AST]:
    """ast.walk that does not descend into nested function/class definitions or lambdas."""
    stack = [node]
    first = True
    while stack:
        n = stack.pop()
        if not first and isinstance(n, (ast.FunctionDef, ast.AsyncFunctionDef, ast.ClassDef, ast.Lambda)):
            continue
        first = False
        yield n
        stack.extend(reversed(list(ast.iter_child_nodes(n))))
