"""Abstract model of the pyparsing elements pySigma's grammars are made of.

The grammar definitions (module-level statements of sigma/conditions.py, function bodies elsewhere) are *interpreted*
(sa.tabulate) with these recording stand-ins in place of the pyparsing constructors: the result is the grammar as a data
structure — alphabets, keyword word characters, alternatives in order, operator levels with arity/associativity/action —
whatever the statements look like that build it (method chaining, helper functions, a table bound to a name).  Nothing of
pyparsing runs and nothing is parsed.
"""
from __future__ import annotations

import ast
import string
import types
from typing import Any, Iterable, Optional

from .prog import AnalysisError, unparse

DEFAULT_KEYWORD_CHARS = string.ascii_letters + string.digits + "_$"


class G:
    """One grammar element."""

    def __init__(self, kind: str, **kw: Any):
        self.kind = kind
        self.action: Any = None
        self.name: Optional[str] = None
        self.__dict__.update(kw)

    # composition ------------------------------------------------------------------------------
    def _seq(self, kind: str, a: "G", b: "G") -> "G":
        parts = (list(a.parts) if a.kind == kind and a.action is None else [a]) + (list(b.parts) if b.kind == kind and b.action is None else [b])
        return G(kind, parts=parts)

    def __add__(self, o: Any) -> "G":
        return self._seq("And", self, lift(o))

    def __radd__(self, o: Any) -> "G":
        return self._seq("And", lift(o), self)

    def __or__(self, o: Any) -> "G":
        return self._seq("MatchFirst", self, lift(o))

    def __ror__(self, o: Any) -> "G":
        return self._seq("MatchFirst", lift(o), self)

    def __xor__(self, o: Any) -> "G":
        return self._seq("Or", self, lift(o))

    def __rxor__(self, o: Any) -> "G":
        return self._seq("Or", lift(o), self)

    def __invert__(self) -> "G":
        return G("NotAny", expr=self)

    # the methods the grammars use; each returns the element itself like pyparsing does
    def set_parse_action(self, *fns: Any, **kw: Any) -> "G":
        self.action = fns[0] if len(fns) == 1 else (tuple(fns) if fns else None)
        return self

    setParseAction = set_parse_action

    def add_parse_action(self, *fns: Any, **kw: Any) -> "G":
        self.action = (self.action, *fns) if self.action is not None else (fns[0] if len(fns) == 1 else tuple(fns))
        return self

    addParseAction = add_parse_action

    def set_name(self, n: str) -> "G":
        self.name = n
        return self

    setName = set_name

    def set_results_name(self, n: str, *a: Any, **k: Any) -> "G":
        return self

    setResultsName = set_results_name
    __call__ = set_results_name

    def suppress(self) -> "G":
        return G("Suppress", expr=self)

    def copy(self) -> "G":
        g = G(self.kind)
        g.__dict__.update(self.__dict__)
        return g

    def parse_string(self, text: Any = "", parse_all: bool = False, **k: Any) -> list:
        """Recorded, nothing is parsed: the result is an opaque token list."""
        self.__dict__.setdefault("parse_calls", []).append(bool(parse_all or k.get("parseAll", False)))
        return [G("parse result", of=self)]

    parseString = parse_string

    def leave_whitespace(self, *a: Any, **k: Any) -> "G":
        return self

    def __ilshift__(self, o: Any) -> "G":  # Forward <<= expr
        self.expr = lift(o)
        return self

    __lshift__ = __ilshift__

    def walk(self) -> Iterable["G"]:
        seen: set[int] = set()
        stack = [self]
        while stack:
            g = stack.pop()
            if id(g) in seen:
                continue
            seen.add(id(g))
            yield g
            for v in g.__dict__.values():
                if isinstance(v, G):
                    stack.append(v)
                elif isinstance(v, (list, tuple)):
                    for x in v:
                        if isinstance(x, G):
                            stack.append(x)
                        elif isinstance(x, tuple):
                            stack.extend(y for y in x if isinstance(y, G))

    def __repr__(self) -> str:
        if self.kind in ("Keyword", "Literal", "CaselessKeyword", "CaselessLiteral"):
            return f"{self.kind}({self.match!r})"
        if self.kind == "Word":
            return f"Word(<{len(set(self.alphabet))} chars>)"
        if self.kind in ("And", "MatchFirst", "Or"):
            return f"{self.kind}{self.parts!r}"
        return f"{self.kind}(…)"


def lift(o: Any) -> G:
    if isinstance(o, G):
        return o
    if isinstance(o, str):
        return G("Literal", match=o, implicit=True)  # pyparsing turns a bare string into Literal
    raise AnalysisError(f"grammar model: {type(o).__name__} combined with a grammar element")


class ActionRef:
    """Stands for a class of the analysed module where the grammar names it: attributes are 'Class.attr' texts."""

    def __init__(self, name: str):
        self._n = name

    def __getattr__(self, a: str) -> str:
        return f"{self._n}.{a}"

    def __repr__(self) -> str:
        return self._n


def _word(init_chars: str = "", body_chars: Optional[str] = None, *a: Any, **k: Any) -> G:
    init_chars = k.get("initChars", k.get("init_chars", init_chars))
    body = k.get("bodyChars", k.get("body_chars", body_chars))
    return G("Word", alphabet=init_chars + (body or ""), init=init_chars, body=body or init_chars, exclude=k.get("exclude_chars", k.get("excludeChars")))


def _keyword(match: str = "", ident_chars: Optional[str] = None, caseless: bool = False, **k: Any) -> G:
    ic = k.get("identChars", ident_chars)
    return G("CaselessKeyword" if caseless else "Keyword", match=match, ident_chars=DEFAULT_KEYWORD_CHARS if ic is None else ic)


def _infix(base: Any, op_list: Any, lpar: Any = "(", rpar: Any = ")") -> G:
    levels = []
    for lv in op_list:
        lv = tuple(lv)
        if len(lv) < 3:
            raise AnalysisError("grammar model: operator level with fewer than three fields")
        op = lv[0]
        levels.append((lift(op) if isinstance(op, (str, G)) else op, lv[1], lv[2], lv[3] if len(lv) > 3 else None))
    return G("infix", operand=lift(base), levels=levels, lpar=lpar, rpar=rpar)


def _one_of(strs: Any, caseless: bool = False, use_regex: bool = True, as_keyword: bool = False, **k: Any) -> G:
    items = strs.split() if isinstance(strs, str) else list(strs)
    kw = as_keyword or k.get("asKeyword", False)
    kind = ("Caseless" if caseless else "") + ("Keyword" if kw else "Literal")
    return G("MatchFirst", parts=[G(kind, match=s, ident_chars=DEFAULT_KEYWORD_CHARS) for s in items])


def pyparsing_env() -> dict[str, Any]:
    assoc = types.SimpleNamespace(LEFT="LEFT", RIGHT="RIGHT")
    wrap = lambda kind: (lambda expr=None, *a, **k: G(kind, expr=lift(expr) if expr is not None else None))  # noqa: E731
    env: dict[str, Any] = {
        "Word": _word, "Keyword": _keyword,
        "CaselessKeyword": lambda m="", ident_chars=None, **k: _keyword(m, ident_chars, True, **k),
        "Literal": lambda m="": G("Literal", match=m), "CaselessLiteral": lambda m="": G("CaselessLiteral", match=m),
        "Suppress": wrap("Suppress"), "Optional": wrap("Optional"), "Opt": wrap("Optional"), "Group": wrap("Group"),
        "ZeroOrMore": wrap("ZeroOrMore"), "OneOrMore": wrap("OneOrMore"), "Combine": wrap("Combine"), "Forward": wrap("Forward"),
        "QuotedString": lambda *a, **k: G("QuotedString", args=a, kw=k), "Regex": lambda p="", *a, **k: G("Regex", pattern=p),
        "White": lambda *a, **k: G("White"), "StringEnd": lambda: G("StringEnd"), "LineEnd": lambda: G("LineEnd"),
        "infix_notation": _infix, "infixNotation": _infix, "one_of": _one_of, "oneOf": _one_of,
        "opAssoc": assoc, "OpAssoc": assoc,
        "alphanums": string.ascii_letters + string.digits, "alphas": string.ascii_letters, "nums": string.digits,
        "printables": "".join(c for c in string.printable if c not in string.whitespace), "hexnums": string.digits + "ABCDEFabcdef",
    }
    env["ParseException"] = type("ParseException", (Exception,), {})
    env["ParseResults"] = type("ParseResults", (list,), {})
    env["cast"] = lambda t, v: v
    env["pyparsing"] = env["pp"] = types.SimpleNamespace(**env)
    return env


def interpret_statements(prog: Any, module: Any, stmts: Iterable[ast.stmt], extra: Optional[dict[str, Any]] = None, strict: bool = False) -> tuple[dict[str, Any], dict[str, str]]:
    """Run grammar-building statements over the model. Returns (environment, {statement text: why it was skipped}).
    Module-level use passes every top-level statement: those that do not concern the grammar and cannot be evaluated over
    the stand-ins are skipped (the caller fails if a name it needs is then missing)."""
    from .tabulate import Interp
    env = pyparsing_env()
    for name in getattr(module, "classes", {}) or {}:
        env[name] = ActionRef(name)
    for st in module.tree.body:
        if isinstance(st, ast.ClassDef):
            env.setdefault(st.name, ActionRef(st.name))
    env.update(extra or {})
    it = Interp(env, max_steps=20000)
    skipped: dict[str, str] = {}
    # the module's own functions (a grammar may be built by a helper) and its constants
    stmts = list(stmts)
    for st in module.tree.body:
        if isinstance(st, ast.FunctionDef) and st.name not in it.env and st not in stmts:
            it.env[st.name] = it._make_function(st)
        elif isinstance(st, (ast.Assign, ast.AnnAssign)) and st not in stmts and getattr(st, "value", None) is not None:
            tg = st.targets[0] if isinstance(st, ast.Assign) else st.target
            if isinstance(tg, ast.Name) and tg.id not in it.env:
                try:
                    it.run([st])
                except AnalysisError:
                    pass
    # names taken from the pure standard library are themselves (reduce, or_, chain, …): a grammar may be folded together
    from .tabulate import PURE_STDLIB
    import importlib
    for st in module.tree.body:
        if isinstance(st, ast.ImportFrom) and not st.level and (st.module or "").split(".")[0] in PURE_STDLIB:
            for al in st.names:
                nm = al.asname or al.name
                if nm not in it.env:
                    try:
                        it.env[nm] = getattr(importlib.import_module(st.module), al.name)
                    except Exception:
                        pass
        elif isinstance(st, ast.Import):
            for al in st.names:
                if al.name.split(".")[0] in PURE_STDLIB and (al.asname or al.name.split(".")[0]) not in it.env:
                    try:
                        it.env[al.asname or al.name.split(".")[0]] = importlib.import_module(al.name if al.asname else al.name.split(".")[0])
                    except Exception:
                        pass
    for st in stmts:
        if isinstance(st, (ast.Import, ast.ImportFrom, ast.ClassDef, ast.Return)):
            continue
        if isinstance(st, ast.If) and "TYPE_CHECKING" in unparse(st.test):
            continue
        if isinstance(st, ast.Expr) and isinstance(st.value, ast.Constant):
            continue
        try:
            if isinstance(st, ast.FunctionDef):
                it.env[st.name] = it._make_function(st)
            else:
                it.run([st])
        except AnalysisError as ex:
            if strict:
                raise
            skipped[unparse(st)[:60]] = str(ex)
    return it.env, skipped
