"""Entry point: python -m sa.cli <Cxx> [--tier quick|thorough] [--replay path] [--no-evidence]"""
from __future__ import annotations

import argparse
import importlib
import json
import os
import sys
import traceback

from .prog import AnalysisError, Program
from .report import Report


class Ctx:
    def __init__(self, prop: str, tier: str, report: Report):
        self.prop = prop
        self.tier = tier
        self.r = report
        self.prog = Program()
        from . import tabulate as _tab
        _tab.CURRENT_PROG = self.prog
        self._types = None
        self._cg = None

    @property
    def types(self):
        if self._types is None:
            from .mtypes import Types
            self._types = Types(self.prog)
            if self._types.errors:
                self.r.note(f"mypy reported {len(self._types.errors)} diagnostics on the analysed tree "
                            f"(first: {self._types.errors[0]})")
            self.r.analysed["mypy_build_s"] = round(self._types.build_s, 2)
            self.r.analysed["typed_expressions_indexed"] = self._types.n_exprs
        return self._types

    @property
    def cg(self):
        if self._cg is None:
            from .callgraph import CallGraph
            self._cg = CallGraph(self.prog, self.types)
        return self._cg


def main(argv=None) -> int:
    ap = argparse.ArgumentParser()
    ap.add_argument("prop")
    ap.add_argument("--tier", default=os.environ.get("VERIF_TIER", "quick"), choices=["quick", "thorough"])
    ap.add_argument("--replay", default=None)
    ap.add_argument("--no-evidence", action="store_true")
    ap.add_argument("--no-selftest", action="store_true")
    args = ap.parse_args(argv)
    prop = args.prop.upper()
    seed = int(os.environ.get("VERIF_SEED", "0") or 0)
    replay_filter = None
    if args.replay:
        with open(args.replay, encoding="utf-8") as f:
            replay_filter = json.load(f)
    rep = Report(prop, args.tier, seed, write_evidence=not (args.no_evidence or args.replay),
                 replay_filter=replay_filter)
    try:
        mod = importlib.import_module(f"sa.rules.{prop.lower()}")
        ctx = Ctx(prop, args.tier, rep)
        rep.analysed["repo"] = ctx.prog.repo
        rep.analysed["modules"] = len(ctx.prog.modules)
        rep.analysed["functions"] = len(ctx.prog.funcs)
        rep.analysed["classes"] = len(ctx.prog.classes)
        rep.analysed["source_digest"] = ctx.prog.digest
        mod.run(ctx)
        if args.tier == "thorough" and not args.no_selftest and not args.replay:
            from .selftest import run_selftest
            run_selftest(ctx)
        rc = rep.finish()
    except AnalysisError as e:
        print(f"ANALYSIS-ERROR property={prop}: {e}")
        rc = 2
    except Exception:
        print(f"ANALYSIS-ERROR property={prop}: internal error")
        traceback.print_exc()
        rc = 2
    sys.stdout.flush()
    sys.stderr.flush()
    return rc


if __name__ == "__main__":
    rc = main()
    sys.stdout.flush()
    os._exit(rc)  # skip mypy's slow teardown
