"""Statement-level control-flow graph for the statement kinds used in sigma/, with explicit
branch-edge nodes (so that dominance gives guards with polarity), exceptional edges out of
``try`` bodies and duplicated ``finally`` blocks (one copy per kind of exit)."""
from __future__ import annotations

import ast
from dataclasses import dataclass, field
from typing import Iterable, Optional

from .prog import unparse, walk_no_nested


@dataclass
class Node:
    id: int
    kind: str  # entry exit raise stmt test branch for case except with-enter join
    ast: Optional[ast.AST] = None
    polarity: Optional[bool] = None  # for branch nodes
    label: str = ""
    succ: list[int] = field(default_factory=list)
    pred: list[int] = field(default_factory=list)
    exc: bool = False  # node belongs to an exceptional finally copy / handler

    def __repr__(self) -> str:  # pragma: no cover
        t = unparse(self.ast)[:50] if self.ast is not None else ""
        return f"<{self.id}:{self.kind}:{self.polarity if self.kind == 'branch' else ''}:{t}>"


_CATCH_ALL = {"Exception", "BaseException"}


class CFG:
    def __init__(self, fn: ast.FunctionDef):
        self.fn = fn
        self.nodes: list[Node] = []
        self.entry = self._new("entry").id
        self.exit = self._new("exit").id
        self.raise_exit = self._new("raise").id
        self._stmt_nodes: dict[int, list[int]] = {}
        frames: list[dict] = []
        outs = self._body(fn.body, [self.entry], frames)
        for o in outs:
            self._edge(o, self.exit)
        self._dom: Optional[dict[int, set[int]]] = None
        self._reach_cache: dict = {}

    # ------------------------------------------------------------ construction
    def _new(self, kind: str, node: Optional[ast.AST] = None, **kw) -> Node:
        n = Node(len(self.nodes), kind, node, **kw)
        self.nodes.append(n)
        if node is not None:
            self._stmt_nodes.setdefault(id(node), []).append(n.id)
        return n

    def _edge(self, a: int, b: int) -> None:
        if b not in self.nodes[a].succ:
            self.nodes[a].succ.append(b)
            self.nodes[b].pred.append(a)

    def _link(self, preds: Iterable[int], b: int) -> None:
        for p in preds:
            self._edge(p, b)

    def _branch(self, test_node: int, test_ast: ast.AST, pol: bool, label: str = "") -> int:
        b = self._new("branch", test_ast, polarity=pol, label=label)
        self._edge(test_node, b.id)
        return b.id

    def _body(self, stmts: list[ast.stmt], preds: list[int], frames: list[dict]) -> list[int]:
        cur = list(preds)
        for st in stmts:
            if not cur:
                break  # unreachable code
            cur = self._stmt(st, cur, frames)
        return cur

    # exits through frames ---------------------------------------------------
    def _through_finally(self, frame: dict, kind: str, frames_outer: list[dict]) -> tuple[int, list[int]]:
        """Return (entry, outs) of the copy of frame's finally body for exit ``kind``."""
        key = ("copy", kind)
        if key not in frame:
            j = self._new("join", None, label=f"finally[{kind}]")
            outs = self._body(frame["finalbody"], [j.id], frames_outer)
            frame[key] = (j.id, outs)
        return frame[key]

    def _do_raise(self, preds: list[int], frames: list[dict]) -> None:
        """Connect preds to wherever a raised exception goes."""
        cur = list(preds)
        for i in range(len(frames) - 1, -1, -1):
            fr = frames[i]
            if fr["type"] == "try":
                for h in fr["handlers"]:
                    self._link(cur, h)
                if fr["catch_all"]:
                    return
            elif fr["type"] == "finally":
                entry, outs = self._through_finally(fr, "exc", frames[:i])
                self._link(cur, entry)
                cur = list(outs)
                if not cur:
                    return
        self._link(cur, self.raise_exit)

    def _do_jump(self, preds: list[int], frames: list[dict], kind: str) -> None:
        cur = list(preds)
        for i in range(len(frames) - 1, -1, -1):
            fr = frames[i]
            if fr["type"] == "finally":
                entry, outs = self._through_finally(fr, kind, frames[:i])
                self._link(cur, entry)
                cur = list(outs)
                if not cur:
                    return
            elif fr["type"] == "loop" and kind in ("break", "continue"):
                if kind == "break":
                    fr["breaks"].extend(cur)
                else:
                    self._link(cur, fr["head"])
                return
        if kind == "return":
            self._link(cur, self.exit)

    def _in_try(self, frames: list[dict]) -> bool:
        return any(fr["type"] in ("try", "finally") for fr in frames)

    def _may_raise(self, node: ast.AST) -> bool:
        for n in walk_no_nested(node):
            if isinstance(n, (ast.Call, ast.Subscript, ast.Attribute, ast.BinOp, ast.Await, ast.Yield, ast.YieldFrom)):
                return True
        return False

    # statements ---------------------------------------------------------------
    def _stmt(self, st: ast.stmt, preds: list[int], frames: list[dict]) -> list[int]:
        if isinstance(st, ast.If):
            t = self._new("test", st.test)
            self._link(preds, t.id)
            if self._in_try(frames) and self._may_raise(st.test):
                self._do_raise([t.id], frames)
            bt = self._branch(t.id, st.test, True)
            bf = self._branch(t.id, st.test, False)
            o1 = self._body(st.body, [bt], frames)
            o2 = self._body(st.orelse, [bf], frames)
            return o1 + o2
        if isinstance(st, ast.While):
            t = self._new("test", st.test)
            self._link(preds, t.id)
            if self._in_try(frames) and self._may_raise(st.test):
                self._do_raise([t.id], frames)
            bt = self._branch(t.id, st.test, True)
            const_true = isinstance(st.test, ast.Constant) and bool(st.test.value)
            fr = {"type": "loop", "head": t.id, "breaks": []}
            body_out = self._body(st.body, [bt], frames + [fr])
            self._link(body_out, t.id)
            outs: list[int] = []
            if not const_true:
                bf = self._branch(t.id, st.test, False)
                outs = self._body(st.orelse, [bf], frames)
            return outs + fr["breaks"]
        if isinstance(st, (ast.For, ast.AsyncFor)):
            h = self._new("for", st)
            self._link(preds, h.id)
            if self._in_try(frames):
                self._do_raise([h.id], frames)
            bt = self._branch(h.id, st, True, "iterate")
            bf = self._branch(h.id, st, False, "exhausted")
            fr = {"type": "loop", "head": h.id, "breaks": []}
            body_out = self._body(st.body, [bt], frames + [fr])
            self._link(body_out, h.id)
            outs = self._body(st.orelse, [bf], frames)
            return outs + fr["breaks"]
        if isinstance(st, (ast.With, ast.AsyncWith)):
            w = self._new("with-enter", st)
            self._link(preds, w.id)
            if self._in_try(frames):
                self._do_raise([w.id], frames)
            return self._body(st.body, [w.id], frames)
        if isinstance(st, ast.Try) or st.__class__.__name__ == "TryStar":
            return self._try(st, preds, frames)
        if isinstance(st, ast.Match):
            s = self._new("test", st.subject, label="match-subject")
            self._link(preds, s.id)
            cur = [s.id]
            outs = []
            for case in st.cases:
                c = self._new("case", case)
                self._link(cur, c.id)
                bt = self._branch(c.id, case, True, "matched")
                outs += self._body(case.body, [bt], frames)
                irrefutable = case.guard is None and (
                    (isinstance(case.pattern, ast.MatchAs) and case.pattern.pattern is None)
                )
                if irrefutable:
                    cur = []
                    break
                cur = [self._branch(c.id, case, False, "not-matched")]
            return outs + cur
        if isinstance(st, ast.Return):
            n = self._new("stmt", st)
            self._link(preds, n.id)
            if st.value is not None and self._in_try(frames) and self._may_raise(st.value):
                self._do_raise([n.id], frames)
            self._do_jump([n.id], frames, "return")
            return []
        if isinstance(st, ast.Raise):
            n = self._new("stmt", st)
            self._link(preds, n.id)
            self._do_raise([n.id], frames)
            return []
        if isinstance(st, ast.Break):
            n = self._new("stmt", st)
            self._link(preds, n.id)
            self._do_jump([n.id], frames, "break")
            return []
        if isinstance(st, ast.Continue):
            n = self._new("stmt", st)
            self._link(preds, n.id)
            self._do_jump([n.id], frames, "continue")
            return []
        if isinstance(st, ast.Assert):
            t = self._new("test", st.test)
            self._link(preds, t.id)
            bt = self._branch(t.id, st.test, True)
            bf = self._branch(t.id, st.test, False)
            self._do_raise([bf], frames)
            return [bt]
        if isinstance(st, (ast.FunctionDef, ast.AsyncFunctionDef, ast.ClassDef)):
            n = self._new("stmt", st, label="def")
            self._link(preds, n.id)
            return [n.id]
        # simple statement
        n = self._new("stmt", st)
        self._link(preds, n.id)
        if self._in_try(frames) and self._may_raise(st):
            self._do_raise([n.id], frames)
        return [n.id]

    def _try(self, st: ast.Try, preds: list[int], frames: list[dict]) -> list[int]:
        outer = frames
        fin_frame = None
        if st.finalbody:
            fin_frame = {"type": "finally", "finalbody": st.finalbody}
            outer = frames + [fin_frame]
        handler_entries: list[int] = []
        catch_all = False
        hnodes = []
        for h in st.handlers:
            hn = self._new("except", h)
            hnodes.append(hn)
            handler_entries.append(hn.id)
            if h.type is None:
                catch_all = True
            else:
                names = [unparse(x) for x in (h.type.elts if isinstance(h.type, ast.Tuple) else [h.type])]
                if any(n.split(".")[-1] in _CATCH_ALL for n in names):
                    catch_all = True
        try_frame = {"type": "try", "handlers": handler_entries, "catch_all": catch_all}
        t = self._new("join", st, label="try")
        self._link(preds, t.id)
        body_out = self._body(st.body, [t.id], outer + ([try_frame] if st.handlers else []))
        else_out = self._body(st.orelse, body_out, outer) if st.orelse else body_out
        outs = list(else_out)
        for hn, h in zip(hnodes, st.handlers):
            outs += self._body(h.body, [hn.id], outer)
        if fin_frame is not None:
            entry, fouts = self._through_finally(fin_frame, "normal", frames)
            self._link(outs, entry)
            return list(fouts)
        return outs

    # ------------------------------------------------------------ queries
    def nodes_of(self, a: ast.AST) -> list[int]:
        """CFG nodes created for an ast statement / test expression (several for finally copies)."""
        return list(self._stmt_nodes.get(id(a), []))

    def node_of_expr(self, e: ast.AST, parents) -> list[int]:
        """CFG nodes of the statement (or test) that contains expression e."""
        cur = e
        while cur is not None:
            if id(cur) in self._stmt_nodes:
                return self._stmt_nodes[id(cur)]
            cur = parents(cur)
        return []

    def reachable(self, start: Iterable[int], blocked: Iterable[int] = ()) -> set[int]:
        blocked = set(blocked)
        seen: set[int] = set()
        stack = [s for s in start if s not in blocked]
        while stack:
            n = stack.pop()
            if n in seen:
                continue
            seen.add(n)
            for s in self.nodes[n].succ:
                if s not in blocked and s not in seen:
                    stack.append(s)
        return seen

    def must_pass(self, target: int, through: Iterable[int], start: Optional[int] = None) -> bool:
        """Every path start→target passes through one of ``through`` (or target unreachable)."""
        through = set(through)
        if target in through:
            return True
        return target not in self.reachable([self.entry if start is None else start], through)

    def dominators(self) -> dict[int, set[int]]:
        if self._dom is not None:
            return self._dom
        reach = self.reachable([self.entry])
        order = sorted(reach)
        dom: dict[int, set[int]] = {n: set(order) for n in order}
        dom[self.entry] = {self.entry}
        changed = True
        while changed:
            changed = False
            for n in order:
                if n == self.entry:
                    continue
                preds = [p for p in self.nodes[n].pred if p in reach]
                new = set.intersection(*(dom[p] for p in preds)) if preds else set()
                new = new | {n}
                if new != dom[n]:
                    dom[n] = new
                    changed = True
        self._dom = dom
        return dom

    def guards(self, nid: int) -> list[tuple[ast.AST, bool, str]]:
        """Branch outcomes that dominate node nid: (test ast, polarity, label)."""
        dom = self.dominators().get(nid, set())
        out = []
        for d in sorted(dom):
            n = self.nodes[d]
            if n.kind == "branch" and d != nid:
                out.append((n.ast, bool(n.polarity), n.label))
        return out

    def paths_exist(self, a: int, b: int, blocked: Iterable[int] = ()) -> bool:
        return b in self.reachable([a], blocked)

    def is_reachable(self, nid: int) -> bool:
        return nid in self.reachable([self.entry])


def expr_guards(e: ast.AST, stop: ast.AST, parents) -> list[tuple[ast.AST, bool]]:
    """Guards implied by expression structure between e and the enclosing node ``stop``:
    IfExp branches, and/or short-circuit operands, comprehension filters."""
    out: list[tuple[ast.AST, bool]] = []
    cur = e
    while cur is not stop:
        p = parents(cur)
        if p is None:
            break
        if isinstance(p, ast.IfExp):
            if cur is p.body:
                out.append((p.test, True))
            elif cur is p.orelse:
                out.append((p.test, False))
        elif isinstance(p, ast.BoolOp):
            idx = next((i for i, v in enumerate(p.values) if v is cur), None)
            if idx:
                for v in p.values[:idx]:
                    out.append((v, isinstance(p.op, ast.And)))
        elif isinstance(p, (ast.ListComp, ast.SetComp, ast.GeneratorExp, ast.DictComp)):
            is_elt = cur is getattr(p, "elt", None) or cur is getattr(p, "key", None) or cur is getattr(p, "value", None)
            if is_elt:
                for g in p.generators:
                    for i in g.ifs:
                        out.append((i, True))
        elif isinstance(p, ast.comprehension):
            pass
        cur = p
    return out
