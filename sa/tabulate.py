"""Tabulation of small extracted per-character transition functions over a finite abstraction.

Several string routines of pySigma are loops whose body depends on the current character only through a few membership
tests (``c in char_mapping``, ``c == escape_char``, ``c in filter_set`` …).  For such a body the set of behaviours is
finite: one representative per character class and one value per flag.  ``Interp`` evaluates an extracted statement list
(If / For / Expr / Assign / AugAssign / Continue / Break / Pass only; any other statement kind is an AnalysisError) on
such an abstract state, so a rule can compare the resulting transition table with the specified one.  The soundness
condition of the abstraction — the body reads the character only through the listed atoms — is checked by
``char_dependencies``.  Nothing of pySigma is imported or called: expressions are evaluated with an empty builtin
namespace plus the handful of pure builtins listed in SAFE.
"""
from __future__ import annotations

import ast
from typing import Any, Iterable

from .prog import AnalysisError, unparse

SAFE = {"any": any, "all": all, "isinstance": isinstance, "len": len, "str": str, "bool": bool, "frozenset": frozenset,
        "set": set, "list": list, "sorted": sorted, "None": None, "True": True, "False": False}


class _Continue(Exception):
    pass


class _Break(Exception):
    pass


class Interp:
    def __init__(self, env: dict[str, Any], max_steps: int = 2000):
        self.env = dict(env)
        self.steps = 0
        self.max_steps = max_steps

    def ev(self, e: ast.AST) -> Any:
        try:
            return eval(compile(ast.Expression(body=e), "<extracted>", "eval"), {"__builtins__": SAFE, **self.env})  # noqa: S307
        except (_Continue, _Break):
            raise
        except Exception as ex:
            raise AnalysisError(f"tabulation: cannot evaluate {unparse(e)[:80]!r}: {type(ex).__name__}: {ex}")

    def run(self, stmts: Iterable[ast.stmt]) -> None:
        for s in stmts:
            self.steps += 1
            if self.steps > self.max_steps:
                raise AnalysisError("tabulation: step bound exceeded")
            if isinstance(s, ast.If):
                self.run(s.body if self.ev(s.test) else s.orelse)
            elif isinstance(s, ast.For):
                if not isinstance(s.target, ast.Name):
                    raise AnalysisError("tabulation: loop target")
                for v in list(self.ev(s.iter)):
                    self.env[s.target.id] = v
                    try:
                        self.run(s.body)
                    except _Continue:
                        continue
                    except _Break:
                        break
            elif isinstance(s, ast.Expr):
                self.ev(s.value)
            elif isinstance(s, ast.Assign) and len(s.targets) == 1 and isinstance(s.targets[0], ast.Name):
                self.env[s.targets[0].id] = self.ev(s.value)
            elif isinstance(s, ast.AnnAssign) and isinstance(s.target, ast.Name) and s.value is not None:
                self.env[s.target.id] = self.ev(s.value)
            elif isinstance(s, ast.AugAssign) and isinstance(s.target, ast.Name) and isinstance(s.op, ast.Add):
                self.env[s.target.id] = self.env[s.target.id] + self.ev(s.value)
            elif isinstance(s, ast.Continue):
                raise _Continue()
            elif isinstance(s, ast.Break):
                raise _Break()
            elif isinstance(s, ast.Pass):
                pass
            elif isinstance(s, ast.Raise):
                raise _Raised(unparse(s.exc)[:80] if s.exc else "raise")
            else:
                raise AnalysisError(f"tabulation: unsupported statement {type(s).__name__} at line {getattr(s, 'lineno', '?')}")


class _Raised(Exception):
    pass


Raised = _Raised


def char_dependencies(stmts: Iterable[ast.stmt], var: str, allowed_atoms: set[str], allowed_uses: set[str]) -> list[str]:
    """Uses of ``var`` in *tests* that are not one of the allowed atoms, and other uses not in allowed_uses.
    Returns offending expression texts (empty = the abstraction is sound)."""
    bad: list[str] = []

    def atoms(t: ast.AST) -> list[ast.AST]:
        if isinstance(t, ast.BoolOp):
            return [a for v in t.values for a in atoms(v)]
        if isinstance(t, ast.UnaryOp) and isinstance(t.op, ast.Not):
            return atoms(t.operand)
        return [t]

    for s in stmts:
        for n in ast.walk(s):
            tests: list[ast.AST] = []
            if isinstance(n, (ast.If, ast.While, ast.IfExp)):
                tests = atoms(n.test)
            for a in tests:
                if (isinstance(a, ast.Call) and isinstance(a.func, ast.Name) and a.func.id in ("any", "all") and len(a.args) == 1
                        and isinstance(a.args[0], ast.GeneratorExp) and unparse(a.args[0].elt) in allowed_atoms):
                    continue
                if any(isinstance(x, ast.Name) and x.id == var for x in ast.walk(a)) and unparse(a) not in allowed_atoms:
                    bad.append(unparse(a))
    return bad
