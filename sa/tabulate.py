"""Tabulation of small extracted per-character transition functions over a finite abstraction.

Several string routines of pySigma are loops whose body depends on the current character only through a few membership
tests (``c in char_mapping``, ``c == escape_char``, ``c in filter_set`` …).  For such a body the set of behaviours is
finite: one representative per character class and one value per flag.  ``Interp`` evaluates an extracted statement list
(If / For / While / Expr / Assign / AugAssign / Continue / Break / Pass / Return / Raise / Try / FunctionDef; any other statement kind is an AnalysisError) on
such an abstract state, so a rule can compare the resulting transition table with the specified one.  The soundness
condition of the abstraction — the body reads the character only through the listed atoms — is checked by
``char_dependencies``.  Nothing of pySigma is imported or called: expressions are evaluated with an empty builtin
namespace plus the handful of pure builtins listed in SAFE.
"""
from __future__ import annotations

import ast
from typing import Any, Iterable

from .prog import AnalysisError, unparse

SAFE = {"reversed": reversed, "range": range, "map": map, "filter": filter, "sum": sum, "min": min, "max": max, "abs": abs, "round": round,
        "getattr": getattr, "hasattr": hasattr, "type": type, "dict": dict, "tuple": tuple, "enumerate": enumerate, "zip": zip, "int": int, "float": float,
        "any": any, "all": all, "isinstance": isinstance, "issubclass": issubclass, "callable": callable, "iter": iter, "next": next, "repr": repr, "setattr": setattr,
        "divmod": divmod, "id": id, "hash": hash, "NotImplemented": NotImplemented, "Ellipsis": Ellipsis, "ord": ord, "chr": chr, "bytes": bytes, "slice": slice, "object": object, "print": (lambda *a, **k: None), "len": len, "str": str, "bool": bool, "frozenset": frozenset,
        "set": set, "list": list, "sorted": sorted, "None": None, "True": True, "False": False}


def _safe_import(name: str, *a: Any, **k: Any) -> Any:
    """C code of the standard library imports its Python half through the builtins of the calling frame (a compiled
    pattern's sub() imports `re`): only pure standard-library modules are admitted."""
    import importlib
    if name.split(".")[0] in PURE_STDLIB or name.split(".")[0] in ("re", "_sre", "sre_parse", "sre_compile", "sre_constants"):
        return importlib.import_module(name)
    raise ImportError(f"tabulation: import of {name} is not admitted")


SAFE["__import__"] = _safe_import
import builtins as _builtins
for _n in dir(_builtins):
    _c = getattr(_builtins, _n)
    if isinstance(_c, type) and issubclass(_c, BaseException) and _n not in SAFE:
        SAFE[_n] = _c  # the built-in exception classes are themselves
PURE_STDLIB = {"re", "fnmatch", "string", "unicodedata", "itertools", "functools", "collections", "math", "operator", "copy", "uuid", "ipaddress", "datetime", "base64", "typing"}


class _Continue(Exception):
    pass


class _Break(Exception):
    pass


class _Return(Exception):
    def __init__(self, value: Any):
        self.value = value


class _Raised(Exception):
    exc: Any = None  # the exception object when an evaluated expression raised it (a behaviour of the extracted code)


def _handler_matches(h: ast.ExceptHandler, ex: "_Raised") -> bool:
    """Handler selection by name; built-in exception classes also by their hierarchy (UnicodeEncodeError is a UnicodeError)."""
    import builtins
    if h.type is None:
        return True
    name = str(ex).split("(")[0].strip()
    types_ = h.type.elts if isinstance(h.type, ast.Tuple) else [h.type]
    for t in types_:
        txt = unparse(t)
        last = txt.split(".")[-1]
        if str(ex) in txt or last in str(ex):
            return True
        rc, hc = getattr(builtins, name.split(".")[-1], None), getattr(builtins, last, None)
        if isinstance(rc, type) and isinstance(hc, type) and issubclass(rc, BaseException) and issubclass(rc, hc):
            return True
    return False


_OWN_YIELD: dict[int, tuple[ast.AST, bool]] = {}
_CODE: dict[int, tuple[ast.AST, Any]] = {}


def _own_yield(fd: ast.AST) -> bool:
    """fd's own body yields (yields of functions nested in it make those generators, not fd)."""
    hit = _OWN_YIELD.get(id(fd))
    if hit is not None and hit[0] is fd:
        return hit[1]
    res = _own_yield_uncached(fd)
    _OWN_YIELD[id(fd)] = (fd, res)
    return res


def _own_yield_uncached(fd: ast.AST) -> bool:
    stack = list(getattr(fd, "body", []))
    while stack:
        n = stack.pop()
        if isinstance(n, (ast.Yield, ast.YieldFrom)):
            return True
        if isinstance(n, (ast.FunctionDef, ast.AsyncFunctionDef, ast.Lambda, ast.ClassDef)):
            continue
        stack.extend(ast.iter_child_nodes(n))
    return False


class Interp:
    def __init__(self, env: dict[str, Any], max_steps: int = 2000, behaviours: tuple = ()):
        # exceptions of evaluated expressions that count as behaviour of the extracted code (raised to its handlers)
        # rather than as a failure of the stand-ins; rules widen the set when the specification speaks about refusals
        self.behaviours = (IndexError, KeyError, ZeroDivisionError) + tuple(behaviours)
        self.env: dict[str, Any] = {"__builtins__": SAFE, **env}
        self.steps = 0
        self.max_steps = max_steps
        self.yields: list[Any] = []

    def ev(self, e: ast.AST) -> Any:
        try:
            hit = _CODE.get(id(e))
            if hit is None or hit[0] is not e:
                hit = (e, compile(ast.Expression(body=e), "<extracted>", "eval"))
                _CODE[id(e)] = hit
            return eval(hit[1], self.env)  # noqa: S307
        except (_Continue, _Break, _Raised, _Return, AnalysisError):
            raise
        except self.behaviours as ex:  # a behaviour of the extracted code, not of the stubs
            rz = _Raised(type(ex).__name__)
            rz.exc = ex
            raise rz
        except Exception as ex:
            raise AnalysisError(f"tabulation: cannot evaluate {unparse(e)[:80]!r}: {type(ex).__name__}: {ex}")

    def _materialise(self, e: ast.AST) -> list:
        """The values of an iterable expression; a lazy iterator may raise only when it is consumed."""
        it = self.ev(e)
        try:
            return list(it)
        except (_Continue, _Break, _Raised, _Return, AnalysisError):
            raise
        except self.behaviours as ex:
            raise _Raised(type(ex).__name__)
        except Exception as ex:
            raise AnalysisError(f"tabulation: cannot iterate {unparse(e)[:80]!r}: {type(ex).__name__}: {ex}")

    def _handler_matches_value(self, h: ast.ExceptHandler, ex: "_Raised") -> bool:
        """except <name>: where the name is a local or parameter bound to an exception class (or a tuple of them)."""
        import builtins
        if h.type is None or not isinstance(h.type, (ast.Name, ast.Tuple)):
            return False
        names = [t for t in (h.type.elts if isinstance(h.type, ast.Tuple) else [h.type]) if isinstance(t, ast.Name) and t.id in self.env]
        rname = str(ex).split("(")[0].strip().split(".")[-1]
        rc = getattr(builtins, rname, None)
        for t in names:
            v = self.env[t.id]
            for c in (v if isinstance(v, tuple) else (v,)):
                if not isinstance(c, type):
                    continue
                if getattr(ex, "exc", None) is not None and isinstance(ex.exc, c) and type(ex.exc) is not Exception:
                    return True
                if c.__name__ == rname:
                    return True
                if isinstance(rc, type) and issubclass(c, BaseException) and issubclass(rc, c):
                    return True
        return False

    def _iterate(self, e: ast.AST) -> Any:
        """The values of the iterable of a for statement, taken one by one as the loop runs (the body may change the
        iterable; the groups of itertools.groupby are only valid until the next one is asked for)."""
        _END = object()
        try:
            it = iter(self.ev(e))
        except (_Continue, _Break, _Raised, _Return, AnalysisError):
            raise
        except self.behaviours as ex:
            raise _Raised(type(ex).__name__)
        except Exception as ex:
            raise AnalysisError(f"tabulation: cannot iterate {unparse(e)[:80]!r}: {type(ex).__name__}: {ex}")
        while True:
            try:
                v = next(it, _END)
            except (_Continue, _Break, _Raised, _Return, AnalysisError):
                raise
            except self.behaviours as ex:
                raise _Raised(type(ex).__name__)
            except Exception as ex:
                raise AnalysisError(f"tabulation: cannot iterate {unparse(e)[:80]!r}: {type(ex).__name__}: {ex}")
            if v is _END:
                return
            yield v

    def _make_function(self, fd: ast.FunctionDef) -> Any:
        outer = self
        params = [a.arg for a in fd.args.posonlyargs + fd.args.args]
        defaults = [outer.ev(d) for d in fd.args.defaults]
        kwonly = [a.arg for a in fd.args.kwonlyargs]
        kwdefaults = {a.arg: outer.ev(d) for a, d in zip(fd.args.kwonlyargs, fd.args.kw_defaults) if d is not None}
        vararg = fd.args.vararg.arg if fd.args.vararg else None
        kwarg = fd.args.kwarg.arg if fd.args.kwarg else None

        def fn(*args: Any, **kwargs: Any) -> Any:
            env = {k: v for k, v in outer.env.items() if k != "__builtins__"}
            vals = dict(zip(params[len(params) - len(defaults):], defaults))
            vals.update(kwdefaults)
            vals.update(dict(zip(params, args)))
            if vararg is not None:
                vals[vararg] = tuple(args[len(params):])
            extra = {k: v for k, v in kwargs.items() if k not in params and k not in kwonly}
            vals.update({k: v for k, v in kwargs.items() if k in params or k in kwonly})
            if kwarg is not None:
                vals[kwarg] = extra
            else:
                vals.update(extra)
            env.update(vals)
            env["__function_node__"] = fd
            sub = Interp(env, outer.max_steps, outer.behaviours[3:])
            is_gen = _own_yield(fd)
            try:
                sub.run(fd.body)
            except _Return as r:
                if not is_gen:
                    return r.value
            # a generator function is evaluated eagerly (finite stand-in inputs): its yields in order
            return iter(sub.yields) if is_gen else None
        return fn

    def _bind(self, target: ast.AST, value: Any) -> None:
        if isinstance(target, ast.Name):
            self.env[target.id] = value
        elif isinstance(target, (ast.Tuple, ast.List)):
            vals = list(value)
            if len(vals) != len(target.elts):
                raise AnalysisError("tabulation: unpack arity")
            for t, v in zip(target.elts, vals):
                self._bind(t, v)
        else:
            raise AnalysisError("tabulation: loop target")

    def _match(self, pat: ast.AST, v: Any, binds: dict[str, Any]) -> bool:
        """Structural pattern matching for the pattern kinds the code base uses (class, value, singleton, capture,
        wildcard, or, sequence, mapping-free)."""
        if isinstance(pat, ast.MatchValue):
            return bool(v == self.ev(pat.value))
        if isinstance(pat, ast.MatchSingleton):
            return v is pat.value
        if isinstance(pat, ast.MatchAs):
            if pat.pattern is not None and not self._match(pat.pattern, v, binds):
                return False
            if pat.name is not None:
                binds[pat.name] = v
            return True
        if isinstance(pat, ast.MatchOr):
            return any(self._match(p_, v, binds) for p_ in pat.patterns)
        if isinstance(pat, ast.MatchClass):
            cls = self.ev(pat.cls)
            try:
                if not isinstance(v, cls):
                    return False
            except TypeError:
                raise AnalysisError(f"tabulation: class pattern {unparse(pat.cls)} is not a class stand-in")
            if pat.patterns:
                names = getattr(cls, "__match_args__", None)
                if names is None:
                    if len(pat.patterns) == 1 and cls in (str, int, float, bool, bytes, list, tuple, dict, set, frozenset):
                        return self._match(pat.patterns[0], v, binds)
                    raise AnalysisError(f"tabulation: positional class pattern for {unparse(pat.cls)} without __match_args__")
                for nm, p_ in zip(names, pat.patterns):
                    if not hasattr(v, nm) or not self._match(p_, getattr(v, nm), binds):
                        return False
            for nm, p_ in zip(pat.kwd_attrs, pat.kwd_patterns):
                if not hasattr(v, nm) or not self._match(p_, getattr(v, nm), binds):
                    return False
            return True
        if isinstance(pat, ast.MatchSequence):
            if isinstance(v, (str, bytes)) or not isinstance(v, (list, tuple)):
                return False
            if any(isinstance(p_, ast.MatchStar) for p_ in pat.patterns):
                raise AnalysisError("tabulation: starred sequence pattern")
            return len(v) == len(pat.patterns) and all(self._match(p_, x, binds) for p_, x in zip(pat.patterns, v))
        raise AnalysisError(f"tabulation: unsupported pattern {type(pat).__name__}")

    def _resolve_context(self, stmts: list) -> None:
        """A rule that hands over the body of a function of the analysed program with a plain environment (`self`, the
        parameters, a few stand-ins) gets what the function's surroundings provide as well: module-level functions and
        constants, and — for `self` / `cls` — helper methods, inherited bodies and class constants, all from the source."""
        prog = CURRENT_PROG
        if prog is None or not stmts or getattr(self, "_resolved", False):
            return
        self._resolved = True
        fi = prog.owner(stmts[0])
        if fi is None or not fi.node.body or fi.node.body[0] is not stmts[0]:
            return
        kw = {"max_steps": self.max_steps, "behaviours": self.behaviours[3:]}
        base = {k: v for k, v in self.env.items() if k != "__builtins__"}
        menv = module_env(prog, fi.module, base, kw)
        for k, v in menv.items():
            self.env.setdefault(k, v)
        if fi.cls is not None:
            for k in ("self", "cls"):
                obj = self.env.get(k)
                if obj is None or isinstance(obj, (Proxy, ClassProxy, _Fallback)):
                    continue
                if k == "self" and not isinstance(obj, type):
                    # the stand-in keeps its identity: its class gets an attribute fallback into the source
                    t = type(obj)
                    if t.__module__ != "builtins" and "__getattr__" not in t.__dict__ and "__slots__" not in t.__dict__ and t.__name__ != "SimpleNamespace":
                        try:
                            t.__getattr__ = _fallback_getattr  # type: ignore[attr-defined]
                        except TypeError:
                            pass
                    if t.__dict__.get("__getattr__") is _fallback_getattr:
                        _FALLBACK_CTX[t] = (prog, fi.cls.qual, base, kw)
                        continue
                self.env[k] = _Fallback(prog, fi.cls.qual, obj, base, kw, is_class=(k == "cls"))

    def call(self, stmts: Iterable[ast.stmt]) -> Any:
        """Run a function body; the returned value (None without return)."""
        stmts = list(stmts)
        self._resolve_context(stmts)
        try:
            self.run(stmts)
        except _Return as r:
            return r.value
        return None

    def run(self, stmts: Iterable[ast.stmt]) -> None:
        for s in stmts:
            self.steps += 1
            if self.steps > self.max_steps:
                raise AnalysisError("tabulation: step bound exceeded")
            if isinstance(s, ast.If):
                self.run(s.body if self.ev(s.test) else s.orelse)
            elif isinstance(s, ast.For):
                for v in self._iterate(s.iter):
                    self._bind(s.target, v)
                    self.steps += 1
                    if self.steps > self.max_steps:
                        raise AnalysisError("tabulation: step bound exceeded in for loop")
                    try:
                        self.run(s.body)
                    except _Continue:
                        continue
                    except _Break:
                        break
                else:
                    self.run(s.orelse)
            elif isinstance(s, ast.While):
                while self.ev(s.test):
                    self.steps += 1
                    if self.steps > self.max_steps:
                        raise AnalysisError("tabulation: step bound exceeded in while loop")
                    try:
                        self.run(s.body)
                    except _Continue:
                        continue
                    except _Break:
                        break
                else:
                    self.run(s.orelse)
            elif isinstance(s, ast.Expr) and isinstance(s.value, ast.Yield):
                yv = self.ev(s.value.value) if s.value.value is not None else None
                self.yields.append(yv)
                hook = self.env.get("__on_yield__")
                if callable(hook):  # a rule observes (or disturbs) the state at the suspension point of a context manager
                    try:
                        hook(yv)
                    except (_Continue, _Break, _Raised, _Return, AnalysisError):
                        raise
                    except self.behaviours as ex:
                        rz = _Raised(type(ex).__name__)
                        rz.exc = ex
                        raise rz
            elif isinstance(s, ast.Expr) and isinstance(s.value, ast.YieldFrom):
                self.yields.extend(list(self.ev(s.value.value)))
            elif isinstance(s, ast.Expr):
                self.ev(s.value)
            elif isinstance(s, ast.Assign) and len(s.targets) == 1 and isinstance(s.targets[0], ast.Name):
                self.env[s.targets[0].id] = self.ev(s.value)
            elif isinstance(s, ast.AnnAssign) and isinstance(s.target, ast.Name) and s.value is not None:
                self.env[s.target.id] = self.ev(s.value)
            elif isinstance(s, ast.AnnAssign) and s.value is None:
                pass  # a bare annotation declares a type, nothing happens at run time
            elif isinstance(s, ast.AugAssign) and isinstance(s.target, ast.Name) and isinstance(s.op, ast.Add):
                self.env[s.target.id] = self.env[s.target.id] + self.ev(s.value)
            elif isinstance(s, (ast.Assign, ast.AugAssign, ast.Delete, ast.AnnAssign)):  # subscript / attribute targets
                if isinstance(s, ast.AnnAssign):  # annotated attribute / subscript target: the annotation has no effect
                    s = ast.copy_location(ast.Assign(targets=[s.target], value=s.value), s)
                    ast.fix_missing_locations(s)
                try:
                    exec(compile(ast.Module(body=[s], type_ignores=[]), "<extracted>", "exec"), self.env)  # noqa: S102
                except (_Continue, _Break, _Raised, _Return, AnalysisError):
                    raise
                except self.behaviours as ex:
                    rz = _Raised(type(ex).__name__)
                    rz.exc = ex
                    raise rz
                except Exception as ex:
                    raise AnalysisError(f"tabulation: cannot execute {unparse(s)[:80]!r}: {type(ex).__name__}: {ex}")
            elif isinstance(s, ast.Continue):
                raise _Continue()
            elif isinstance(s, ast.Break):
                raise _Break()
            elif isinstance(s, ast.Pass):
                pass
            elif isinstance(s, ast.Return):
                raise _Return(self.ev(s.value) if s.value is not None else None)
            elif isinstance(s, ast.FunctionDef):
                self.env[s.name] = self._make_function(s)
            elif isinstance(s, ast.Assert):
                pass  # assertions narrow types for the reader; they are not part of the tabulated behaviour
            elif isinstance(s, (ast.Import, ast.ImportFrom)):
                for a in s.names:  # imported names must be provided by the rule as stand-ins — or be pure standard library
                    nm = a.asname or a.name.split(".")[0]
                    if nm in self.env:
                        continue
                    modname = s.module if isinstance(s, ast.ImportFrom) else a.name
                    if (modname or "").split(".")[0] in PURE_STDLIB and not getattr(s, "level", 0):
                        import importlib
                        mod = importlib.import_module(modname)
                        self.env[nm] = getattr(mod, a.name) if isinstance(s, ast.ImportFrom) else importlib.import_module(a.name.split(".")[0])
                        continue
                    if isinstance(s, ast.ImportFrom) and ((s.module or "").startswith("sigma") or s.level) and nm[:1].isupper():
                        # a class of the analysed package the rule gives no stand-in for: a recording stub, as for the
                        # classes a module imports at its top
                        self.env[nm] = type(nm, (Recorded,), {})
                        continue
                    raise AnalysisError(f"tabulation: no stand-in for imported name {a.asname or a.name}")
            elif isinstance(s, ast.Match):
                subject = self.ev(s.subject)
                for case in s.cases:
                    binds: dict[str, Any] = {}
                    if self._match(case.pattern, subject, binds) :
                        self.env.update(binds)
                        if case.guard is not None and not self.ev(case.guard):
                            continue
                        self.run(case.body)
                        break
            elif isinstance(s, ast.Try) and s.finalbody:
                inner = ast.Try(body=s.body, handlers=s.handlers, orelse=s.orelse, finalbody=[])
                ast.copy_location(inner, s)
                try:
                    self.run([inner] if (s.handlers or s.orelse) else s.body)
                finally:
                    self.run(s.finalbody)
            elif isinstance(s, ast.Try) and not s.finalbody:
                try:
                    self.run(s.body)
                except _Raised as ex:
                    for h in s.handlers:
                        if _handler_matches(h, ex) or self._handler_matches_value(h, ex):
                            if h.name:
                                if getattr(ex, "exc", None) is None:
                                    ex.exc = Exception(str(ex))
                                self.env[h.name] = ex.exc
                            prev, self._handling = getattr(self, "_handling", None), ex
                            try:
                                self.run(h.body)
                            finally:
                                self._handling = prev
                            break
                    else:
                        raise
                else:
                    self.run(s.orelse)
            elif isinstance(s, ast.With):
                # context managers are objects of the rule (stand-ins with __enter__/__exit__) or of the pure standard library
                entered = []
                try:
                    for item in s.items:
                        cm = self.ev(item.context_expr)
                        if not (hasattr(cm, "__enter__") and hasattr(cm, "__exit__")):
                            raise AnalysisError(f"tabulation: with-statement over a value without __enter__/__exit__ at line {s.lineno}")
                        v = cm.__enter__()
                        entered.append(cm)
                        if item.optional_vars is not None:
                            self._bind(item.optional_vars, v)
                    self.run(s.body)
                except (_Raised, AnalysisError):
                    import sys as _sys
                    et, ev_, tb = _sys.exc_info()
                    swallowed = False
                    for cm in reversed(entered):
                        if cm.__exit__(et, ev_, tb):
                            swallowed = True
                            et = ev_ = tb = None
                    entered = []
                    if not swallowed or isinstance(ev_, AnalysisError):
                        raise
                finally:
                    for cm in reversed(entered):
                        cm.__exit__(None, None, None)
            elif isinstance(s, (ast.Nonlocal, ast.Global)):
                # a nested function sees a copy of the enclosing bindings: objects are shared (errors.append works), a
                # rebinding would not reach the enclosing scope — refuse a function that rebinds such a name
                fn_node = self.env.get("__function_node__")
                scope = fn_node if fn_node is not None else None
                if scope is None or any(isinstance(x, ast.Name) and isinstance(x.ctx, ast.Store) and x.id in s.names for x in ast.walk(scope)) or \
                        any(isinstance(x, ast.AugAssign) and isinstance(x.target, ast.Name) and x.target.id in s.names for x in ast.walk(scope)):
                    raise AnalysisError(f"tabulation: nonlocal/global name rebound at line {s.lineno}")
            elif isinstance(s, ast.Raise):
                cur = getattr(self, "_handling", None)
                if s.exc is None and cur is not None:  # bare raise inside a handler: the handled exception again
                    raise cur
                if isinstance(s.exc, ast.Name) and isinstance(self.env.get(s.exc.id), BaseException):
                    v = self.env[s.exc.id]
                    if cur is not None and getattr(cur, "exc", None) is v:
                        raise cur
                    rz = _Raised(type(v).__name__ if not isinstance(v, Exception) or type(v) is not Exception else str(v))
                    rz.exc = v
                    raise rz
                if isinstance(s.exc, ast.Call) and not (isinstance(s.exc.func, ast.Name) and s.exc.func.id[:1].isupper()):
                    # raise <helper call>(…): the helper builds the exception object
                    try:
                        v = self.ev(s.exc)
                    except (AnalysisError, _Raised):
                        v = None
                    if isinstance(v, BaseException):
                        rz = _Raised(f"{type(v).__name__}({', '.join(map(str, v.args))[:60]})")
                        rz.exc = v
                        raise rz
                    if v is not None and type(v).__name__ != "NoneType":
                        raise _Raised(f"{type(v).__name__}(…)")
                raise _Raised(unparse(s.exc)[:80] if s.exc else "raise")
            else:
                raise AnalysisError(f"tabulation: unsupported statement {type(s).__name__} at line {getattr(s, 'lineno', '?')}")


Raised = _Raised


def char_dependencies(stmts: Iterable[ast.stmt], var: str, allowed_atoms: set[str], allowed_uses: set[str]) -> list[str]:
    """Uses of ``var`` in *tests* that are not one of the allowed atoms, and other uses not in allowed_uses.
    Returns offending expression texts (empty = the abstraction is sound)."""
    bad: list[str] = []

    def atoms(t: ast.AST) -> list[ast.AST]:
        if isinstance(t, ast.BoolOp):
            return [a for v in t.values for a in atoms(v)]
        if isinstance(t, ast.UnaryOp) and isinstance(t.op, ast.Not):
            return atoms(t.operand)
        return [t]

    for s in stmts:
        for n in ast.walk(s):
            tests: list[ast.AST] = []
            if isinstance(n, (ast.If, ast.While, ast.IfExp)):
                tests = atoms(n.test)
            for a in tests:
                if (isinstance(a, ast.Call) and isinstance(a.func, ast.Name) and a.func.id in ("any", "all") and len(a.args) == 1
                        and isinstance(a.args[0], ast.GeneratorExp) and unparse(a.args[0].elt) in allowed_atoms):
                    continue
                if any(isinstance(x, ast.Name) and x.id == var for x in ast.walk(a)) and unparse(a) not in allowed_atoms:
                    bad.append(unparse(a))
    return bad


# ---------------------------------------------------------------------------------------------------------------------
# Stand-in objects that resolve what they do not carry themselves from the *source* of the class they stand for: methods
# (interpreted on demand), class-level constants (const-evaluated), static and class methods. A rule builds one with the
# instance attributes of its scenario and calls the method under test; helper methods the maintainers extract, constants
# they move to class attributes and early-return rewrites are followed without the rule knowing about them.
class _Missing(Exception):
    pass


CURRENT_PROG: Any = None   # set by the command line driver: lets a plain Interp find the surroundings of a function body


_FALLBACK_CTX: dict[type, tuple] = {}


def _fallback_getattr(self_: Any, name: str) -> Any:
    """Installed as __getattr__ on the class of a rule's stand-in `self`: what the stand-in lacks comes from the source."""
    if name.startswith("__") and name.endswith("__"):
        raise AttributeError(name)
    ctx = _FALLBACK_CTX.get(type(self_))
    if ctx is None:
        raise AttributeError(name)
    prog, cq, env, kw = ctx
    return _class_attr(prog, cq, env, kw, name, type(self_), self_)


class _Fallback:
    """A rule's own stand-in for `self` (or `cls`), completed from the source: attributes the stand-in lacks are looked up in
    the class of the analysed program (helper methods, inherited bodies, class constants); stores go to the stand-in."""

    def __init__(self, prog: Any, cq: str, obj: Any, env: dict[str, Any], kw: dict[str, Any], is_class: bool = False):
        object.__setattr__(self, "_f", (prog, cq, obj, env, kw, is_class))

    def __getattr__(self, name: str) -> Any:
        prog, cq, obj, env, kw, is_class = object.__getattribute__(self, "_f")
        try:
            return getattr(obj, name)
        except AttributeError:
            if name.startswith("__") and name.endswith("__"):
                raise
            return _class_attr(prog, cq, env, kw, name, self if is_class else type(obj), None if is_class else self)

    def __setattr__(self, name: str, value: Any) -> None:
        setattr(object.__getattribute__(self, "_f")[2], name, value)

    def __call__(self, *a: Any, **k: Any) -> Any:
        return object.__getattribute__(self, "_f")[2](*a, **k)

    def __eq__(self, o: Any) -> bool:
        return o is self or o is object.__getattribute__(self, "_f")[2]

    def __hash__(self) -> int:
        return hash(id(object.__getattribute__(self, "_f")[2]))

    @property  # type: ignore[misc]
    def __class__(self) -> Any:  # noqa: D105
        f = object.__getattribute__(self, "_f")
        return f[2] if f[5] else type(f[2])


class Recorded:
    """Default stand-in for a class the rule gives no stand-in for: remembers how it was constructed."""

    def __init__(self, *args: Any, **kwargs: Any):
        self.args, self.kwargs = args, kwargs

    def __repr__(self) -> str:
        return f"{type(self).__name__}{self.args!r}"

    def __eq__(self, o: Any) -> bool:
        return type(o).__name__ == type(self).__name__ and getattr(o, "args", None) == self.args and getattr(o, "kwargs", None) == self.kwargs

    def __hash__(self) -> int:
        return hash(type(self).__name__)


def module_env(prog: Any, module: Any, base: dict[str, Any], interp_kwargs: dict[str, Any] | None = None) -> dict[str, Any]:
    """base + the module-level functions of ``module`` (interpreted on demand) and its const-evaluable module constants;
    names in ``base`` win (they are the rule's stand-ins)."""
    from .util import const_eval
    env = dict(base)
    kw = dict(interp_kwargs or {})
    for st in module.tree.body:
        if isinstance(st, ast.ClassDef) and st.name not in env and any(unparse(b).split(".")[-1] == "NamedTuple" for b in st.bases):
            # a NamedTuple of the module is what it declares: its fields in order (defaults evaluated when constant)
            import collections
            flds = [x.target.id for x in st.body if isinstance(x, ast.AnnAssign) and isinstance(x.target, ast.Name)]
            dfl = []
            for x in st.body:
                if isinstance(x, ast.AnnAssign) and isinstance(x.target, ast.Name) and x.value is not None:
                    try:
                        dfl.append(const_eval(prog, module, x.value))
                    except Exception:
                        dfl = None
                        break
            try:
                nt_base = collections.namedtuple(st.name, flds, defaults=dfl or None)
                members: dict[str, Any] = {}
                for mdef in st.body:  # its methods, interpreted from the source when they are called
                    if isinstance(mdef, ast.FunctionDef):
                        decos = [unparse(d_) for d_ in mdef.decorator_list]
                        def _mk(node=mdef):
                            def _call(*a_, **k_):
                                return Interp(module_env(prog, module, base, kw), **kw)._make_function(node)(*a_, **k_)
                            return _call
                        fn_ = _mk()
                        if "staticmethod" in decos:
                            members[mdef.name] = staticmethod(fn_)
                        elif "classmethod" in decos:
                            members[mdef.name] = classmethod(lambda c_, *a_, _f=fn_, **k_: _f(c_, *a_, **k_))
                        elif "property" in decos:
                            members[mdef.name] = property(lambda s_, _f=fn_: _f(s_))
                        else:
                            members[mdef.name] = (lambda _f: (lambda s_, *a_, **k_: _f(s_, *a_, **k_)))(fn_)
                env[st.name] = type(st.name, (nt_base,), dict(members, __slots__=())) if members else nt_base
                continue
            except Exception:
                pass
        if isinstance(st, ast.ClassDef) and st.name not in env and st.name.startswith("_") and f"{module.name}.{st.name}" in getattr(prog, "classes", {}):
            # a private helper class of the module is what its source says: instances are built from its dataclass fields (or
            # its __init__) and its methods are interpreted
            env[st.name] = _private_class(prog, f"{module.name}.{st.name}", base, kw)
            continue
        if isinstance(st, ast.ClassDef) and st.name not in env:
            env[st.name] = type(st.name, (Recorded,), {})      # constructor calls are recorded (issue / error / value objects)
        elif isinstance(st, ast.Import):
            for al in st.names:
                nm = al.asname or al.name.split(".")[0]
                if nm not in env and al.name.split(".")[0] in PURE_STDLIB:
                    try:
                        import importlib
                        env[nm] = importlib.import_module(al.name if al.asname else al.name.split(".")[0])
                    except Exception:
                        pass
        elif isinstance(st, ast.ImportFrom):
            for al in st.names:
                nm = al.asname or al.name
                if nm not in env and (st.module or "").split(".")[0] in PURE_STDLIB and not st.level:
                    try:  # names taken from the pure standard library are themselves (reduce, attrgetter, namedtuple, …)
                        import importlib
                        env[nm] = getattr(importlib.import_module(st.module), al.name)
                        continue
                    except Exception:
                        pass
                if nm not in env and (st.level or (st.module or "").split(".")[0] == "sigma"):
                    # a module-level function of another module of the package is what its source says: interpreted in the
                    # environment of the module it lives in (its helpers and constants), under the same stand-ins
                    src_name = st.module or ""
                    if st.level:
                        parts = module.name.split(".")
                        base_pkg = parts[:len(parts) - st.level] if not getattr(module, "is_package", False) else parts[:len(parts) - st.level + 1]
                        src_name = ".".join(base_pkg + ([st.module] if st.module else []))
                    src_mod = getattr(prog, "modules", {}).get(src_name)
                    fdef = next((x for x in src_mod.tree.body if isinstance(x, ast.FunctionDef) and x.name == al.name), None) if src_mod is not None and src_mod is not module else None
                    if fdef is not None:
                        def make_ext(fd: ast.FunctionDef = fdef, sm: Any = src_mod) -> Any:
                            def fn(*a: Any, **k: Any) -> Any:
                                return Interp(module_env(prog, sm, base, kw), **kw)._make_function(fd)(*a, **k)
                            return fn
                        env[nm] = make_ext()
                        continue
                if nm not in env and nm[:1].isupper():
                    env[nm] = type(nm, (Recorded,), {})
        if isinstance(st, ast.FunctionDef) and st.name not in env:
            def make(fd: ast.FunctionDef) -> Any:
                def fn(*a: Any, **k: Any) -> Any:
                    return Interp(env, **kw)._make_function(fd)(*a, **k)
                return fn
            env[st.name] = make(st)
        elif isinstance(st, (ast.Assign, ast.AnnAssign)):
            tg = st.targets[0] if isinstance(st, ast.Assign) else st.target
            if isinstance(tg, ast.Name) and tg.id not in env and getattr(st, "value", None) is not None:
                try:
                    env[tg.id] = const_eval(prog, module, st.value)
                except Exception:
                    # a value built by a pure standard-library call from constants (a pattern compiled once at module level)
                    v = st.value
                    if isinstance(v, ast.Call) and isinstance(v.func, ast.Attribute) and isinstance(v.func.value, ast.Name) and v.func.value.id in PURE_STDLIB:
                        try:
                            import importlib
                            args = [const_eval(prog, module, a) for a in v.args]
                            kws = {k.arg: const_eval(prog, module, k.value) for k in v.keywords if k.arg}
                            env[tg.id] = getattr(importlib.import_module(v.func.value.id), v.func.attr)(*args, **kws)
                        except Exception:
                            pass
                    elif isinstance(v, ast.Call) and isinstance(v.func, ast.Name) and (getattr(env.get(v.func.id), "__module__", "") or "").split(".")[0] in PURE_STDLIB:
                        try:  # PipelineInfo = namedtuple("PipelineInfo", [...]) with namedtuple imported from collections
                            args = [const_eval(prog, module, a) for a in v.args]
                            kws = {k.arg: const_eval(prog, module, k.value) for k in v.keywords if k.arg}
                            env[tg.id] = env[v.func.id](*args, **kws)
                        except Exception:
                            pass
                    if tg.id not in env and tg.id.startswith("_") or (tg.id not in env and tg.id.isupper()):
                        # a private / constant-style module-level table (dispatch tuples, tables of operators): evaluated over
                        # what the environment holds so far; whatever cannot be evaluated stays undefined (NameError → exit 2)
                        try:
                            env[tg.id] = Interp(env, **kw).ev(v)
                        except Exception:
                            pass
    return env


class ClassProxy:
    """Stands for the class object (self.__class__, cls): class attributes from source, calling it builds a new Proxy."""

    def __init__(self, prog: Any, cq: str, env: dict[str, Any], ctor: Any = None, interp_kwargs: dict[str, Any] | None = None, overrides: dict[str, Any] | None = None):
        object.__setattr__(self, "_p", (prog, cq, env, ctor, dict(interp_kwargs or {}), dict(overrides or {})))

    def __getattr__(self, name: str) -> Any:
        prog, cq, env, ctor, kw, over = object.__getattribute__(self, "_p")
        if name in over:
            return over[name]
        if name == "__name__":
            return cq.rsplit(".", 1)[-1]
        return _class_attr(prog, cq, env, kw, name, self, None)

    def __setattr__(self, name: str, value: Any) -> None:
        object.__getattribute__(self, "_p")[5][name] = value

    def __call__(self, *a: Any, **k: Any) -> Any:
        prog, cq, env, ctor, kw, over = object.__getattribute__(self, "_p")
        if ctor is None:
            raise AnalysisError(f"tabulation: no constructor stand-in for {cq}")
        return ctor(*a, **k)

    def __instancecheck__(self, obj: Any) -> bool:
        """isinstance(x, self.__class__): a stand-in of this class or of a subclass the source knows"""
        prog, cq = object.__getattribute__(self, "_p")[:2]
        if not isinstance(obj, Proxy):
            return False
        ocq = object.__getattribute__(object.__getattribute__(obj, "_k"), "_p")[1]
        return ocq == cq or cq in prog.mro(ocq)


def _class_attr(prog: Any, cq: str, env: dict[str, Any], kw: dict[str, Any], name: str, klass: Any, inst: Any) -> Any:
    from .util import const_eval
    for q in prog.mro(cq):
        c = prog.classes.get(q)
        if c is None:
            continue
        m = c.methods.get(name)
        if m is not None:
            decos = [unparse(d) for d in m.node.decorator_list]
            menv = module_env(prog, m.module, env, kw)
            if inst is not None and "super" not in env:
                menv["super"] = lambda _q=q, _i=inst: _Super(prog, _q, _i, env, kw)
            fn = Interp(menv, **kw)._make_function(m.node)
            if "staticmethod" in decos:
                return fn
            if "classmethod" in decos:
                return lambda *a, **k: fn(klass, *a, **k)
            if "property" in decos or any(d.endswith("cached_property") for d in decos):
                if inst is None:
                    raise AnalysisError(f"tabulation: property {name} read on the class")
                return fn(inst)
            if inst is None:
                return fn
            return lambda *a, **k: fn(inst, *a, **k)
        for st in c.assigns.get(name, []):
            v = getattr(st, "value", None)
            if v is not None:
                # a class attribute is one object shared by all instances: with a "__class_state__" dict in the rule's
                # environment its value is built once (mutations are seen by later calls, as at run time)
                if isinstance(v, ast.Call) and unparse(v.func).split(".")[-1] == "field":
                    # a dataclass field: its default, or a fresh value of its default_factory kept on the instance
                    kws = {k.arg: k.value for k in v.keywords if k.arg}
                    it_ = Interp(module_env(prog, c.module, env, kw), **kw)
                    if "default" in kws:
                        return it_.ev(kws["default"])
                    if "default_factory" in kws:
                        val = it_.ev(kws["default_factory"])()
                        if inst is not None and isinstance(inst, Proxy):
                            object.__getattribute__(inst, "_a")[name] = val
                        return val
                    raise AttributeError(name)
                state = env.get("__class_state__")
                if state is not None and (q, name) in state:
                    return state[(q, name)]
                try:
                    val = const_eval(prog, c.module, v)
                except Exception:
                    try:
                        val = Interp(module_env(prog, c.module, env, kw), **kw).ev(v)
                    except AnalysisError:
                        # the class body is a scope of its own: the value may name functions and constants defined in it
                        try:
                            cenv = module_env(prog, c.module, env, kw)
                            body_env = dict(cenv)
                            for mn, mi in c.methods.items():
                                if mn not in env:
                                    body_env[mn] = Interp(cenv, **kw)._make_function(mi.node)
                            for an, sts in c.assigns.items():
                                if an != name and an not in env and an not in body_env:
                                    try:
                                        body_env[an] = const_eval(prog, c.module, sts[-1].value)
                                    except Exception:
                                        pass
                            val = Interp(body_env, **kw).ev(v)
                        except AnalysisError:
                            raise AnalysisError(f"tabulation: class attribute {q}.{name} is not evaluable")
                if state is not None:
                    state[(q, name)] = val
                return val
    raise AttributeError(name)


class Proxy:
    """Stands for an instance of class ``cq``: ``attrs`` are its instance attributes; everything else comes from the source."""

    def __init__(self, prog: Any, cq: str, env: dict[str, Any], attrs: dict[str, Any] | None = None, ctor: Any = None,
                 interp_kwargs: dict[str, Any] | None = None, class_overrides: dict[str, Any] | None = None):
        object.__setattr__(self, "_a", dict(attrs or {}))
        object.__setattr__(self, "_k", ClassProxy(prog, cq, env, ctor, interp_kwargs, class_overrides))

    @property  # type: ignore[misc]
    def __class__(self) -> Any:  # noqa: D105
        return object.__getattribute__(self, "_k")

    def __getattr__(self, name: str) -> Any:
        a = object.__getattribute__(self, "_a")
        if name in a:
            return a[name]
        k = object.__getattribute__(self, "_k")
        prog, cq, env, ctor, kw, over = object.__getattribute__(k, "_p")
        if name in over:
            return over[name]
        return _class_attr(prog, cq, env, kw, name, k, self)

    def __getattribute__(self, name: str) -> Any:
        # an explicit self.__getattribute__(name) in the analysed code reads instance attributes like getattr does
        try:
            return object.__getattribute__(self, name)
        except AttributeError:
            return type(self).__getattr__(self, name)

    def __setattr__(self, name: str, value: Any) -> None:
        object.__getattribute__(self, "_a")[name] = value

    def attrs(self) -> dict[str, Any]:
        return object.__getattribute__(self, "_a")


class _Super:
    """``super()`` inside an interpreted method of class ``q``: methods of the classes after ``q`` in the MRO of the
    receiver's class (as far as the source knows it), bound to the receiver; a method no analysed class defines is a no-op."""

    def __init__(self, prog: Any, q: str, inst: Any, env: dict[str, Any], kw: dict[str, Any]):
        self._p = (prog, q, inst, env, kw)

    def __getattr__(self, name: str) -> Any:
        prog, q, inst, env, kw = self._p
        k = object.__getattribute__(inst, "_k") if isinstance(inst, Proxy) else None
        cq = object.__getattribute__(k, "_p")[1] if k is not None else q
        mro = list(prog.mro(cq))
        rest = mro[mro.index(q) + 1:] if q in mro else list(prog.mro(q))[1:]
        for b in rest:
            c = prog.classes.get(b)
            if c is not None and name in c.methods:
                m = c.methods[name]
                menv = module_env(prog, m.module, env, kw)
                menv["super"] = lambda _q=b: _Super(prog, _q, inst, env, kw)
                fn = Interp(menv, **kw)._make_function(m.node)
                return lambda *a, **k2: fn(inst, *a, **k2)
        return lambda *a, **k2: None


def _private_class(prog: Any, cq: str, base: dict[str, Any], kw: dict[str, Any]) -> Any:
    def ctor(*a: Any, **k: Any) -> Any:
        ci = prog.classes[cq]
        init = prog.lookup_method(cq, "__init__")
        if init is not None and init.cls is not None and init.cls.qual in prog.classes and not ci.is_dataclass:
            me = Proxy(prog, cq, base, {}, ctor=ctor, interp_kwargs=kw)
            call_method(prog, cq, "__init__", me, base, *a, interp_kwargs=kw, **k)
            return me
        fields = prog.dataclass_fields(cq)
        attrs: dict[str, Any] = {}
        positional = []
        for n, st in fields.items():
            v = st.value
            init_flag = True
            if isinstance(v, ast.Call) and unparse(v.func).split(".")[-1] == "field":
                for kw_ in v.keywords:
                    if kw_.arg == "init" and isinstance(kw_.value, ast.Constant):
                        init_flag = bool(kw_.value.value)
            if init_flag:
                positional.append(n)
        if len(a) > len(positional):
            raise AnalysisError(f"tabulation: too many arguments for {cq}")
        attrs.update(dict(zip(positional, a)))
        attrs.update(k)
        menv = module_env(prog, ci.module, base, kw)
        for n, st in fields.items():
            if n in attrs:
                continue
            v = st.value
            if v is None:
                raise AnalysisError(f"tabulation: {cq}() misses the argument {n}")
            if isinstance(v, ast.Call) and unparse(v.func).split(".")[-1] == "field":
                dflt = next((kw_.value for kw_ in v.keywords if kw_.arg == "default"), None)
                fact = next((kw_.value for kw_ in v.keywords if kw_.arg == "default_factory"), None)
                if dflt is not None:
                    attrs[n] = Interp(menv, **kw).ev(dflt)
                elif fact is not None:
                    attrs[n] = Interp(menv, **kw).ev(fact)()
            else:
                attrs[n] = Interp(menv, **kw).ev(v)
        me = Proxy(prog, cq, base, attrs, ctor=ctor, interp_kwargs=kw)
        if prog.lookup_method(cq, "__post_init__") is not None:
            call_method(prog, cq, "__post_init__", me, base, interp_kwargs=kw)
        return me
    return ClassProxy(prog, cq, base, ctor, kw)


def _lend_static_helpers(prog: Any, module: Any, base: dict[str, Any], menv: dict[str, Any], kw: dict[str, Any]) -> None:
    """A stand-in class of a rule models the *instances* of a class of the analysed module. Static and class methods that
    the source class defines and the stand-in does not (helpers a refactoring moved there) are taken from the source and
    interpreted in the same environment."""
    for nm, obj in list(base.items()):
        if not isinstance(obj, type) or isinstance(obj, ClassProxy):
            continue
        cdef = next((x for x in module.tree.body if isinstance(x, ast.ClassDef) and x.name == nm), None)
        if cdef is None:
            continue
        for mdef in cdef.body:
            if not isinstance(mdef, ast.FunctionDef) or mdef.name in obj.__dict__ or hasattr(obj, mdef.name):
                continue
            decos = [unparse(d_) for d_ in mdef.decorator_list]
            if "staticmethod" not in decos and "classmethod" not in decos:
                continue

            def _mk(node: ast.FunctionDef = mdef) -> Any:
                def _call(*a_: Any, **k_: Any) -> Any:
                    return Interp(menv, **kw)._make_function(node)(*a_, **k_)
                return _call
            try:
                setattr(obj, mdef.name, staticmethod(_mk()) if "staticmethod" in decos else classmethod(lambda c_, *a_, _f=_mk(), **k_: _f(c_, *a_, **k_)))
            except (AttributeError, TypeError):
                pass


def call_method(prog: Any, cq: str, method: str, self_obj: Any, env: dict[str, Any], *args: Any, interp_kwargs: dict[str, Any] | None = None, **kwargs: Any) -> Any:
    """Interpret ``cq.method`` (looked up over the MRO in the source) on ``self_obj`` with the given arguments."""
    for q in prog.mro(cq):
        c = prog.classes.get(q)
        if c is not None and method in c.methods:
            m = c.methods[method]
            kw = dict(interp_kwargs or {})
            menv = module_env(prog, m.module, env, kw)
            _lend_static_helpers(prog, m.module, env, menv, kw)
            if "super" not in env:  # a rule may stand in for the base classes
                menv["super"] = lambda _q=q: _Super(prog, _q, self_obj, env, kw)
            fn = Interp(menv, **kw)._make_function(m.node)
            decos = [unparse(d) for d in m.node.decorator_list]
            if "staticmethod" in decos:
                return fn(*args, **kwargs)
            return fn(self_obj, *args, **kwargs)
    raise AnalysisError(f"anchor vanished: method {cq}.{method}")
