#!/usr/bin/env python3
"""Regenerate the generated tables of DESIGN.md (between the GENERATED markers) from the checker sources, the kept
seeded changes and known_findings.json."""
import ast
import glob
import json
import os
import re

V = "/verif"


def rules_of(path):
    out = []
    tree = ast.parse(open(path).read())
    defaults = {}
    for fn in ast.walk(tree):
        if isinstance(fn, ast.FunctionDef):
            params = [a.arg for a in fn.args.args]
            ds = fn.args.defaults
            for name, d in zip(params[len(params) - len(ds):], ds):
                if isinstance(d, ast.Constant) and isinstance(d.value, str):
                    for c in ast.walk(fn):
                        defaults[id(c)] = {**defaults.get(id(c), {}), name: d.value}
    for n in ast.walk(tree):
        if isinstance(n, ast.Call) and isinstance(n.func, ast.Attribute) and n.func.attr == "rule" and len(n.args) >= 2:
            a, b = n.args[0], n.args[1]
            if isinstance(a, ast.Constant) and isinstance(b, ast.Constant):
                out.append((a.value, b.value))
            elif isinstance(a, ast.Name) and isinstance(b, ast.Constant):
                out.append((defaults.get(id(n), {}).get(a.id, f"<{a.id}>"), b.value))
    return out


def main():
    lines = []
    lines.append("### 9.1 Rules as implemented\n")
    lines.append("Rule texts are taken from the checker sources. A rule shared between properties is listed under the module "
                 "that defines it with its default id; the re-using property reports it under its own id: C01.R6 = C15.R4 "
                 "(class-attribute writes), C01.R10 also runs C15.R1 (shared-state inventory), C01/C02 run C15.R2 (cache copies), "
                 "C05.R7 = C10.R5 = C01.R8 (field escaping), C08.R4 = C15.R3 + C15.R4, C11/C20 run C02.R4 (selector), "
                 "C13.R4 = the operator check of C02.R1, C17.R2 = C08.R5 (swallowing handlers).\n")
    for p in sorted(glob.glob(f"{V}/sa/rules/c[0-9][0-9].py")):
        pid = os.path.basename(p)[:3].upper()
        lines.append(f"**{pid}**\n")
        seen = set()
        for rid, text in rules_of(p):
            if rid in seen:
                continue
            seen.add(rid)
            lines.append(f"* `{rid}` — {text}")
        lines.append("")
    lines.append("### 9.2 Seeded changes (made by independent sub-agents) and the rules that report them\n")
    lines.append("| seed | breaks | change (first line of the agent's notes) | needs to manifest | reported by |")
    lines.append("|---|---|---|---|---|")
    for mp in sorted(glob.glob(f"{V}/seeded/*/meta.json")):
        m = json.load(open(mp))
        d = os.path.dirname(mp)
        note = ""
        if os.path.exists(d + "/notes.md"):
            note = open(d + "/notes.md").readline().strip().lstrip("# ").replace("|", "/")[:150]
        det = "; ".join(m.get("detected_by") or ["—"]).replace("|", "/")
        lines.append(f"| {m['id']} | {m['breaks_property']} | {note} | {m['needs_to_manifest'].replace('|', '/')[:160]} | {det[:260]} |")
    lines.append("")
    kf = json.load(open(f"{V}/known_findings.json"))
    lines.append("### 9.3 Genuine defects recorded as known findings (not repaired)\n")
    lines.append("| property | rule | where | what fails | witness |")
    lines.append("|---|---|---|---|---|")
    for f in kf["findings"]:
        lines.append(f"| {f['property']} | {f['rule']} | `{f['where'].split('sigma.', 1)[-1]}` | {f['what'].replace('|', '/')[:330]} | `{f.get('witness', '')}` |")
    lines.append("")
    lines.append("### 9.4 Genuine defects repaired in /repo (`fix:` commits)\n")
    for x in kf["fixed"]:
        lines.append("* " + x.replace("fixed: ", "", 1))
    lines.append("")
    text = "\n".join(lines)
    p = f"{V}/DESIGN.md"
    s = open(p).read()
    a, b = "<!-- GENERATED:BEGIN -->", "<!-- GENERATED:END -->"
    if a in s and b in s:
        s = s[:s.index(a) + len(a)] + "\n" + text + "\n" + s[s.index(b):]
        open(p, "w").write(s)
        print("DESIGN.md tables regenerated:", len(lines), "lines")
    else:
        print(text)


if __name__ == "__main__":
    main()
