#!/bin/sh
# usage: tools/keep6.sh Cxx tN "props,csv" "what"
exec python3 /verif/tools/keep_twin.py /tmp/wt6-$1/out/$2 $1-$2 "$3" "$4"
