#!/bin/sh
# usage: tools/try_seed.sh <patch.diff> <Cxx> [more props]  — apply a seeded change to /repo, run checks, undo
patch="$1"; shift
cd /repo || exit 2
if ! git apply --check "$patch" 2>/dev/null; then echo "PATCH DOES NOT APPLY: $patch"; git apply --check "$patch"; exit 3; fi
git apply "$patch"
for p in "$@"; do
  (cd /verif && ./check "$p" --no-evidence --no-selftest 2>&1 | grep -E "^\s+C[0-9]+\.R|ANALYSIS-ERROR|^\[" | cut -c1-260)
done
git -C /repo checkout -- .
git -C /repo status --short | grep -v '^??' | head -3
