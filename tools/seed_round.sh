#!/bin/sh
# usage: tools/seed_round.sh <Cxx> <worktree out dir> <m4 m5 ...> — confirm each seed on /repo HEAD and show which rules of Cxx report it
p="$1"; out="$2"; shift 2
for m in "$@"; do
  echo "=== $p $m: $(head -1 $out/$m/notes.md | cut -c1-160)"
  /verif/tools/confirm_seed.sh $out/$m
  /verif/tools/try_seed.sh $out/$m/patch.diff $p 2>&1 | grep -E "^\s+C[0-9]+\.R\w+ at|PATCH|ANALYSIS|error:" | cut -c1-330
done
