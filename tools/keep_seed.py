#!/usr/bin/env python3
"""keep_seed.py <src dir> <seed id> <property> <needs> — confirm on /repo HEAD and store under /verif/seeded/<id>/"""
import json, os, shutil, subprocess, sys
src, sid, prop, needs = sys.argv[1:5]
dst = os.path.join("/verif/seeded", sid)
out = subprocess.run(["/verif/tools/confirm_seed.sh", src], capture_output=True, text=True).stdout.strip()
print(out)
ok = "demo clean exit=0" in out and "patched exit=0" not in out and "tests exit=0" in out
if not ok:
    print("NOT CONFIRMED — not kept"); sys.exit(1)
os.makedirs(dst, exist_ok=True)
shutil.copy(os.path.join(src, "patch.diff"), dst)
shutil.copy(os.path.join(src, "demo.py"), dst)
if os.path.exists(os.path.join(src, "notes.md")):
    shutil.copy(os.path.join(src, "notes.md"), dst)
head = subprocess.run(["git", "-C", "/repo", "rev-parse", "--short", "HEAD"], capture_output=True, text=True).stdout.strip()
meta = {"id": sid, "breaks_property": prop, "needs_to_manifest": needs,
        "origin": "independent sub-agent given only the property text and a scratch worktree",
        "confirmed_on_repo_head": head,
        "what_i_ran": ["tools/confirm_seed.sh: demo.py on clean /repo (exit 0), git apply patch.diff, demo.py (exit != 0), "
                       "pytest -x (deselecting the network-only tests) with the patch (exit 0), git checkout -- .", out],
        "detected_by": []}
json.dump(meta, open(os.path.join(dst, "meta.json"), "w"), indent=1)
print("kept", dst)
