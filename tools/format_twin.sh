#!/bin/sh
# A whole-tree behaviour-preserving twin: copy /repo/sigma to a scratch directory, reformat it with another line length
# (black -l 140), run every check on the copy. Every check must exit 0 and match the same known findings.
# usage: tools/format_twin.sh [--unparse]   (scratch copy is removed afterwards)
d=$(mktemp -d /tmp/fmt_twin.XXXXXX)
cp -r /repo/sigma "$d/sigma"; cp /repo/pyproject.toml "$d/" 2>/dev/null
if [ "$1" = "--unparse" ]; then
  # second twin: every module replaced by ast.unparse(ast.parse(source)) — comments gone, quotes/parentheses normalised
  /venv/bin/python - "$d" <<'PY'
import ast, glob, sys
for f in glob.glob(sys.argv[1] + "/sigma/**/*.py", recursive=True):
    if "/data/" in f:
        continue
    src = open(f).read()
    open(f, "w").write(ast.unparse(ast.parse(src)) + "\n")
PY
else
  (cd "$d" && /venv/bin/python -m black -q -l 140 sigma)
fi
echo "files changed by reformatting: $(diff -rq /repo/sigma "$d/sigma" | wc -l)"
rc=0
for i in 01 02 03 04 05 06 07 08 09 10 11 12 13 14 15 16 17 18 19 20; do
  VERIF_REPO="$d" /verif/check C$i --no-selftest --no-evidence > "$d/C$i.log" 2>&1; e=$?
  k=$(grep -c KNOWN-FINDING "$d/C$i.log")
  echo "C$i exit=$e known-findings=$k"
  [ $e -eq 0 ] || { rc=1; grep -A2 "^  C$i" "$d/C$i.log" | head -12; }
done
rm -rf "$d"
exit $rc
