#!/usr/bin/env python3
"""keep2.py <src dir> <seed id> <property> <needs> <detected_by; separated> — keep_seed + detected_by in one step"""
import json, subprocess, sys
src, sid, prop, needs, det = sys.argv[1:6]
p = subprocess.run(["/verif/tools/keep_seed.py", src, sid, prop, needs], capture_output=True, text=True)
print(p.stdout.strip().splitlines()[-1])
if p.returncode == 0:
    mp = f"/verif/seeded/{sid}/meta.json"
    d = json.load(open(mp))
    d["detected_by"] = [x.strip() for x in det.split(";") if x.strip()]
    json.dump(d, open(mp, "w"), indent=1)
