#!/usr/bin/env python3
"""keep_twin.py <src dir> <twin id> <properties, comma separated> <what was rewritten> — store a behaviour-preserving
refactoring under /verif/twins/<id>/ after confirming: patch applies to /repo HEAD, demo output identical with and without
the patch, test suite passes with it."""
import json, os, shutil, subprocess, sys
src, tid, props, what = sys.argv[1:5]
def sh(cmd, **kw):
    return subprocess.run(cmd, shell=True, capture_output=True, text=True, errors="replace", **kw)
assert sh("git -C /repo status --short | grep -v '^??'").stdout.strip() == "", "repo dirty"
env = "PYTHONPATH=/repo"
clean = sh(f"cd /repo && {env} /venv/bin/python {src}/demo.py")
if sh(f"git -C /repo apply --check {src}/patch.diff").returncode != 0:
    print("patch does not apply"); sys.exit(3)
sh(f"git -C /repo apply {src}/patch.diff")
patched = sh(f"cd /repo && {env} /venv/bin/python {src}/demo.py")
tests = sh("cd /repo && /venv/bin/python -m pytest -q -p no:cacheprovider -p no:xdist --timeout=900 -x --deselect tests/test_plugins.py "
           "--deselect tests/test_validators_tags.py::test_validator_valid_attack_tags_online --deselect tests/test_validators_tags.py::test_validator_valid_d3fend_tags_online")
sh("git -C /repo checkout -- .")
same = clean.returncode == 0 and patched.returncode == 0 and clean.stdout.replace("/tmp/wt5-" + tid.split("-")[0], "") == patched.stdout.replace("/tmp/wt5-" + tid.split("-")[0], "")
summary = f"demo clean exit={clean.returncode} patched exit={patched.returncode} output identical={clean.stdout == patched.stdout} tests exit={tests.returncode} ({tests.stdout.strip().splitlines()[-1] if tests.stdout.strip() else ''})"
print(summary)
if not (clean.returncode == 0 and patched.returncode == 0 and clean.stdout == patched.stdout and tests.returncode == 0):
    print("NOT CONFIRMED — not kept"); sys.exit(1)
dst = os.path.join("/verif/twins", tid)
os.makedirs(dst, exist_ok=True)
for fn in ("patch.diff", "demo.py", "notes.md"):
    if os.path.exists(os.path.join(src, fn)):
        shutil.copy(os.path.join(src, fn), dst)
head = sh("git -C /repo rev-parse --short HEAD").stdout.strip()
json.dump({"id": tid, "properties": props.split(","), "what": what, "kind": "behaviour-preserving refactoring (all checks must stay silent)",
           "origin": "independent sub-agent given only the property text and a scratch worktree",
           "confirmed_on_repo_head": head, "what_i_ran": [summary]}, open(os.path.join(dst, "meta.json"), "w"), indent=1)
print("kept", dst)
