#!/bin/sh
# usage: tools/confirm_seed.sh <dir with patch.diff and demo.py>
# confirms on /repo's HEAD: demo passes without the patch, fails with it, and the test suite still passes with it.
d="$1"
cd /repo || exit 2
[ -z "$(git status --short | grep -v '^??')" ] || { echo "repo dirty"; exit 2; }
PYTHONPATH=/repo /venv/bin/python "$d/demo.py" >/tmp/demo_clean.log 2>&1; c=$?
git apply "$d/patch.diff" || { echo "patch does not apply"; exit 3; }
PYTHONPATH=/repo /venv/bin/python "$d/demo.py" >/tmp/demo_patched.log 2>&1; p=$?
t="skipped"
if [ "$2" != "--no-tests" ]; then
  /venv/bin/python -m pytest -q -p no:cacheprovider --timeout=900 -x --deselect tests/test_plugins.py --deselect tests/test_validators_tags.py::test_validator_valid_attack_tags_online --deselect tests/test_validators_tags.py::test_validator_valid_d3fend_tags_online >/tmp/tests_patched.log 2>&1; t=$?
fi
git checkout -- .
echo "demo clean exit=$c  patched exit=$p  tests exit=$t  ($(tail -1 /tmp/tests_patched.log 2>/dev/null))"
