#!/bin/sh
# usage: tools/rebase_seed.sh <seed id> — re-create a kept seed's patch on /repo's HEAD with a 3-way apply, confirm it, store it
id="$1"; d=/verif/seeded/$id
cd /repo || exit 2
[ -z "$(git status --short | grep -v '^??')" ] || { echo "repo dirty"; exit 2; }
if git apply --check "$d/patch.diff" 2>/dev/null; then echo "$id: applies as is"; exit 0; fi
if ! git apply --3way "$d/patch.diff" >/tmp/rebase_$id.log 2>&1; then echo "$id: 3-way apply failed"; git reset -q --hard HEAD; exit 3; fi
if git diff --name-only --diff-filter=U | grep -q .; then echo "$id: conflicts"; git reset -q --hard HEAD; exit 4; fi
git reset -q
git diff > /tmp/rebased_$id.diff
git checkout -- .
cp /tmp/rebased_$id.diff "$d/patch.diff"
out=$(/verif/tools/confirm_seed.sh "$d")
echo "$id: rebased; $out"
