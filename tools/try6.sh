#!/bin/sh
# usage: tools/try6.sh Cxx tN  — run all checks on a round-6 twin
exec /verif/tools/try_twin.sh /tmp/wt6-$1/out/$2/patch.diff
