#!/bin/sh
# usage: tools/try_twin_copy.sh <patch.diff>  — like try_twin.sh, but on a scratch copy of /repo's HEAD (VERIF_REPO): /repo is not touched,
# so several candidates can be tried at once. Prints one block per check that does not exit 0; exit 0 if all twenty are silent.
patch="$1"
wt=$(mktemp -d /tmp/twin_copy.XXXXXX)
git -C /repo archive HEAD | tar -x -C "$wt"
( cd "$wt" && git init -q . >/dev/null 2>&1 && git apply "$patch" ) || { echo "PATCH DOES NOT APPLY: $patch"; rm -rf "$wt"; exit 3; }
for i in 01 02 03 04 05 06 07 08 09 10 11 12 13 14 15 16 17 18 19 20; do
  ( cd /verif && VERIF_REPO="$wt" ./check C$i --no-evidence --no-selftest > "$wt/.C$i.log" 2>&1; echo $? > "$wt/.C$i.rc" ) &
done
wait
rc=0
for i in 01 02 03 04 05 06 07 08 09 10 11 12 13 14 15 16 17 18 19 20; do
  e=$(cat "$wt/.C$i.rc")
  if [ "$e" != "0" ]; then rc=1; echo "C$i exit=$e"; grep -E "^\s+C[0-9]+\.R\w+ at|ANALYSIS-ERROR" "$wt/.C$i.log" | cut -c1-330 | head -6; fi
done
rm -rf "$wt"
exit $rc
