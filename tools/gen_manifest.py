#!/usr/bin/env python3
"""Regenerate MANIFEST.json from tools/claims.json (kept valid at all times)."""
import json, os, sys
here = os.path.dirname(os.path.dirname(os.path.abspath(__file__)))
claims = json.load(open(os.path.join(here, "tools", "claims.json")))
props = [json.loads(l)["id"] for l in open(os.path.join(here, "properties.jsonl"))]
checks, na = [], []
for pid in props:
    c = claims.get(pid)
    if c and c.get("claimed"):
        checks.append({
            "property_id": pid,
            "quick_cmd": f"./check {pid} --tier quick",
            "thorough_cmd": f"./check {pid} --tier thorough",
            "evidence_file": f"/verif/evidence/{pid}.json",
            "replay_cmd_template": f"./check {pid} --replay {{path}}",
            "engine": "sa",
            "level_claimed": {"category": "other", "text": c["text"], "design_ref": c.get("design_ref", f"DESIGN.md §2 {pid}")},
            "level_note": c["note"],
            "technique": c["technique"],
        })
    else:
        na.append({"property_id": pid, "reason": (c or {}).get("reason", "no static check built for this property yet")})
m = {
    "version": 1,
    "setup_cmd": "./setup.sh",
    "hooks": {"guard": "SIGMAHQ_PYSIGMA_VERIF", "enable": "no hooks: the checks read /repo's source only and never import or run it",
              "baseline_off_cmd": "cd /repo && /venv/bin/python -m pytest -ra -q -p no:cacheprovider --timeout=900 --continue-on-collection-errors",
              "source_commits": [], "add_only": True},
    "engines": [{"name": "sa", "path": "/verif/sa", "serves_properties": [c["property_id"] for c in checks],
                 "kind_free_text": "repository-specific static analysis: ast program model, statement CFG with dominators/guards, mypy-as-library types and call resolution, class-hierarchy call graph, constant-table evaluation, abstract pyparsing model (sa/grammar.py), and a syntax-tree interpreter (sa/tabulate.py) that evaluates functions extracted from the current source over stand-in values — pySigma itself is never imported or run; per-property rule modules under sa/rules"}],
    "checks": checks,
    "not_applicable": na,
    "notes": "Every check decides structural necessary conditions of its property on /repo's current source (see DESIGN.md); none runs pySigma. Exit 0 = all rule instances discharged or listed in known_findings.json; exit 1 + VIOLATION = a rule instance fails that is not listed; exit 2 + ANALYSIS-ERROR = the analysis could not be carried out (anchor vanished, shape not recognised).",
}
json.dump(m, open(os.path.join(here, "MANIFEST.json"), "w"), indent=1)
print("claimed:", [c["property_id"] for c in checks], "n/a:", len(na))
