#!/bin/sh
# usage: tools/try_twin.sh <patch.diff>  — apply a behaviour-preserving change to /repo, run ALL checks (quick, no evidence), undo.
# prints one line per check that does not exit 0 with the findings; exit 0 if all twenty are silent.
patch="$1"
cd /repo || exit 2
[ -z "$(git status --short | grep -v '^??')" ] || { echo "repo dirty"; exit 2; }
git apply --check "$patch" 2>/dev/null || { echo "PATCH DOES NOT APPLY: $patch"; exit 3; }
git apply "$patch"
d=$(mktemp -d /tmp/try_twin.XXXXXX)
for i in 01 02 03 04 05 06 07 08 09 10 11 12 13 14 15 16 17 18 19 20; do
  ( cd /verif && ./check C$i --no-evidence --no-selftest > "$d/C$i.log" 2>&1; echo $? > "$d/C$i.rc" ) &
done
wait
git -C /repo checkout -- .
rc=0
for i in 01 02 03 04 05 06 07 08 09 10 11 12 13 14 15 16 17 18 19 20; do
  e=$(cat "$d/C$i.rc")
  if [ "$e" != "0" ]; then rc=1; echo "C$i exit=$e"; grep -E "^\s+C[0-9]+\.R\w+ at|ANALYSIS-ERROR" "$d/C$i.log" | cut -c1-330 | head -6; fi
done
rm -rf "$d"
exit $rc
