"""Demo for property C11: a filter narrows exactly the rules it targets and nothing else.

Prints the rewritten rule conditions, the detection maps and the converted queries for a
number of (rule set, filter set) pairs. The random prefix is made reproducible by seeding the
random module, so that the output can be compared byte by byte between two versions.
"""

import random
import string
import sys

from sigma.backends.test import TextQueryTestBackend
from sigma.collection import SigmaCollection
from sigma.correlations import SigmaRuleReference
from sigma.exceptions import SigmaError
from sigma.filters import SigmaFilter, SigmaGlobalFilter
from sigma.rule import SigmaDetection, SigmaLogSource, SigmaRule

RULES = """
title: Rule A
id: 6f3e2987-db24-4c78-a860-b4f4095a7095
name: rule_a
logsource:
    category: process_creation
    product: windows
detection:
    selection:
        EventID: 4625
    sel_two:
        Image|endswith: '\\\\cmd.exe'
    _hidden:
        Hidden: 1
    not_this:
        Flag: x
    1st:
        First: 1
    filter_main:
        User: guest
    condition: (selection or 1 of sel_*) and not filter_main
---
title: Rule B
id: df0841c0-9846-4e9f-ad8a-7df91571771b
name: rule_b
logsource:
    category: process_creation
    product: windows
    service: security
detection:
    selection:
        EventID: 1
    of:
        OfField: 2
    them:
        ThemField: 3
    condition:
        - 1 of them
        - all of _* or selection
    _x:
        Under: score
---
title: Rule C
id: 11111111-2222-3333-4444-555555555555
name: rule_c
logsource:
    product: linux
detection:
    keywords:
        - foo
        - bar
    condition: keywords
---
title: Correlation
name: corr
correlation:
    type: event_count
    rules:
        - rule_a
    group-by:
        - User
    timespan: 5m
    condition:
        gte: 10
"""


def filter_yaml(title, logsource, rules, detections, condition):
    lines = [f"title: {title}", "logsource:"]
    lines += [f"    {k}: {v}" for k, v in logsource.items()]
    lines += ["filter:"]
    if isinstance(rules, str):
        lines += [f"    rules: {rules}"]
    elif not rules:
        lines += ["    rules: []"]
    else:
        lines += ["    rules:"] + [f"        - {r}" for r in rules]
    for name, (field, value) in detections.items():
        lines += [f"    {name}:", f"        {field}: {value}"]
    lines += [f"    condition: {condition}"]
    return "\n".join(lines) + "\n"


WIN_PC = {"category": "process_creation", "product": "windows"}
DETS = {
    "selection": ("User|startswith", "adm_"),
    "sel_two": ("Host", "jump"),
    "not_this": ("Nt", "1"),
    "1": ("One", "1"),
    "of": ("Of", "2"),
    "them": ("Them", "3"),
    "all": ("All", "4"),
    "any": ("Any", "5"),
    "_under": ("Under", "6"),
    "and_more": ("AndMore", "7"),
    "x_allow": ("Allow", "8"),
    "y-allow": ("Dash", "9"),
}

FILTER_SETS = {
    "plain not": [("any", WIN_PC, "not selection")],
    "by id": [(["6f3e2987-db24-4c78-a860-b4f4095a7095"], WIN_PC, "not selection")],
    "by name": [(["rule_b", "nonexisting"], WIN_PC, "selection and not sel_two")],
    "by id and name": [
        (["df0841c0-9846-4e9f-ad8a-7df91571771b", "rule_a"], WIN_PC, "1 of sel*")
    ],
    "unknown refs": [(["nope", "00000000-0000-0000-0000-000000000000"], WIN_PC, "selection")],
    "empty list": [([], WIN_PC, "not 1 of them")],
    "ANY upper": [("ANY", {"product": "windows"}, "all of them")],
    "product only": [("any", {"product": "windows"}, "not (selection or sel_two)")],
    "with service": [
        ("any", dict(WIN_PC, service="security"), "not 1 of *allow and not_this")
    ],
    "other product": [("any", {"product": "linux"}, "not any of sel_*")],
    "category only": [("any", {"category": "process_creation"}, "1 of *_allow or all of sel_*")],
    "keyword names": [("any", WIN_PC, "1 and of and them and all and any and not not_this")],
    "keyword selectors": [("any", WIN_PC, "1 of 1* or all of of or any of them or 1 of all")],
    "glued": [("any", WIN_PC, "(1 of them)and(not(selection))or(_under)")],
    "odd spacing": [("any", WIN_PC, "  not   selection   and  1  of   sel_*  ")],
    "quantifier without of": [("any", WIN_PC, "1 or all or (any) and of")],
    "of (paren)": [("any", WIN_PC, "1 of (them)")],
    "dash and underscore": [("any", WIN_PC, "y-allow or _under or and_more or 1 of _*")],
    "stacked": [
        ("any", WIN_PC, "not selection"),
        (["rule_a"], {"product": "windows"}, "not 1 of them"),
        ("any", {"product": "linux"}, "not selection"),
        (["rule_b", "rule_c"], {"category": "process_creation"}, "all of sel*"),
    ],
    "unknown detection": [("any", WIN_PC, "not missing")],
    "pattern no match": [("any", WIN_PC, "1 of zzz*")],
}


def build_filters(specs):
    return [
        SigmaFilter.from_yaml(filter_yaml(f"Filter {i}", logsource, rules, DETS, condition))
        for i, (rules, logsource, condition) in enumerate(specs)
    ]


def show_collection(collection, backend):
    for rule in collection.rules:
        if isinstance(rule, SigmaRule):
            print("   rule", rule.name, "conditions:", rule.detection.condition)
            print("   rule", rule.name, "detections:", list(rule.detection.detections))
    try:
        for query in backend.convert(collection):
            print("   query:", query.replace("\n", " // "))
    except SigmaError as e:
        print("   conversion error:", type(e).__name__, e)


def main():
    backend_cls = TextQueryTestBackend

    print("== reference without filters")
    show_collection(SigmaCollection.from_yaml(RULES), backend_cls())

    for seed, (label, specs) in enumerate(FILTER_SETS.items()):
        # 1. filters in the same YAML stream as the rules (applied in the collection init)
        print(f"== {label}: in one stream")
        random.seed(seed)
        docs = RULES + "".join(
            "---\n" + filter_yaml(f"Filter {i}", ls, rules, DETS, cond)
            for i, (rules, ls, cond) in enumerate(specs)
        )
        try:
            show_collection(SigmaCollection.from_yaml(docs), backend_cls())
        except SigmaError as e:
            print("   error:", type(e).__name__, e)

        # 2. filters applied later with apply_filters
        print(f"== {label}: apply_filters")
        random.seed(1000 + seed)
        collection = SigmaCollection.from_yaml(RULES)
        before = list(collection.rules)
        try:
            collection.apply_filters(build_filters(specs))
            print("   same rule objects:", all(a is b for a, b in zip(before, collection.rules)))
            show_collection(collection, backend_cls())
        except SigmaError as e:
            print("   error:", type(e).__name__, e)

        # 3. collected filters are not applied before the references are resolved
        print(f"== {label}: collect_filters")
        random.seed(2000 + seed)
        try:
            collection = SigmaCollection.from_yaml(docs, collect_filters=True)
            print("   filters:", len(collection.filters), "rules:", len(collection.rules))
            show_collection(collection, backend_cls())
        except SigmaError as e:
            print("   error:", type(e).__name__, e)

    # applicability test on its own
    print("== _should_apply_on_rule / apply_on_rule return value")
    collection = SigmaCollection.from_yaml(RULES)
    for label, specs in FILTER_SETS.items():
        for f in build_filters(specs):
            print(
                "  ",
                label,
                [f._should_apply_on_rule(rule) for rule in collection.rules],
            )
    corr = collection["corr"]
    f = build_filters(FILTER_SETS["plain not"])[0]
    print("   correlation rule returned unchanged:", f.apply_on_rule(corr) is corr)

    # a prefix that collides with existing detections is drawn again
    print("== prefix collision")
    random.seed(4711)
    first = "_filt_" + "".join(random.choices(string.ascii_lowercase, k=10))
    second = "_filt_" + "".join(random.choices(string.ascii_lowercase, k=10))
    rule = SigmaCollection.from_yaml(RULES)["rule_a"]
    rule.detection.detections[first + "_occupied"] = SigmaDetection.from_definition({"Occ": 1})
    rule.detection.detections[first] = SigmaDetection.from_definition({"Bare": 1})
    random.seed(4711)
    f = build_filters([("any", WIN_PC, "not 1 of them")])[0]
    result = f.apply_on_rule(rule)
    print("   returned same object:", result is rule)
    print("   first draw skipped:", not any(c.startswith(f"({first}") for c in rule.detection.condition))
    print("   second draw used:", second, rule.detection.condition)
    print("   detections:", list(rule.detection.detections))
    print("   next random value:", random.random())
    print("   query:", backend_cls().convert(SigmaCollection([rule])))

    # filter object built directly, with a rule reference list built by hand
    print("== direct construction")
    random.seed(99)
    direct = SigmaFilter(
        title="Direct",
        logsource=SigmaLogSource(product="windows"),
        filter=SigmaGlobalFilter(
            detections={"sel": SigmaDetection.from_definition({"A": "b"})},
            condition=["not sel"],
            rules=[SigmaRuleReference("rule_b"), SigmaRuleReference("rule_a")],
        ),
    )
    collection = SigmaCollection.from_yaml(RULES)
    collection.apply_filters([direct, direct])
    show_collection(collection, backend_cls())
    print("   filter detections untouched:", list(direct.filter.detections), direct.filter.condition)
    try:
        direct.filter.rules = "some"
        direct.apply_on_rule(collection["rule_a"])
    except AssertionError as e:
        print("   AssertionError", repr(str(e)))
    try:
        direct.logsource in direct.logsource and "x" in direct.logsource
    except SigmaError as e:
        print("  ", type(e).__name__, e)
    return 0


if __name__ == "__main__":
    sys.exit(main())
