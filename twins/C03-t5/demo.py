"""Demo for C03 / t5: observe value, value_linking, negated (or the exception) of detection items
built with modifier chains; plus edge cases of SigmaDetectionItem.from_mapping (key parsing, modifier
lookup, value typing) and of sigma_type, which were rewritten."""
import itertools
import sys

from sigma.exceptions import SigmaError
from sigma.modifiers import modifier_mapping
from sigma.rule import SigmaDetectionItem
from sigma.types import sigma_type

VALUES = [
    "", "abc", "*abc", "abc*", "*abc*", "*", "?", "**", "a*b?c", "\\*abc\\*", "abc\\", "abc\\\\", "abc\\\\*",
    "\\", "-param /switch -a-b x/y", "--long -é /ü", "- / -/ /-", "a-b -c", "cmd.exe /c -enc",
    "%var%", "pre%var%post", "\\%var%", "%a%%b%", "100%", "%%", "%a\\%b%", "% a b %*", "föö bär", "中文-–x",
    "10.0.0.0/8", "::1/128", "^foo.*", "foo$", ".*foo", "foo\\$", "foo\\\\.*", "(a|b",
    0, 1, -5, 3.5, 1e10, True, False, None,
    ["a", "b*"], ["-x", 1], [], [None, "n"], ["%a%", "-b%c%"], [1, 2.5], [True],
]

ALL = sorted(modifier_mapping)
CORE = ["all", "neq", "contains", "startswith", "endswith", "windash", "expand", "re", "i", "cased",
        "base64offset", "wide", "fieldref", "lt", "exists", "cidr"]
LONG = [
    ["windash", "contains", "all"], ["expand", "windash", "contains"], ["windash", "expand", "endswith", "neq"],
    ["re", "i", "m", "s"], ["re", "contains", "i"], ["re", "startswith", "endswith"], ["re", "expand", "contains"],
    ["base64offset", "contains", "all"], ["windash", "base64offset", "contains"], ["wide", "base64offset", "contains"],
    ["utf16", "base64", "startswith"], ["cased", "contains", "windash"], ["cased", "windash", "expand", "all"],
    ["fieldref", "contains"], ["fieldref", "startswith", "endswith", "neq"], ["contains", "contains", "contains"],
    ["all", "all", "neq", "neq"], ["windash", "windash"], ["expand", "expand", "cased"], ["lt", "neq"], ["minute", "all"],
]
CHAINS = [[]] + [[m] for m in ALL] + [list(p) for p in itertools.product(CORE, repeat=2)] + LONG


def show(key, value):
    try:
        item = SigmaDetectionItem.from_mapping(key, value)
        out = f"value={item.value!r} linking={item.value_linking.__name__} negated={item.negated}"
    except SigmaError as e:
        out = f"EXC {type(e).__name__}: {e}"
    print(f"{key!r} <- {value!r} => {out}")


for value in VALUES:
    for chain in CHAINS:
        show("|".join(["field"] + chain), value)

print("--- from_mapping edge cases")


class MyInt(int):
    pass


class MyStr(str):
    pass


class MyFloat(float):
    pass


def probe(label, fn):
    try:
        r = fn()
        if isinstance(r, SigmaDetectionItem):
            r = (f"field={r.field!r} modifiers={[m.__name__ for m in r.modifiers]} value={r.value!r} "
                 f"original={r.original_value!r} linking={r.value_linking.__name__} negated={r.negated} "
                 f"plain={r.to_plain()!r}")
        print(f"{label} => {r!r}")
    except Exception as e:  # class and message are part of the observed behaviour
        print(f"{label} => EXC {type(e).__module__}.{type(e).__name__}: {e} "
              f"(context={type(e.__context__).__name__}, cause={type(e.__cause__).__name__})")


KEYS = [None, "", "|", "f", "f|", "|contains", "f||contains", "f|nope", "f|contains|nope|alsonope", "f|Contains",
        "f| contains", "|re", "|all|neq", "f|re|nope", "a b|contains", "f|contains|", 1, 2.5, ("f",), b"f", True]
EDGE_VALUES = ["x*", ["x", "y\\*"], 5, [5, "x"], None, [], [[1]], {"a": 1}, b"raw", MyInt(3), MyStr("s*b"),
               MyFloat(1.5), ["a", MyStr("b")], float("inf"), 7.0, (1, 2), {1}, 1 + 2j]
for k in KEYS:
    for v in EDGE_VALUES:
        probe(f"from_mapping({k!r}, {v!r})", lambda: SigmaDetectionItem.from_mapping(k, v))
for v in EDGE_VALUES:
    probe(f"from_value({v!r})", lambda: SigmaDetectionItem.from_value(v))
    probe(f"from_mapping('f|re|i', {v!r})", lambda: SigmaDetectionItem.from_mapping("f|re|i", v))
    probe(f"from_mapping('f|i|re', {v!r})", lambda: SigmaDetectionItem.from_mapping("f|i|re", v))
    if not isinstance(v, list):
        probe(f"sigma_type({v!r})", lambda: (type(sigma_type(v)).__name__, sigma_type(v)))
for v in (True, False, 0, "", "\\", object):
    probe(f"sigma_type({v!r})", lambda: (type(sigma_type(v)).__name__, sigma_type(v)))
sys.exit(0)
