"""
Demo for property C14: pipelines compose in a defined order (priority, stage, position).

Run as: PYTHONPATH=/tmp/wt5-C14 /venv/bin/python demo.py
Prints every observation; the output must be identical on clean HEAD and with the patch applied.
"""

import itertools
from collections import defaultdict
import os
import shutil
import sys
import tempfile

from sigma.backends.test import TextQueryTestBackend
from sigma.collection import SigmaCollection
from sigma.exceptions import SigmaError
from sigma.processing.condition_expressions import parse_condition_expression
from sigma.processing.conditions import (
    LogsourceCondition,
    RuleProcessingItemAppliedCondition,
    RuleProcessingStateCondition,
)
from sigma.processing.finalization import (
    ConcatenateQueriesFinalizer,
    JSONFinalizer,
    NestedFinalizer,
    TemplateFinalizer,
)
from sigma.processing.pipeline import (
    ProcessingItem,
    ProcessingPipeline,
    QueryPostprocessingItem,
)
from sigma.processing.postprocessing import (
    EmbedQueryTransformation,
    NestedQueryPostprocessingTransformation,
    QuerySimpleTemplateTransformation,
    ReplaceQueryTransformation,
)
from sigma.processing.resolver import ProcessingPipelineResolver
from sigma.processing.transformations import (
    AddFieldnamePrefixTransformation,
    AddFieldnameSuffixTransformation,
    FieldMappingTransformation,
    NestedProcessingTransformation,
    SetStateTransformation,
)

RULES = """
title: Rule one
id: 11111111-1111-1111-1111-111111111111
status: test
logsource:
    category: process_creation
    product: windows
detection:
    sel:
        fieldA: foo
        fieldB|contains: bar
    other:
        fieldC: 3
    condition:
        - sel
        - sel and not other
---
title: Rule two
id: 22222222-2222-2222-2222-222222222222
status: test
logsource:
    category: network_connection
    product: linux
detection:
    sel:
        fieldC:
            - a*b
            - 'c d'
    condition: sel
"""


def show(label, value):
    print(f"{label}: {value!r}")


def attempt(label, fn):
    try:
        show(label, fn())
    except Exception as e:  # noqa: the demo reports class and message of every failure
        print(f"{label}: raised {type(e).__name__}: {e}")


def rules():
    return SigmaCollection.from_yaml(RULES)


def mk(i, priority=0, name=True):
    """Fresh pipeline number i with transformations, post-processing items, finalizers and vars."""
    items = [
        ProcessingItem(
            AddFieldnameSuffixTransformation(f"_s{i}"),
            identifier=f"suffix{i}",
        ),
        ProcessingItem(
            SetStateTransformation("index", f"idx{i}"),
            rule_conditions=[LogsourceCondition(product="windows")],
            identifier=f"state{i}",
        ),
        ProcessingItem(
            AddFieldnamePrefixTransformation(f"p{i}."),
            # reads the owning pipeline: applies only if item of the previous pipeline was applied
            rule_conditions=[RuleProcessingItemAppliedCondition(f"state{i - 1}")],
            identifier=f"after{i - 1}",
        ),
        ProcessingItem(
            FieldMappingTransformation({f"fieldC_s{i}": [f"c{i}x", f"c{i}y"]}),
            rule_conditions={
                "st": RuleProcessingStateCondition("index", f"idx{i}"),
                "ls": LogsourceCondition(product="linux"),
            },
            rule_condition_expression=parse_condition_expression("st or ls"),
            identifier=f"map{i}",
        ),
    ]
    if i % 2 == 0:
        items.append(
            ProcessingItem(
                NestedProcessingTransformation(
                    items=[
                        ProcessingItem(
                            SetStateTransformation(f"nested{i}", i), identifier=f"nested{i}"
                        )
                    ]
                ),
                identifier=f"nest{i}",
            )
        )
    post = [
        QueryPostprocessingItem(
            EmbedQueryTransformation(prefix=f"<{i}:", suffix=f":{i}>"), identifier=f"embed{i}"
        ),
        QueryPostprocessingItem(
            QuerySimpleTemplateTransformation(
                "{query} /*v=" + "{pipeline.vars[common]}" + f" own={{pipeline.vars[v{i}]}}*/"
            ),
            rule_conditions=[RuleProcessingItemAppliedCondition(f"state{i}")],
            identifier=f"tmpl{i}",
        ),
    ]
    if i % 3 == 0:
        post.append(
            QueryPostprocessingItem(
                NestedQueryPostprocessingTransformation(
                    items=[
                        QueryPostprocessingItem(
                            ReplaceQueryTransformation("mapped", f"M{i}"), identifier=f"repl{i}"
                        )
                    ]
                ),
                identifier=f"npost{i}",
            )
        )
    fin = [
        TemplateFinalizer(
            f"F{i}<{{{{ queries }}}}|{{{{ pipeline.vars.common }}}}>"
            if i % 2
            else f"{{{{ queries }}}}+F{i}({{{{ pipeline.vars.v{i} }}}})"
        ),
    ]
    if i == 1:
        fin = [
            NestedFinalizer(
                [JSONFinalizer(), ConcatenateQueriesFinalizer(separator="", prefix="{", suffix="}")]
            )
        ]
    if i == 4:
        fin = []
    return ProcessingPipeline(
        items=items,
        postprocessing_items=post,
        finalizers=fin,
        vars={"common": f"from{i}", f"v{i}": i},
        priority=priority,
        name=f"pl{i}" if name else None,
    )


def describe(p):
    return {
        "items": [it.identifier for it in p.items],
        "post": [it.identifier for it in p.postprocessing_items],
        "fin": [type(f).__name__ for f in p.finalizers],
        "vars": p.vars,
        "priority": p.priority,
        "name": p.name,
        "owned": all(
            it._pipeline is p and it.transformation._pipeline is p
            for it in p.items + p.postprocessing_items
        )
        and all(f._pipeline is p for f in p.finalizers),
    }


def convert(pipeline, fmt=None, **opts):
    backend = TextQueryTestBackend(pipeline, **opts)
    out = backend.convert(rules(), fmt)
    lp = backend.last_processing_pipeline
    return {
        "out": out,
        "applied": lp.applied,
        "applied_ids": sorted(lp.applied_ids),
        "state": lp.state,
        "vars": lp.vars,
        "fmt": backend.last_processing_pipeline_format,
    }


def bracketings(n):
    """All bracketings of '+' over operand indices 0..n-1 as nested tuples."""

    def rec(lo, hi):
        if hi - lo == 1:
            yield lo
            return
        for mid in range(lo + 1, hi):
            for left in rec(lo, mid):
                for right in rec(mid, hi):
                    yield (left, right)

    return list(rec(0, n))


def build(tree, ops):
    if isinstance(tree, int):
        return ops[tree]
    return build(tree[0], ops) + build(tree[1], ops)


def section(title):
    print()
    print("=" * 10, title)


# ------------------------------------------------------------------ concatenation
section("concatenation: structure, ownership, vars")
a, b = mk(1, 10), mk(2, 5)
s = a + b
show("a+b", describe(s))
show("a after + owned by a", describe(a)["owned"])
show("a items unowned", all(it._pipeline is None for it in a.items + a.postprocessing_items))
show("a finalizers unowned", all(f._pipeline is None for f in a.finalizers))
show("b items unowned", all(it._pipeline is None for it in b.items + b.postprocessing_items))
show("sum priority/name", (s.priority, s.name, s.allowed_backends))
show("a + None is a", (a + None) is a)
show("sum([a]) is a", sum([a]) is a)
show("0 + a is a", (0 + a) is a)
attempt("1 + a", lambda: 1 + a)
attempt("a + 1", lambda: a + 1)
attempt("a + 'x'", lambda: a + "x")
attempt("a + []", lambda: a + [])
attempt("None + a", lambda: None + a)
attempt("a.__radd__(None)", lambda: a.__radd__(None))
show("a.__radd__(0.0) is a", a.__radd__(0.0) is a)
show("a.__radd__(False) is a", a.__radd__(False) is a)
e = ProcessingPipeline()
show("empty + empty", describe(e + ProcessingPipeline()))
show("a2 + empty", describe(mk(1) + ProcessingPipeline()))
show("empty + a2", describe(ProcessingPipeline() + mk(1)))
attempt("items owned twice", lambda: ProcessingPipeline(items=s.items))
attempt("post owned twice", lambda: ProcessingPipeline(postprocessing_items=s.postprocessing_items))
attempt("finalizer owned twice", lambda: ProcessingPipeline(finalizers=s.finalizers[1:]))
attempt(
    "raw transformation as item", lambda: ProcessingPipeline(items=[SetStateTransformation("a", 1)])
)
attempt(
    "raw transformation as post",
    lambda: ProcessingPipeline(postprocessing_items=[EmbedQueryTransformation()]),
)
attempt("raw object as finalizer", lambda: ProcessingPipeline(finalizers=["x"]))
# operands reused after a previous addition (ownership was transferred before)
t = a + b
show("a+b again", describe(t))
show("first sum lost ownership", describe(s)["owned"])
show("self-addition", describe(mk(3) + ProcessingPipeline()))
d = mk(3)
attempt("d + d", lambda: describe(d + d))

section("concatenation: all bracketings convert alike, identity, vars override")
for n in (2, 3, 4):
    results = {}
    for tree in bracketings(n):
        ops = [mk(i + 1, priority=n - i) for i in range(n)]
        p = build(tree, ops)
        results[repr(tree)] = (describe(p), convert(p, "str"))
    distinct = {repr(v) for v in results.values()}
    show(f"n={n} bracketings", len(results))
    show(f"n={n} distinct results", len(distinct))
    show(f"n={n} result", next(iter(results.values())))
    # identity: empty pipelines anywhere
    ops = [mk(i + 1, priority=n - i) for i in range(n)]
    p = ProcessingPipeline()
    for op in ops:
        p = p + ProcessingPipeline() + op + None
    p = p + ProcessingPipeline()
    show(f"n={n} with empties equal", repr((describe(p), convert(p, "str"))) in distinct)

section("concatenation: operands used before")
x, y, z = mk(1), mk(2), mk(3)
show("x alone", convert(x, "str"))
show("y alone", convert(y))
xy = x + y
show("x+y after use", convert(xy, "str"))
xyz = xy + z
show("(x+y)+z", convert(xyz, "str"))
show("(x+y)+z again, same object", convert(xyz, "str"))
x2, y2, z2 = mk(1), mk(2), mk(3)
show("fresh equals used", convert(x2 + (y2 + z2), "str") == convert(xyz, "str"))

# ------------------------------------------------------------------ resolver
section("resolver: every order of the argument list")
tmpdir = tempfile.mkdtemp(prefix="c14demo", dir=os.path.dirname(os.path.abspath(__file__)))
try:
    os.makedirs(os.path.join(tmpdir, "dir", "sub"))
    for fname, prio, val in (
        ("dir/b.yml", 20, "b"),
        ("dir/a.yml", 20, "a"),
        ("dir/sub/c.yml", 15, "c"),
        ("dir/ignored.yaml", 1, "ignored"),
        ("single.yml", 30, "single"),
    ):
        with open(os.path.join(tmpdir, fname), "w") as f:
            f.write(
                f"name: file-{val}\npriority: {prio}\nvars:\n  common: file-{val}\n  f{val}: 1\n"
                "transformations:\n"
                f"  - id: file-{val}\n    type: field_name_prefix\n    prefix: '{val}-'\n"
                "postprocessing:\n"
                f"  - id: filepost-{val}\n    type: embed\n    prefix: '({val} '\n    suffix: ')'\n"
                "finalizers:\n"
                f"  - type: template\n    template: 'T{val}[{{{{ queries }}}}]'\n"
            )
    cwd = os.getcwd()
    os.chdir(tmpdir)

    def new_resolver():
        r = ProcessingPipelineResolver.from_pipeline_list(
            [mk(1, 10), mk(2, 10), mk(3, 5), mk(4, 10), mk(5, -1, name=False)]
        )
        r.add_pipeline_class(mk(6, 10))
        r.pipelines["lazy"] = lambda: mk(7, 7)
        limited = mk(8, 3)
        limited.allowed_backends = frozenset({"text_query_test"})
        r.pipelines["limited"] = limited
        return r

    show("registered", sorted(new_resolver().pipelines))
    show("list_pipelines", [(n, p.priority) for n, p in new_resolver().list_pipelines()])
    attempt("add unnamed", lambda: new_resolver().add_pipeline_class(mk(9, name=False)))
    for specs in (
        ["pl1"],
        ["pl1", "pl2", "pl3"],
        ["pl1", "pl2", "pl4", "pl6"],
        ["pl3", "lazy", "limited", "pl2"],
        ["pl1", "dir", "single.yml"],
        ["dir/", "pl3", "dir/sub/*"],
        ["pl2", "pl2", "lazy"],
    ):
        seen = {}
        for perm in itertools.permutations(specs):
            r = new_resolver()
            try:
                p = r.resolve(list(perm), "text_query_test")
                res = repr((describe(p), convert(p, "str")))
            except Exception as e:
                res = f"raised {type(e).__name__}: {e}"
            seen.setdefault(res, []).append(perm)
        show(f"specs {specs} distinct", len(seen))
        for res, perms in sorted(seen.items()):
            print(f"   {len(perms)} orders -> {res}")
    r = new_resolver()
    show("resolve [] ", describe(r.resolve([])))
    one = r.resolve(["pl1"])
    show("resolve single is registered object", one is r.pipelines["pl1"])
    first = r.resolve(["pl1", "pl3", "pl2"])
    show("first resolve", describe(first))
    second = r.resolve(["pl2", "pl1", "pl3"])
    show("second resolve of same objects", describe(second))
    show("first lost ownership", describe(first)["owned"])
    show("second converts", convert(second, "str"))
    attempt("unknown", lambda: r.resolve(["pl1", "nonexistent"]))
    attempt("unknown stripped", lambda: r.resolve(["/*"]))
    attempt("empty spec", lambda: r.resolve([""]))
    attempt("wrong target", lambda: describe(r.resolve(["pl1", "limited"], "other")))
    attempt("right target", lambda: describe(r.resolve(["pl1", "limited"], "text_query_test")))
    attempt("no target", lambda: describe(r.resolve(["limited", "pl1"])))
    attempt("tuple of specs", lambda: describe(r.resolve(("pl3", "pl1"))))
    attempt("generator of specs", lambda: describe(r.resolve(s for s in ["pl3", "pl1"])))
    attempt("non-string spec", lambda: r.resolve([1]))
    attempt("specs None", lambda: r.resolve(None))
    attempt("specs is a string", lambda: r.resolve("pl1"))
    attempt("list spec", lambda: r.resolve([["pl1"]]))
    attempt("bytes spec", lambda: r.resolve([b"pl1"]))
    attempt("NUL spec", lambda: r.resolve(["a\x00b"]))
    attempt("equal priority, names reversed", lambda: describe(r.resolve(["pl6", "pl4", "pl2", "pl1"])))
    attempt("resolve_pipeline file", lambda: describe(r.resolve_pipeline("single.yml")))
    attempt("resolve_pipeline dir", lambda: r.resolve_pipeline("dir"))
    os.chdir(cwd)
finally:
    shutil.rmtree(tmpdir)

# ------------------------------------------------------------------ backend
section("backend: own pipeline, then user's, then output format's; stage order")


class DemoBackend(TextQueryTestBackend):
    name = "Demo backend"
    backend_processing_pipeline = ProcessingPipeline(
        items=[
            ProcessingItem(AddFieldnamePrefixTransformation("B."), identifier="backend-item"),
            ProcessingItem(SetStateTransformation("index", "backend"), identifier="backend-state"),
        ],
        postprocessing_items=[
            QueryPostprocessingItem(EmbedQueryTransformation("B(", ")"), identifier="backend-post")
        ],
        finalizers=[
            TemplateFinalizer(
                "{{ queries|length }} queries: {{ queries }} by {{ pipeline.vars.backend }}/{{ pipeline.vars.output_format }}/{{ pipeline.vars.backend_opt }}"
            )
        ],
        vars={"common": "backend", "backend": "overridden", "who": "backend"},
    )
    output_format_processing_pipeline = defaultdict(
        ProcessingPipeline,
        {
            "test": ProcessingPipeline(
                items=[
                    ProcessingItem(AddFieldnameSuffixTransformation(".O"), identifier="format-item")
                ],
                postprocessing_items=[
                    QueryPostprocessingItem(
                        QuerySimpleTemplateTransformation(
                            "O<{query}|{pipeline.vars[who]}|{pipeline.state[index]}>"
                        ),
                        identifier="format-post",
                    )
                ],
                finalizers=[JSONFinalizer()],
                vars={"who": "format", "common": "format"},
            ),
            "state": ProcessingPipeline(vars={"who": "stateformat"}),
            "str": ProcessingPipeline(finalizers=[ConcatenateQueriesFinalizer("#")]),
        },
    )


def demo_convert(pipeline, fmt=None, **opts):
    backend = DemoBackend(pipeline, **opts)
    out = backend.convert(rules(), fmt)
    lp = backend.last_processing_pipeline
    return {
        "out": out,
        "items": [it.identifier for it in lp.items],
        "post": [it.identifier for it in lp.postprocessing_items],
        "fin": [type(f).__name__ for f in lp.finalizers],
        "applied": lp.applied,
        "applied_ids": sorted(lp.applied_ids),
        "state": lp.state,
        "vars": lp.vars,
        "fmt": backend.last_processing_pipeline_format,
        "owned": describe(lp)["owned"],
    }


for fmt in (None, "default", "test", "state", "str"):
    attempt(f"no user pipeline, format {fmt}", lambda: demo_convert(None, fmt, opt="o1"))
    attempt(
        f"user pipeline, format {fmt}", lambda: demo_convert(mk(1) + mk(2), fmt, opt={"k": [1]})
    )
attempt("unknown format", lambda: demo_convert(mk(1), "nope"))
attempt("format without pipeline entry", lambda: demo_convert(mk(1), "bytes"))
attempt("list_of_dict format", lambda: demo_convert(None, "list_of_dict"))

backend = DemoBackend(mk(3), opt=1)
rs = rules()
rs.resolve_rule_references()
show("convert_rule without init", backend.convert_rule(rs.rules[0]))
show("format after convert_rule", backend.last_processing_pipeline_format)
first_pipeline = backend.last_processing_pipeline
show(
    "convert_rule same format keeps pipeline",
    (backend.convert_rule(rules().rules[1]), backend.last_processing_pipeline is first_pipeline),
)
show("convert_rule other format", backend.convert_rule(rules().rules[0], "test"))
show(
    "pipeline replaced",
    (backend.last_processing_pipeline is first_pipeline, backend.last_processing_pipeline_format),
)
show("finalize on list", backend.finalize(["q1", "q2"], "test"))
show("finalize_query", backend.finalize_query(rules().rules[1], "Q", 0, None, "test"))
attempt("finalize unknown format", lambda: backend.finalize([], "zzz"))
attempt(
    "finalize_query unknown format",
    lambda: backend.finalize_query(rules().rules[1], "Q", 0, None, "zzz"),
)
attempt("finalize format None", lambda: backend.finalize([], None))
show("applied_ids after postprocessing", sorted(backend.last_processing_pipeline.applied_ids))
show("second conversion of same backend", backend.convert(rules(), "str"))
show("third conversion, other format", backend.convert(rules(), "state"))

# composed vs. pipelines given to one backend in one go
p_composed = mk(1) + mk(2) + mk(3)
parts = [mk(1), mk(2), mk(3)]
for part in parts:
    part._clear_pipeline()
show("parts cleared", [describe(part)["owned"] for part in parts])
p_single = ProcessingPipeline(
    items=[it for part in parts for it in part.items],
    postprocessing_items=[it for part in parts for it in part.postprocessing_items],
    finalizers=[f for part in parts for f in part.finalizers],
    vars={k: v for part in parts for k, v in part.vars.items()},
)
for fmt in (None, "test", "str"):
    c1 = demo_convert(p_composed, fmt)
    show(f"composed, format {fmt}", c1)
for fmt in (None, "test", "str"):
    show(f"single definition, format {fmt} out", demo_convert(p_single, fmt)["out"])

collecting = DemoBackend(mk(1), collect_errors=True)
show("collect_errors unknown format", collecting.convert(rules(), "str"))
show("errors", [(r.title, type(e).__name__, str(e)) for r, e in collecting.errors])
print()
print("done")
sys.exit(0)
