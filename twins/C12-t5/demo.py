"""Detection tree walk with in-place replacement for all kinds of detection item transformations
(property C12): queries, plain form of the transformed rule and tracking of applied items."""
import sys
from sigma.backends.test import TextQueryTestBackend
from sigma.collection import SigmaCollection
from sigma.exceptions import SigmaError
from sigma.processing.pipeline import ProcessingPipeline
from sigma.rule import SigmaDetection

RULES = {
    "flat": """
title: Flat
status: test
logsource: {category: test}
fields: [fieldX, fieldB, other]
detection:
    sel:
        fieldX: value
        fieldB|contains: [foo, "b*r"]
        fieldC: 123
        fieldD|re: "ab.*c"
        fieldE: null
    condition: sel
""",
    "nested": """
title: Nested
status: test
logsource: {category: test}
detection:
    sel:
        - fieldX: value1
          fieldB: value2
        - fieldX|windash|contains: "-x"
          fieldC:
              - 1
              - two
    kw:
        - keyword
        - "key*word"
    filter:
        fieldB|fieldref: fieldX
    condition: (sel or kw) and not filter
""",
    "hashes": """
title: Hashes
status: test
logsource: {category: test}
detection:
    sel:
        Hashes|contains:
            - "MD5=987B65CD9B9F4E9A1AFD8F8B48CF64A7"
            - "SHA1=5F1CBC3D99558307BC1250D084FA968521482025"
        fieldX|cased: Value
    other:
        - Hash: "987B65CD9B9F4E9A1AFD8F8B48CF64A7"
        - fieldX|all: [a, b]
    condition: 1 of them
""",
}

PIPELINES = {
    "empty": "transformations: []",
    "map_1to1": """
transformations:
    - id: m
      type: field_name_mapping
      mapping: {fieldX: mappedA, fieldC: mappedC}
""",
    "map_1toN": """
transformations:
    - id: m
      type: field_name_mapping
      mapping: {fieldX: [a1, a2], fieldB: b}
""",
    "map_keyword": """
transformations:
    - id: m
      type: field_name_mapping
      mapping: {null: [msg, raw]}
""" .replace("{null:", "{~:"),
    "map_nomatch": """
transformations:
    - id: m
      type: field_name_mapping
      mapping: {}
""",
    "prefix_cond": """
transformations:
    - id: p
      type: field_name_prefix
      prefix: "win."
      field_name_conditions:
          - type: exclude_fields
            fields: [fieldB]
""",
    "suffix_item_cond": """
transformations:
    - id: s
      type: field_name_suffix
      suffix: ".keyword"
      detection_item_conditions:
          - type: match_string
            cond: any
            pattern: "^val"
""",
    "replace": """
transformations:
    - id: r
      type: replace_string
      regex: "a"
      replacement: "AA"
""",
    "replace_nomatch": """
transformations:
    - id: r
      type: replace_string
      regex: "zzzzz"
      replacement: "y"
""",
    "map_string": """
transformations:
    - id: ms
      type: map_string
      mapping: {value: [v1, v2], foo: bar, two: []}
""",
    "case_upper": """
transformations:
    - id: c
      type: case
      method: upper
""",
    "set_value_cond": """
transformations:
    - id: sv
      type: set_value
      value: 42
      field_name_conditions:
          - type: include_fields
            fields: [fieldX, fieldC]
""",
    "convert_str": """
transformations:
    - id: cv
      type: convert_type
      target_type: str
""",
    "regex": """
transformations:
    - id: rx
      type: regex
      method: ignore_case_flag
      field_name_conditions:
          - type: include_fields
            fields: [fieldX, fieldB]
""",
    "drop": """
transformations:
    - id: d
      type: drop_detection_item
      field_name_conditions:
          - type: include_fields
            fields: [fieldB, fieldC]
""",
    "hashes_fields": """
transformations:
    - id: h
      type: hashes_fields
      valid_hash_algos: [MD5, SHA1]
      field_prefix: File
""",
    "chain": """
transformations:
    - id: first
      type: field_name_mapping
      mapping: {fieldX: [a1, a2]}
    - id: second
      type: replace_string
      regex: "^v"
      replacement: "W"
    - id: third
      type: field_name_prefix
      prefix: "x."
      detection_item_conditions:
          - type: processing_item_applied
            processing_item_id: second
""",
    "nested_pipeline": """
transformations:
    - id: n
      type: nest
      items:
          - id: inner1
            type: case
            method: upper
          - id: inner2
            type: field_name_suffix
            suffix: "_s"
""",
}


def dump(detection, indent=0):
    for item in detection.detection_items:
        if isinstance(item, SigmaDetection):
            print(" " * indent + f"[{item.item_linking.__name__}]")
            dump(item, indent + 2)
        else:
            try:
                plain = item.to_plain()
            except SigmaError as e:
                plain = f"<{type(e).__name__}>"
            print(
                " " * indent
                + f"{item.field!r} {[m.__name__ for m in item.modifiers]} {item.value!r} plain={plain!r} "
                + f"applied={sorted(str(i) for i in item.applied_processing_items)}"
            )


for pname, pyaml in PIPELINES.items():
    for rname, ryaml in RULES.items():
        print(f"=== {pname} / {rname}")
        try:
            pipeline = ProcessingPipeline.from_yaml(pyaml)
            backend = TextQueryTestBackend(pipeline)
            collection = SigmaCollection.from_yaml(ryaml)
            res = backend.convert(collection)
            print("query:", res)
            rule = collection.rules[0]
            print("fields:", rule.fields)
            for name, detection in rule.detection.detections.items():
                print(f"- {name}")
                dump(detection, 2)
            try:
                print("dict:", rule.detection.to_dict())
            except SigmaError as e:
                print("dict:", type(e).__name__, e)
            print("field mappings:", sorted((str(k), sorted(v)) for k, v in backend.last_processing_pipeline.field_mappings.items()))
        except SigmaError as e:
            print(f"!! {type(e).__name__}: {e}")
sys.exit(0)
