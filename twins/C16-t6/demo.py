"""Demo for property C16: a pipeline document cannot grant itself code execution, file or
network access. Prints what is observable (capability flags, exceptions, audit events, results);
the output has to be identical on clean HEAD and with the patch applied."""

import copy
import os
import re
import shutil
import sys
import tempfile

import yaml

from sigma.backends.test import TextQueryTestBackend
from sigma.collection import SigmaCollection
from sigma.processing.pipeline import ProcessingPipeline
from sigma.processing.resolver import ProcessingPipelineResolver
from sigma.processing.templates import TemplateBase
from sigma.processing.transformations.external import ExternalSourceBaseTransformation

TMP = os.path.realpath(tempfile.mkdtemp(prefix="c16demo"))
ENV_EXT = "PYSIGMA_ALLOW_EXTERNAL_SOURCES"
ENV_VARS = "PYSIGMA_ALLOW_VARS_EXECUTION"

# ---------------------------------------------------------------------------------------------
# files
# ---------------------------------------------------------------------------------------------
for sub in ("allowed", "allowed/sub", "allowed-extra", "outside"):
    os.makedirs(os.path.join(TMP, sub))
MARKER = os.path.join(TMP, "executed.log")
VARS_SRC = (
    "with open({marker!r}, 'a') as f:\n"
    "    f.write({name!r} + '\\n')\n"
    "vars = {{'tag': lambda s: '<' + str(s) + ':{name}>'}}\n"
)
VARS_FILES = {
    "inside": "allowed/vars.py",
    "inside_sub": "allowed/sub/vars.py",
    "prefix": "allowed-extra/vars.py",
    "outside": "outside/vars.py",
}
for name, rel in VARS_FILES.items():
    with open(os.path.join(TMP, rel), "w") as f:
        f.write(VARS_SRC.format(marker=MARKER, name=name))
os.symlink(os.path.join(TMP, "outside/vars.py"), os.path.join(TMP, "allowed/link.py"))
VARS_FILES["symlink"] = "allowed/link.py"
VARS_FILES["dotdot"] = "allowed/../outside/vars.py"
VARS_FILES["missing"] = "allowed/nothing.py"
SOURCE = os.path.join(TMP, "outside/values.txt")
with open(SOURCE, "w") as f:
    f.write("alpha\nbeta\n")
CMD_MARKER = os.path.join(TMP, "command.log")

# ---------------------------------------------------------------------------------------------
# audit
# ---------------------------------------------------------------------------------------------
events: list = []
recording = False


def norm(s) -> str:
    s = str(s).replace(TMP, "<TMP>")
    return re.sub(r"0x[0-9a-fA-F]+", "0xADDR", s)


def hook(event: str, args) -> None:
    if not recording:
        return
    if event in ("subprocess.Popen", "os.system", "os.posix_spawn", "os.exec"):
        events.append(event + " " + norm(args[0:2]))
    elif event in ("socket.connect", "socket.getaddrinfo"):
        events.append(event + " " + norm(args[1:3] if event == "socket.getaddrinfo" else args[1]))
    elif event == "open" and isinstance(args[0], str):
        path = os.path.realpath(args[0])
        if path.startswith(TMP) and (path.endswith(".py") or path.endswith(".txt")):
            events.append("open " + norm(path))
    elif event == "exec":
        fname = getattr(args[0], "co_filename", "")
        if isinstance(fname, str) and fname.startswith(TMP):
            events.append("exec " + norm(fname))


sys.addaudithook(hook)


def marker_lines() -> list:
    res = []
    for path in (MARKER, CMD_MARKER):
        if os.path.exists(path):
            with open(path) as f:
                res.append(f.read().split())
            os.unlink(path)
        else:
            res.append([])
    return res


# ---------------------------------------------------------------------------------------------
# documents
# ---------------------------------------------------------------------------------------------
OPT_IN = {
    "allow_external_sources": True,
    "allow_template_vars": "yes",
    "vars_allowed_paths": ["/"],
}

RULE = """
title: Test
status: test
logsource:
    category: test
detection:
    sel:
        field|expand: "%name%"
    condition: sel
"""


def ext_item(kind: str, inject: bool) -> dict:
    item = {
        "file": {"type": "file_placeholders", "path": SOURCE},
        "http": {"type": "http_placeholders", "url": "http://127.0.0.1:9/values", "timeout": 1},
        "command": {
            "type": "command_placeholders",
            "cmd": f"echo ran >> {CMD_MARKER}; echo gamma",
        },
        "command_list": {"type": "command_placeholders", "cmd": ["echo", "delta"]},
    }[kind]
    item = dict(item, id="ext_" + kind, include=["name"])
    if inject:
        item.update(OPT_IN)
    return item


def tmpl_item(vars_key: str | None, inject: bool) -> dict:
    item = {"type": "template", "template": "{{ tag(query) if tag is defined else query }}"}
    if vars_key is not None:
        item["vars"] = os.path.join(TMP, VARS_FILES[vars_key])
    if inject:
        item.update(OPT_IN)
    return item


def tmpl_finalizer(vars_key: str | None, inject: bool) -> dict:
    item = {
        "type": "template",
        "template": "{% for q in queries %}{{ tag(q) if tag is defined else q }};{% endfor %}",
    }
    if vars_key is not None:
        item["vars"] = os.path.join(TMP, VARS_FILES[vars_key])
    if inject:
        item.update(OPT_IN)
    return item


def nest(items: list, depth: int, inject: bool, key: str = "items", type_: str = "nest") -> dict:
    for _ in range(depth):
        wrapper = {"type": type_, key: items}
        if inject:
            wrapper.update(OPT_IN)
        items = [wrapper]
    return items[0] if depth else items


def as_list(x) -> list:
    return x if isinstance(x, list) else [x]


def ext_doc(kind: str, depth: int, inject: bool) -> dict:
    return {
        "name": f"ext-{kind}-{depth}",
        "priority": 10,
        "transformations": as_list(nest([ext_item(kind, inject)], depth, inject)),
    }


def post_doc(vars_key, depth: int, inject: bool) -> dict:
    return {
        "name": "post",
        "postprocessing": as_list(nest([tmpl_item(vars_key, inject)], depth, inject)),
    }


def fin_doc(vars_key, depth: int, inject: bool) -> dict:
    return {
        "name": "fin",
        "finalizers": as_list(
            nest([tmpl_finalizer(vars_key, inject)], depth, inject, "finalizers", "nested")
        ),
    }


# ---------------------------------------------------------------------------------------------
# observation
# ---------------------------------------------------------------------------------------------
def flags(pipeline: ProcessingPipeline) -> list:
    found = []

    def visit(obj, where: str) -> None:
        if isinstance(obj, ExternalSourceBaseTransformation):
            found.append((where, type(obj).__name__, "ext", obj.allow_external_sources))
        if isinstance(obj, TemplateBase):
            found.append(
                (
                    where,
                    type(obj).__name__,
                    "tmpl",
                    obj.allow_template_vars,
                    norm(obj.vars_allowed_paths),
                )
            )
        nested = getattr(obj, "_nested_pipeline", None)
        if nested is not None:
            walk(nested, where + "/nested")

    def walk(p: ProcessingPipeline, where: str) -> None:
        for n, i in enumerate(p.items):
            visit(i.transformation, f"{where}/t{n}")
        for n, i in enumerate(p.postprocessing_items):
            visit(i.transformation, f"{where}/p{n}")
        for n, i in enumerate(p.finalizers):
            visit(i, f"{where}/f{n}")

    walk(pipeline, "")
    return found


def observe(label: str, loader, convert: bool = True, output_format: str = "default") -> None:
    global recording
    del events[:]
    print(f"--- {label}")
    recording = True
    try:
        try:
            pipeline = loader()
        except BaseException as e:
            print("  load raised", type(e).__name__, norm(e), "| cause:", type(e.__cause__).__name__)
            return
        print(
            "  loaded",
            pipeline.name,
            pipeline.priority,
            len(pipeline.items),
            len(pipeline.postprocessing_items),
            len(pipeline.finalizers),
            sorted(pipeline.vars),
        )
        for f in flags(pipeline):
            print("  flag", f)
        if convert:
            try:
                backend = TextQueryTestBackend(pipeline)
                result = backend.convert(SigmaCollection.from_yaml(RULE), output_format)
                print("  converted", norm(result))
            except BaseException as e:
                print("  convert raised", type(e).__name__, norm(e)[:230])
    finally:
        recording = False
        print("  events", events)
        print("  markers", marker_lines())


def set_env(name: str, value) -> None:
    if value is None:
        os.environ.pop(name, None)
    else:
        os.environ[name] = value


def from_dict_loader(doc: dict, **kwargs):
    return lambda: ProcessingPipeline.from_dict(copy.deepcopy(doc), **kwargs)


def from_yaml_loader(doc: dict, **kwargs):
    text = yaml.safe_dump(doc)
    return lambda: ProcessingPipeline.from_yaml(text, **kwargs)


set_env(ENV_EXT, None)
set_env(ENV_VARS, None)

print("=== 1. external sources, default arguments, opt-in keys injected at every level")
for kind in ("file", "http", "command", "command_list"):
    for depth in (0, 1, 3):
        doc = ext_doc(kind, depth, True)
        observe(f"from_dict {kind} depth {depth}", from_dict_loader(doc))
        observe(f"from_yaml {kind} depth {depth}", from_yaml_loader(doc), convert=depth == 3)

print("=== 2. external sources, caller opt-in")
for kind in ("file", "http", "command", "command_list"):
    for depth in (0, 2):
        for inject in (False, True):
            doc = ext_doc(kind, depth, inject)
            observe(
                f"from_dict {kind} depth {depth} inject {inject} allow",
                from_dict_loader(doc, allow_external_sources=True),
            )
observe(
    "from_yaml file depth 0 allow, other opt-ins only",
    from_yaml_loader(
        ext_doc("file", 0, True), allow_template_vars=True, vars_allowed_paths=("/",)
    ),
)

print("=== 3. external sources, environment variable")
for value in (None, "0", "1", "true", "TRUE", "yes", ""):
    set_env(ENV_EXT, value)
    observe(f"env {value!r} file depth 1", from_yaml_loader(ext_doc("file", 1, True)))
    observe(f"env {value!r} command depth 0", from_dict_loader(ext_doc("command", 0, False)))
set_env(ENV_EXT, None)

print("=== 4. template vars, default arguments, opt-in keys injected at every level")
for make, fmt in ((post_doc, "default"), (fin_doc, "default")):
    for depth in (0, 1, 3):
        for vars_key in (None, "inside"):
            doc = make(vars_key, depth, True)
            observe(f"from_dict {make.__name__} {vars_key} depth {depth}", from_dict_loader(doc))
            observe(f"from_yaml {make.__name__} {vars_key} depth {depth}", from_yaml_loader(doc))

print("=== 5. template vars, caller opt-in x allowed paths x location of the vars file")
ALLOWED = os.path.join(TMP, "allowed")
PIPELINE_FILE = os.path.join(ALLOWED, "pipeline.yml")
PIPELINE_LINK = os.path.join(TMP, "outside", "pipeline-link.yml")
for make in (post_doc, fin_doc):
    for depth in (0, 2):
        for vars_key in VARS_FILES:
            doc = make(vars_key, depth, True)
            observe(
                f"{make.__name__} {vars_key} depth {depth} allow, no paths",
                from_dict_loader(doc, allow_template_vars=True),
                convert=vars_key == "inside",
            )
            observe(
                f"{make.__name__} {vars_key} depth {depth} allow, paths=(allowed,)",
                from_dict_loader(doc, allow_template_vars=True, vars_allowed_paths=(ALLOWED,)),
            )
            observe(
                f"{make.__name__} {vars_key} depth {depth} allow, source_path=allowed/pipeline.yml",
                from_yaml_loader(doc, allow_template_vars=True, source_path=PIPELINE_FILE),
                convert=False,
            )
for vars_key in ("inside", "outside", "prefix"):
    doc = post_doc(vars_key, 0, True)
    observe(
        f"post_doc {vars_key} paths=() allow",
        from_yaml_loader(doc, allow_template_vars=True, vars_allowed_paths=()),
        convert=False,
    )
    observe(
        f"post_doc {vars_key} paths=(outside,) and source_path in allowed",
        from_yaml_loader(
            doc,
            allow_template_vars=True,
            vars_allowed_paths=(os.path.join(TMP, "outside"),),
            source_path=PIPELINE_FILE,
        ),
        convert=False,
    )
    observe(
        f"post_doc {vars_key} source_path without opt-in",
        from_yaml_loader(doc, source_path=PIPELINE_FILE),
        convert=False,
    )
    observe(
        f"post_doc {vars_key} relative source_path",
        from_yaml_loader(doc, allow_template_vars=True, source_path="pipeline.yml"),
        convert=False,
    )

print("=== 6. template vars, environment variable")
for value in (None, "0", "1", "true", "True", "on"):
    set_env(ENV_VARS, value)
    for vars_key in ("inside", "outside"):
        observe(
            f"env {value!r} fin_doc {vars_key} depth 1, source_path",
            from_yaml_loader(fin_doc(vars_key, 1, True), source_path=PIPELINE_FILE),
        )
        observe(
            f"env {value!r} post_doc {vars_key} depth 0, no paths",
            from_dict_loader(post_doc(vars_key, 0, True)),
            convert=False,
        )
set_env(ENV_VARS, None)

print("=== 7. pipeline files through the resolver (allowed paths derived from the location)")
for vars_key in ("inside", "inside_sub", "outside", "symlink", "prefix"):
    doc = dict(post_doc(vars_key, 0, True), transformations=[ext_item("file", True)])
    with open(PIPELINE_FILE, "w") as f:
        yaml.safe_dump(doc, f)
    if not os.path.lexists(PIPELINE_LINK):
        os.symlink(PIPELINE_FILE, PIPELINE_LINK)
    resolver = ProcessingPipelineResolver()
    for env in (None, "1"):
        set_env(ENV_VARS, env)
        observe(
            f"resolve_pipeline {vars_key} env {env!r}",
            lambda: resolver.resolve_pipeline(PIPELINE_FILE),
        )
        observe(
            f"resolve via symlinked pipeline file {vars_key} env {env!r}",
            lambda: resolver.resolve([PIPELINE_LINK]),
            convert=False,
        )
    set_env(ENV_VARS, None)

print("=== 8. all sections in one document, numbering of errors, odd documents")
full = {
    "name": "full",
    "priority": 7,
    "vars": {"v": 1},
    "allowed_backends": ["text"],
    "transformations": [
        {"type": "field_name_prefix", "prefix": "x."},
        ext_item("file", True),
        nest([ext_item("command_list", True)], 1, True),
    ],
    "postprocessing": [
        {"type": "embed", "prefix": "[", "suffix": "]"},
        tmpl_item("inside", True),
    ],
    "finalizers": [{"type": "concat", "separator": " | "}, tmpl_finalizer("inside_sub", True)],
}
observe("full default", from_dict_loader(full))
observe(
    "full all opt-ins",
    from_dict_loader(
        full, allow_template_vars=True, vars_allowed_paths=(ALLOWED,), allow_external_sources=True
    ),
)
observe(
    "full all opt-ins yaml + source_path",
    from_yaml_loader(
        full, allow_template_vars=True, source_path=PIPELINE_FILE, allow_external_sources=True
    ),
)
odd_docs = {
    "empty dict": {},
    "transformations null": {"transformations": None},
    "postprocessing null": {"postprocessing": None},
    "transformations string": {"transformations": "nest"},
    "transformations dict": {"transformations": {"type": "nest"}},
    "item not a dict": {"transformations": [{"type": "set_state", "key": "a", "val": "b"}, 5]},
    "second transformation unknown": {
        "transformations": [
            {"type": "set_state", "key": "a", "val": "b"},
            {"type": "no_such_type"},
        ],
        "postprocessing": [{"type": "no_such_type"}],
    },
    "third postprocessing item lacks type": {
        "transformations": [],
        "postprocessing": [
            {"type": "embed", "prefix": "a"},
            {"type": "embed", "suffix": "b"},
            {"prefix": "a"},
        ],
    },
    "bad parameter of external item": {
        "transformations": [dict(ext_item("file", True), format="xml")]
    },
    "bad parameter in nested item": {
        "transformations": [
            {"type": "set_state", "key": "a", "val": "b"},
            nest([{"type": "set_state", "key": "a"}], 2, True),
        ]
    },
    "nest without items": {"postprocessing": [{"type": "nest"}]},
    "bad condition": {
        "transformations": [
            {"type": "set_state", "key": "a", "val": "b", "rule_conditions": [{"type": "nope"}]}
        ]
    },
    "unknown top-level keys": dict(OPT_IN, transformations=[ext_item("file", True)]),
    "opt-in keys in vars": {"vars": dict(OPT_IN), "transformations": [ext_item("file", True)]},
    "tuple sections": {
        "transformations": (ext_item("command", True),),
        "postprocessing": (tmpl_item(None, True),),
    },
    "generator section": None,
}
for label, doc in odd_docs.items():
    if doc is None:
        observe(
            label,
            lambda: ProcessingPipeline.from_dict(
                {"transformations": (ext_item(k, True) for k in ("file", "command"))}
            ),
        )
    else:
        observe(label, from_dict_loader(doc))
for label, text in {
    "yaml syntax error": "transformations: [",
    "yaml scalar": "just a string",
    "yaml empty": "",
    "yaml list": "- a\n- b\n",
}.items():
    observe(
        label,
        lambda: ProcessingPipeline.from_yaml(
            text, allow_template_vars=True, source_path=PIPELINE_FILE
        ),
        convert=False,
    )

shutil.rmtree(TMP)
print("done")
