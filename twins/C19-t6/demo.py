"""Demo for C19/t6: validators only observe; wildcard/value validators report the same issues."""
import itertools
import sys

import sigma.types
from sigma.backends.test import TextQueryTestBackend
from sigma.collection import SigmaCollection
from sigma.modifiers import SigmaContainsModifier, SigmaEndswithModifier, SigmaStartswithModifier
from sigma.rule import SigmaDetectionItem, SigmaRule
from sigma.types import Placeholder, SigmaNumber, SigmaString, SpecialChars
from sigma.validation import SigmaValidator
from sigma.validators.core import validators
from sigma.validators.core.values import (
    ControlCharacterValidator,
    DoubleWildcardValidator,
    EscapedWildcardValidator,
    NumberAsStringValidator,
    WildcardsInsteadOfModifiersValidator,
)

print("sigma.types from", sigma.types.__file__.replace("/tmp/wt7-C19", "<wt>"))

RULE_TMPL = """
title: {title}
id: {id}
status: test
logsource:
    category: process_creation
    product: windows
detection:
{detection}
    condition: {condition}
"""


def rule_yaml(n, title, detection, condition, rid=None):
    return RULE_TMPL.format(
        title=title,
        id=rid or f"00000000-0000-0000-0000-{n:012d}",
        detection=detection,
        condition=condition,
    )


RULES = [
    rule_yaml(1, "contains by wildcards", "    sel:\n        f: '*abc*'", "sel"),
    rule_yaml(2, "startswith by wildcard", "    sel:\n        f: 'abc*'", "sel"),
    rule_yaml(3, "endswith by wildcard", "    sel:\n        f: '*abc'", "sel"),
    rule_yaml(4, "lists", "    sel:\n        f:\n            - '*a*'\n            - '*b*'\n        g:\n            - '*a'\n            - 'b*'\n        h:\n            - '*a'\n            - '*b*'", "sel"),
    rule_yaml(5, "single star and double", "    sel:\n        f: '*'\n        g: '**'\n        h: 'a**b'\n        i: '***'\n        j: '*?*'", "sel"),
    rule_yaml(6, "inner specials", "    sel:\n        f: '*a*b*'\n        g: '*a?b'\n        h: 'a?b*'\n        i: '?*'\n        j: '*?'", "sel"),
    rule_yaml(7, "with modifiers", "    sel:\n        f|contains: '*abc*'\n        g|endswith: '*abc'\n        h|startswith: 'abc*'\n        i|contains: 'abc*'\n        j|startswith: '*abc*'", "sel"),
    rule_yaml(8, "non strings", "    sel:\n        f: 123\n        g: null\n        h: ''\n        i|re: '.*a.*'\n        j:\n            - 1\n            - '*a*'\n        k|cidr: '10.0.0.0/8'", "sel"),
    rule_yaml(9, "numbers as strings and escapes", "    sel:\n        f: '123'\n        g: '+12'\n        h: ' 12'\n        i: '1_0'\n        j: 'a\\*b'\n        k: 'a\\?b*'\n        l: \"tab\\there\"\n        m: '\\*'", "sel"),
    rule_yaml(10, "keywords and nesting", "    keywords:\n        - '*kw*'\n        - 'kw*'\n    sel:\n        - f: '*a*'\n          g: 'b*'\n        - h: '*c'\n    _unused:\n        x: '**'", "keywords or sel"),
    rule_yaml(11, "dangling and dup", "    sel1:\n        f|all:\n            - '*a*'\n            - '*b*'\n    sel2:\n        g|base64offset: 'abc'\n    them_x:\n        h|windash|contains|all:\n            - '-a'\n            - '-b'", "1 of sel* and not 1 of filter*"),
    rule_yaml(12, "dangling and dup", "    sel:\n        f|contains|contains: 'x'\n        g|wide|base64|base64: 'y'\n        EventID: 1", "sel", rid="00000000-0000-0000-0000-000000000011"),
    rule_yaml(13, "placeholder", "    sel:\n        f|expand: '*%var%*'\n        g|expand: '%var%*'", "sel"),
]

backend_factory = TextQueryTestBackend


def convert_all(coll):
    out = []
    for rule in coll.rules:
        try:
            out.append(backend_factory().convert_rule(rule))
        except Exception as e:  # conversion errors must be the same before and after
            out.append(f"{type(e).__name__}: {e}")
    return out


def issue_strings(issues):
    return sorted(str(i) for i in issues)


def load(order):
    return SigmaCollection.from_yaml("---\n".join(RULES[i] for i in order))


# 1. Full validator set, different rule orders, dict form and queries before/after
validator_classes = sorted(validators.items())
baseline = None
orders = [list(range(len(RULES))), list(reversed(range(len(RULES)))), [5, 0, 9, 3, 12, 1, 7, 11, 2, 10, 4, 8, 6]]
for k, order in enumerate(orders):
    coll = load(order)
    dicts_before = [r.to_dict() for r in coll.rules]
    queries_before = convert_all(coll)
    classes = [cls for _, cls in (validator_classes if k % 2 == 0 else reversed(validator_classes))]
    validator = SigmaValidator(classes)
    issues = issue_strings(validator.validate_rules(coll.rules))
    dicts_after = [r.to_dict() for r in coll.rules]
    queries_after = convert_all(coll)
    assert dicts_before == dicts_after, "rule dict changed by validation"
    assert queries_before == queries_after, "queries changed by validation"
    if baseline is None:
        baseline = issues
        print(f"--- {len(issues)} issues (all validators)")
        for i in issues:
            print(i)
        print("--- queries")
        for q in queries_before:
            print(q)
    else:
        assert issues == baseline, f"issue set depends on order {k}"
    print(f"order {k}: dicts/queries unchanged, {len(issues)} issues, same as baseline: {issues == baseline}")

# 2. Exclusions suppress exactly one validator for one rule id
coll = load(orders[0])
from uuid import UUID

excl_validator = SigmaValidator(
    [cls for _, cls in validator_classes],
    {
        UUID("00000000-0000-0000-0000-000000000001"): {WildcardsInsteadOfModifiersValidator},
        UUID("00000000-0000-0000-0000-000000000005"): {DoubleWildcardValidator},
    },
)
excl_issues = issue_strings(excl_validator.validate_rules(coll.rules))
removed = sorted(set(baseline) - set(excl_issues))
added = sorted(set(excl_issues) - set(baseline))
print("--- removed by exclusions")
for i in removed:
    print(i)
print("added by exclusions:", added)

# 3. Value validators directly on hand-built strings and detection items (unusual shapes)
rule = SigmaRule.from_yaml(RULES[0])


def mk(parts):
    s = SigmaString()
    s.s = parts
    return s


W, Q = SpecialChars.WILDCARD_MULTI, SpecialChars.WILDCARD_SINGLE
strings = {
    "empty": mk([]),
    "empty-tuple": mk(()),
    "W": mk([W]),
    "WW": mk([W, W]),
    "WW-tuple": mk((W, W)),
    "WQW": mk([W, Q, W]),
    "aWWb": mk(["a", W, W, "b"]),
    "aWbW": mk(["a", W, "b", W]),
    "W-ph-W": mk([W, Placeholder("x"), W]),
    "ph-W-W": mk([Placeholder("x"), W, W]),
    "literal-star-W": mk(["*", W]),
    "W-empty-W": mk([W, "", W]),
    "ctl": mk(["a\tb"]),
    "ctl-after-W": mk([W, "\x00"]),
    "num": mk(["42"]),
    "num-two-parts": mk(["4", "2"]),
    "num-ws": mk(["\t42"]),
    "num-uni": mk(["\u0664\u0662"]),
    "escaped": mk(["a*b"]),
    "escaped-q": mk([W, "a?"]),
    "from_str": SigmaString.from_str("*x*"),
    "parsed": SigmaString("*x**y*"),
}
string_validators = [
    DoubleWildcardValidator,
    NumberAsStringValidator,
    ControlCharacterValidator,
    EscapedWildcardValidator,
]
print("--- string validators")
for name, s in strings.items():
    parts_before = (type(s.s), list(s.s))
    res = []
    for cls in string_validators:
        v = cls()
        v.validate(rule)
        res.append(f"{cls.__name__}={[type(i).__name__ for i in v.validate_string(s)]}")
        res.append(f"v={[type(i).__name__ for i in v.validate_value(s)]}")
    assert parts_before == (type(s.s), list(s.s))
    print(name, *res)

print("--- wildcard detection items")
value_sets = {
    "none-original": None,
    "empty-list": [],
    "WaW": [mk([W, "a", W])],
    "Wa": [mk([W, "a"])],
    "aW": [mk(["a", W])],
    "W": [mk([W])],
    "WW": [mk([W, W])],
    "WWW": [mk([W, W, W])],
    "WQW": [mk([W, Q, W])],
    "QW": [mk([Q, W])],
    "WQ": [mk([W, Q])],
    "W-ph-W": [mk([W, Placeholder("p"), W])],
    "ph-W": [mk([Placeholder("p"), W])],
    "mixed WaW,Wa": [mk([W, "a", W]), mk([W, "a"])],
    "mixed WaW,aW": [mk([W, "a", W]), mk(["a", W])],
    "mixed Wa,aW": [mk([W, "a"]), mk(["a", W])],
    "WaW,number": [mk([W, "a", W]), SigmaNumber(1)],
    "number": [SigmaNumber(1)],
    "empty-string": [mk([])],
    "one-char": [mk(["a"])],
    "W-emptystr": [mk([W, ""])],
    "literal": [mk(["*a*"])],
}
modifier_sets = [
    [],
    [SigmaContainsModifier],
    [SigmaEndswithModifier],
    [SigmaStartswithModifier],
    [SigmaContainsModifier, SigmaEndswithModifier],
    [SigmaStartswithModifier, SigmaEndswithModifier],
]
wv = WildcardsInsteadOfModifiersValidator()
wv.validate(rule)
for (vname, values), mods in itertools.product(value_sets.items(), modifier_sets):
    item = SigmaDetectionItem("f", [], [SigmaNumber(0)], auto_modifiers=False)
    item.modifiers = list(mods)
    item.original_value = values
    snapshot = None if values is None else [(type(v).__name__, list(getattr(v, "s", []))) for v in values]
    got = wv.validate_detection_item(item)
    assert all(i.rules == [rule] and i.detection_item is item for i in got)
    after = None if values is None else [(type(v).__name__, list(getattr(v, "s", []))) for v in values]
    assert snapshot == after and item.modifiers == list(mods)
    print(f"{vname:16} mods={[m.__name__ for m in mods]} -> {[type(i).__name__ for i in got]}")

print("OK")
sys.exit(0)
