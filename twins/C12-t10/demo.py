"""Placeholder expansion through pipelines: queries, errors and low-level results.

Prints everything it observes; exits 0 if nothing unexpected (i.e. an exception that is not a
Sigma error) happens.
"""

import sys

from sigma.backends.test import TextQueryTestBackend
from sigma.collection import SigmaCollection
from sigma.exceptions import SigmaError
from sigma.processing.pipeline import ProcessingPipeline
from sigma.processing.transformations import (
    QueryExpressionPlaceholderTransformation,
    ValueListPlaceholderTransformation,
    WildcardPlaceholderTransformation,
)
from sigma.types import Placeholder, SigmaCasedString, SigmaRegularExpression, SigmaString, SpecialChars

RULE = """
title: Demo
status: test
logsource:
    category: test
    product: test
detection:
    sel:
{items}
    condition: {condition}
"""

DETECTIONS = {
    "single": ("        user|expand: '%admins%'", "sel"),
    "prefix-suffix": ("        path|expand: 'C:\\Users\\%admins%\\AppData\\*'", "sel"),
    "two-placeholders": ("        cmd|expand: '%tools% -u %admins%!'", "sel"),
    "same-twice": ("        cmd|expand: '%admins%=%admins%'", "sel"),
    "list-or": (
        "        user|expand:\n            - '%admins%'\n            - 'plain'\n            - '%empty%x'",
        "sel",
    ),
    "list-all": (
        "        cmd|contains|all|expand:\n            - '%tools%'\n            - 'fixed'\n            - '-u %admins%'",
        "sel",
    ),
    "all-single-repl": (
        "        cmd|contains|all|expand:\n            - '%one%'\n            - '%number%'",
        "sel",
    ),
    "all-empty": (
        "        cmd|contains|all|expand:\n            - '%empty%'\n            - 'rest'",
        "sel",
    ),
    "keyword": ("        - '%admins%'\n        - 'other'", "sel"),
    "keyword-expand": ("        '|expand':\n            - 'x%admins%y'\n            - 'other'", "sel"),
    "regex": ("        cmd|re|expand: '^%tools%\\s+%admins%$'", "sel"),
    "regex-i": ("        cmd|re|i|expand: 'a%%b%one%'", "sel"),
    "cased": ("        user|cased|expand: 'Dom\\%admins%'", "sel"),
    "windash": ("        cmd|windash|expand: '-x %tools%'", "sel"),
    "negated": ("        user|expand: '%admins%'\n        other: 1", "not sel"),
    "unknown": ("        user|expand: '%nosuchvar%'", "sel"),
    "number-value": ("        port: 80\n        user|expand: '%number%'", "sel"),
    "no-placeholder": ("        user: 'nobody%'\n        x|expand: 'no placeholder'", "sel"),
    "escaped-percent": ("        user|expand: '100\\%admins\\% %one%'", "sel"),
    "fieldref": ("        a|fieldref: b\n        user|expand: '%one%'", "sel"),
    "badtype": ("        user|expand: '%badtype%'", "sel"),
    "nested-list": ("        user|expand: '%nestedlist%'", "sel"),
    "only-q": ("        user|expand: '%admins%'\n        host|expand: 'srv-%tools%'", "sel"),
}

VARS = """
vars:
    admins: [root, "adm*n", "do\\\\main"]
    tools: [psexec, "wm?c"]
    one: single
    number: 4711
    floatv: 1.5
    boolv: true
    empty: []
    badtype: {a: 1}
    nestedlist: [ok, [1, 2]]
"""

PIPELINES = {
    "value_list": """
name: p
priority: 10
transformations:
    - id: vl
      type: value_placeholders
""" + VARS,
    "value_list-include": """
name: p
priority: 10
transformations:
    - id: vl
      type: value_placeholders
      include: [admins, one]
    - id: wc
      type: wildcard_placeholders
""" + VARS,
    "value_list-exclude": """
name: p
priority: 10
transformations:
    - id: vl
      type: value_placeholders
      exclude: [tools, nosuchvar, empty, badtype, nestedlist]
    - id: wc
      type: wildcard_placeholders
""" + VARS,
    "wildcard": """
name: p
priority: 10
transformations:
    - id: wc
      type: wildcard_placeholders
""",
    "wildcard-identity": """
name: p
priority: 10
transformations:
    - id: wc
      type: wildcard_placeholders
      include: [doesnotoccur]
""",
    "query_expression": """
name: p
priority: 10
transformations:
    - id: qe
      type: query_expression_placeholders
      expression: "{field} lookup {id}"
      mapping:
          admins: admin_list
          one: ""
      include: [admins, one, number]
    - id: wc
      type: wildcard_placeholders
""",
    "conditional": """
name: p
priority: 10
transformations:
    - id: vl
      type: value_placeholders
      field_name_conditions:
          - type: include_fields
            fields: [user]
    - id: wc
      type: wildcard_placeholders
      detection_item_conditions:
          - type: processing_item_applied
            processing_item_id: vl
      detection_item_condition_negation: true
""" + VARS,
    "none": None,
}


def convert(pipeline_yaml, rule_yaml):
    pipeline = ProcessingPipeline.from_yaml(pipeline_yaml) if pipeline_yaml is not None else None
    backend = TextQueryTestBackend(pipeline)
    rules = SigmaCollection.from_yaml(rule_yaml)
    result = backend.convert(rules)
    rule = rules.rules[0]
    applied = sorted(
        str(i) for i in (backend.last_processing_pipeline.applied_ids if pipeline else [])
    )
    plain = None
    try:
        plain = rule.detection.detections["sel"].to_plain()
    except SigmaError as e:
        plain = f"{type(e).__name__}: {e}"
    return result, applied, plain


def part1():
    print("== conversions")
    for pname, pyaml in PIPELINES.items():
        for dname, (items, cond) in DETECTIONS.items():
            rule_yaml = RULE.format(items=items, condition=cond)
            try:
                result, applied, plain = convert(pyaml, rule_yaml)
                print(f"{pname:20} {dname:18} -> {result!r} applied={applied} plain={plain!r}")
            except SigmaError as e:
                print(f"{pname:20} {dname:18} !! {type(e).__name__}: {e}")


def show(x):
    if isinstance(x, list):
        return "[" + ", ".join(show(i) for i in x) + "]"
    if isinstance(x, SigmaRegularExpression):
        return f"{type(x).__name__}({x.regexp.s!r}, flags={sorted(f.name for f in x.flags)})"
    if isinstance(x, SigmaString):
        return f"{type(x).__name__}({x.s!r})"
    return repr(x)


def part2():
    print("== SigmaString.replace_placeholders, callback call order")
    calls = []

    def make_callback(table):
        def callback(p):
            calls.append(p.name)
            for v in table[p.name]:
                calls.append(f"  yield {v!r}")
                yield v

        return callback

    tables = {
        "plain": {"a": ["1", "2"], "b": ["x", SpecialChars.WILDCARD_MULTI, SigmaString("y*z")]},
        "first-empty": {"a": [], "b": ["x"]},
        "second-empty": {"a": ["1", "2"], "b": []},
        "pass-back": {"a": [Placeholder("a")], "b": ["x", Placeholder("c")]},
        "missing-b": {"a": ["1"]},
    }
    strings = [
        SigmaString("pre%a%mid%b%post").insert_placeholders(),
        SigmaString("%a%").insert_placeholders(),
        SigmaString("%a%%a%%b%").insert_placeholders(),
        SigmaString("no placeholder * here").insert_placeholders(),
        SigmaString("").insert_placeholders(),
        SigmaCasedString("Cased%a%\\*?").insert_placeholders(),
        SigmaRegularExpression("^%a%.*\\d%b%$").insert_placeholders(),
        SigmaRegularExpression("plain.*regex"),
    ]
    for tname, table in tables.items():
        for s in strings:
            calls.clear()
            try:
                res = s.replace_placeholders(make_callback(table))
                same = len(res) == 1 and res[0] is s
                print(f"{tname:13} {show(s)} -> {show(res)} same_object={same}")
            except Exception as e:  # KeyError of the demo callback is expected for missing-b
                print(f"{tname:13} {show(s)} !! {type(e).__name__}: {e}")
            print("      calls:", calls)


def part3():
    print("== transformation objects used directly")
    for kwargs in (
        {},
        {"include": ["a"]},
        {"exclude": ["a"]},
        {"include": []},
        {"exclude": []},
        {"include": ["a"], "exclude": ["b"]},
    ):
        for cls in (
            WildcardPlaceholderTransformation,
            ValueListPlaceholderTransformation,
            QueryExpressionPlaceholderTransformation,
        ):
            try:
                t = cls(**kwargs)
                handled = [t.is_handled_placeholder(Placeholder(n)) for n in ("a", "b", "")]
                print(f"{cls.__name__} {kwargs} handled(a,b,'')={handled}")
            except SigmaError as e:
                print(f"{cls.__name__} {kwargs} !! {type(e).__name__}: {e}")
    # attributes changed after construction: both lists set
    t = WildcardPlaceholderTransformation(include=["a"])
    t.exclude = ["a", "b"]
    print("both set:", [t.is_handled_placeholder(Placeholder(n)) for n in ("a", "b", "c")])

    # value list transformation without pipeline and with odd variables
    t = ValueListPlaceholderTransformation()
    for name in ("x",):
        try:
            print(t.placeholder_replacements(Placeholder(name)))
        except SigmaError as e:
            print(f"no pipeline !! {type(e).__name__}: {e}")
    for value in ("s", 1, 1.5, True, None, [], ["a", 2, 2.5, False], ["a", None], (1, 2), {"k": 1}, [[]], ""):
        pipeline = ProcessingPipeline(vars={"v": value})
        t = ValueListPlaceholderTransformation()
        t.set_pipeline(pipeline)
        try:
            print(f"vars v={value!r} -> {show(t.placeholder_replacements(Placeholder('v')))}")
        except SigmaError as e:
            print(f"vars v={value!r} !! {type(e).__name__}: {e}")
        try:
            print(f"   other -> {show(t.placeholder_replacements(Placeholder('other')))}")
        except SigmaError as e:
            print(f"   other !! {type(e).__name__}: {e}")


if __name__ == "__main__":
    part1()
    part2()
    part3()
    sys.exit(0)
