"""
Demo for C05/t9: choice of the startswith/endswith/contains/match/eq expression for string values
in TextQueryBackend.convert_condition_field_eq_val_str(_case_sensitive) and the rendering of the
remaining string part (query literal and regular expression).

Run: PYTHONPATH=/tmp/wt10-C05 /venv/bin/python demo.py
"""

import itertools
import random
import re
from typing import ClassVar

import sigma.types
from sigma.backends.test import TextQueryTestBackend
from sigma.collection import SigmaCollection
from sigma.conditions import ConditionFieldEqualsValueExpression
from sigma.conversion.state import ConversionState
from sigma.types import Placeholder, SigmaCasedString, SigmaString, SpecialChars

print("module:", sigma.types.__file__.replace("/tmp/wt10-C05/", ""))


class RegexBackend(TextQueryTestBackend):
    """All templates show the literal and the regular expression."""

    eq_expression: ClassVar[str] = "{field} eq {value} ~ /{regex}/"
    startswith_expression: ClassVar[str] = "{field} sw {value} ~ /{regex}/"
    endswith_expression: ClassVar[str] = "{field} ew {value} ~ /{regex}/"
    contains_expression: ClassVar[str] = "{field} ct {value} ~ /{regex}/"
    wildcard_match_expression: ClassVar[str] = "{field} wm {value} ~ /{regex}/"
    case_sensitive_match_expression = "{field} cm {value} ~ /{regex}/"
    case_sensitive_startswith_expression: ClassVar[str] = "{field} csw {value} ~ /{regex}/"
    case_sensitive_endswith_expression: ClassVar[str] = "{field} cew {value} ~ /{regex}/"
    case_sensitive_contains_expression: ClassVar[str] = "{field} cct {value} ~ /{regex}/"
    add_escaped_re: ClassVar[str] = "/"


class AllowSpecialBackend(RegexBackend):
    startswith_expression_allow_special: ClassVar[bool] = True
    endswith_expression_allow_special: ClassVar[bool] = True
    contains_expression_allow_special: ClassVar[bool] = True
    case_sensitive_startswith_expression_allow_special: ClassVar[bool] = True
    case_sensitive_endswith_expression_allow_special: ClassVar[bool] = True
    case_sensitive_contains_expression_allow_special: ClassVar[bool] = True


class MixedAllowBackend(RegexBackend):
    endswith_expression_allow_special: ClassVar[bool] = True
    case_sensitive_contains_expression_allow_special: ClassVar[bool] = True


class OnlyContainsBackend(RegexBackend):
    startswith_expression: ClassVar[str | None] = None
    endswith_expression: ClassVar[str | None] = None
    case_sensitive_startswith_expression: ClassVar[str | None] = None
    case_sensitive_endswith_expression: ClassVar[str | None] = None


class OnlyEndswithBackend(RegexBackend):
    startswith_expression: ClassVar[str | None] = None
    contains_expression: ClassVar[str | None] = None
    case_sensitive_startswith_expression: ClassVar[str | None] = None
    case_sensitive_contains_expression: ClassVar[str | None] = None


class NoOperatorBackend(RegexBackend):
    startswith_expression: ClassVar[str | None] = None
    endswith_expression: ClassVar[str | None] = None
    contains_expression: ClassVar[str | None] = None
    wildcard_match_expression: ClassVar[str | None] = None
    case_sensitive_startswith_expression: ClassVar[str | None] = None
    case_sensitive_endswith_expression: ClassVar[str | None] = None
    case_sensitive_contains_expression: ClassVar[str | None] = None
    case_sensitive_match_expression = None


class OtherTokensBackend(RegexBackend):
    """Multi-character wildcards, another escape character, unquoted plain words."""

    str_quote: ClassVar[str] = "'"
    str_quote_pattern: ClassVar[re.Pattern[str]] = re.compile(r"^\w*$")
    str_quote_pattern_negation: ClassVar[bool] = True
    escape_char: ClassVar[str] = "^"
    wildcard_multi: ClassVar[str] = "%%"
    wildcard_single: ClassVar[str] = "_"
    add_escaped: ClassVar[str] = "^%"
    filter_chars: ClassVar[str] = "x"


class NoSingleWildcardBackend(RegexBackend):
    wildcard_single: ClassVar[str | None] = None


class NotEqBackend(RegexBackend):
    convert_not_as_not_eq: ClassVar[bool] = True
    not_eq_expression: ClassVar[str] = "{field} neq {value}"
    not_startswith_expression: ClassVar[str] = "{field} nsw {value}"
    not_endswith_expression: ClassVar[str] = "{field} new {value}"
    not_contains_expression: ClassVar[str] = "{field} nct {value}"
    case_sensitive_not_startswith_expression: ClassVar[str] = "{field} ncsw {value}"
    case_sensitive_not_endswith_expression: ClassVar[str | None] = None
    case_sensitive_not_contains_expression: ClassVar[str] = "{field} ncct {value}"


BACKENDS = [
    TextQueryTestBackend,
    RegexBackend,
    AllowSpecialBackend,
    MixedAllowBackend,
    OnlyContainsBackend,
    OnlyEndswithBackend,
    NoOperatorBackend,
    OtherTokensBackend,
    NoSingleWildcardBackend,
]

VALUES = [
    "",
    "*",
    "**",
    "***",
    "?",
    "*?",
    "?*",
    "*?*",
    "abc",
    "abc*",
    "*abc",
    "*abc*",
    "a*c",
    "*a*c",
    "a*c*",
    "*a*c*",
    "*a?c*",
    "a?c*",
    "*a?c",
    "\\*abc",
    "abc\\*",
    "\\*abc\\*",
    "*abc\\*",
    "\\*abc*",
    "abc\\\\*",
    "*\\\\abc",
    "abc\\",
    "*abc\\",
    '*a"b*',
    "a'b*",
    "*a:b&c",
    "*x^%_y*",
    "*.+(|)[]{}$/*",
    "*ends with bar*",
    "C:\\Windows\\*",
    "*\\cmd.exe",
    "*\\\\?\\*",
    "*\u00e4\u00f6\u00fc \U0001f600*",
    "* *",
    "*\n*",
]


def show(func):
    try:
        return repr(func())
    except Exception as e:  # exception class and message are part of the behaviour
        return f"{type(e).__name__}: {e}"


def direct(backend, value):
    cond = ConditionFieldEqualsValueExpression("field name", value)
    state = ConversionState()
    if isinstance(value, SigmaCasedString):
        return show(lambda: backend.convert_condition_field_eq_val_str_case_sensitive(cond, state))
    return show(lambda: backend.convert_condition_field_eq_val_str(cond, state))


print("== direct calls: fixed values ==")
for backend_class in BACKENDS:
    backend = backend_class()
    print("--", backend_class.__name__)
    for v in VALUES:
        for cls in (SigmaString, SigmaCasedString):
            value = cls(v)
            parts_before = list(value.s)
            print(f"{cls.__name__[5:]:12} {v!r:24} -> {direct(backend, value)}")
            assert value.s == parts_before and value.original == v  # value is left untouched

print("== direct calls: strings with placeholders and hand-made parts ==")
hand_made = []
for parts in (
    [SpecialChars.WILDCARD_MULTI, Placeholder("p"), SpecialChars.WILDCARD_MULTI],
    [SpecialChars.WILDCARD_MULTI, "a", Placeholder("p")],
    [Placeholder("p"), SpecialChars.WILDCARD_MULTI],
    ["a", "b", SpecialChars.WILDCARD_MULTI],
    [SpecialChars.WILDCARD_MULTI, "", SpecialChars.WILDCARD_MULTI],
    [SpecialChars.WILDCARD_MULTI, "a*b?", SpecialChars.WILDCARD_MULTI],
    [],
):
    for cls in (SigmaString, SigmaCasedString):
        s = cls()
        s.s = list(parts)
        hand_made.append(s)
for backend_class in (RegexBackend, AllowSpecialBackend, NoOperatorBackend):
    backend = backend_class()
    print("--", backend_class.__name__)
    for value in hand_made:
        print(f"{value!r:70} -> {direct(backend, value)}")

print("== direct calls: wrong value types ==")
backend = RegexBackend()
for wrong in ("*abc*", 5, None, sigma.types.SigmaNumber(1)):
    cond = ConditionFieldEqualsValueExpression("f", wrong)
    print(repr(wrong), show(lambda: backend.convert_condition_field_eq_val_str(cond, ConversionState())))
    print(
        repr(wrong),
        show(lambda: backend.convert_condition_field_eq_val_str_case_sensitive(cond, ConversionState())),
    )

print("== direct calls: exhaustive short strings and random long ones ==")
ALPHABET = ["*", "?", "\\", "a", '"', ":"]
rnd = random.Random(5)
generated = ["".join(t) for n in range(0, 4) for t in itertools.product(ALPHABET, repeat=n)]
generated += [
    "".join(rnd.choice(ALPHABET + ["&", ".", "x", "%", "^", "/"]) for _ in range(rnd.randint(4, 14)))
    for _ in range(300)
]
for backend_class in (RegexBackend, MixedAllowBackend, OnlyEndswithBackend, OtherTokensBackend):
    backend = backend_class()
    print("--", backend_class.__name__, len(generated))
    for v in generated:
        print(f"{v!r:40} -> {direct(backend, SigmaString(v))} | {direct(backend, SigmaCasedString(v))}")

print("== whole rules ==")
RULE = """
title: Test
status: test
logsource:
    category: test_category
    product: test_product
detection:
    sel:
        fieldA|{modifier}: {value}
    other:
        'field B': {value}
    condition: {condition}
"""
for backend_class in (TextQueryTestBackend, RegexBackend, NotEqBackend, AllowSpecialBackend):
    print("--", backend_class.__name__)
    for modifier in ("contains", "startswith", "endswith", "cased", "contains|cased", "endswith|cased"):
        for value in ("abc", "'*abc'", "'a*c*'", "'*a?c*'", "'x\\*'", "'*'", "'a\"b:c&d'", "'*\\\\'"):
            for condition in ("sel", "not sel", "sel and not other", "not (sel or other)"):
                rule = RULE.format(modifier=modifier, value=value, condition=condition)
                result = show(lambda: backend_class().convert(SigmaCollection.from_yaml(rule)))
                print(f"{modifier:15} {value:12} {condition:20} -> {result}")
    # the negated expressions are swapped on the class only during conversion
    print(
        "class attributes afterwards:",
        backend_class.eq_expression,
        "|",
        backend_class.startswith_expression,
        "|",
        backend_class.case_sensitive_endswith_expression,
        "|",
        backend_class.contains_expression,
    )

print("== plain form, parsed again ==")
for v in VALUES:
    s = SigmaString(v)
    print(repr(v), repr(s.to_plain()), SigmaString(s.to_plain()) == s, repr(s.to_regex().regexp))
