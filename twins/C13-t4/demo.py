"""Demo for C13/t4: condition expressions (parser, binary operator tree, evaluation) and their
effect on where a pipeline item acts."""
import itertools
from dataclasses import dataclass

from sigma.collection import SigmaCollection
from sigma.exceptions import SigmaError, SigmaPipelineConditionError
from sigma.processing.condition_expressions import (
    ConditionAND,
    ConditionOR,
    ConditionNOT,
    ConditionIdentifier,
    parse_condition_expression,
)
from sigma.processing.conditions import (
    DetectionItemProcessingCondition,
    FieldNameProcessingCondition,
    RuleProcessingCondition,
)
from sigma.processing.pipeline import ProcessingPipeline
from sigma.rule import SigmaRule, SigmaDetectionItem

TRACE = []


@dataclass
class RC(RuleProcessingCondition):
    name: str
    result: object

    def match(self, rule):
        TRACE.append(("rule", self.name))
        if isinstance(self.result, Exception):
            raise self.result
        return self.result


@dataclass
class DC(DetectionItemProcessingCondition):
    name: str
    result: object

    def match(self, detection_item):
        TRACE.append(("di", self.name))
        if isinstance(self.result, Exception):
            raise self.result
        return self.result


@dataclass
class FC(FieldNameProcessingCondition):
    name: str
    result: object

    def match_field_name(self, field):
        TRACE.append(("fn", self.name, field))
        if isinstance(self.result, Exception):
            raise self.result
        return self.result


RULE = SigmaRule.from_yaml(
    """
title: Test
status: test
logsource:
    category: process_creation
    product: windows
tags:
    - attack.t1059
detection:
    sel:
        Image|endswith: '\\\\cmd.exe'
        CommandLine|contains: 'whoami'
        User: null
        ParentImage: 'C:\\\\*\\\\explorer.exe'
    filter:
        Other|fieldref: Image
    condition: sel and not filter
fields:
    - Image
    - CommandLine
"""
)
DI = SigmaDetectionItem.from_mapping("Image", "x")

print("== 1. parse trees")
EXPRS = [
    "a",
    "a and b",
    "a or b",
    "not a",
    "not not a",
    "a and b and c",
    "a and b and c and d and e",
    "a or b or c or d",
    "a and not b or c",
    "a or b and c",
    "(a or b) and c",
    "not (a and b) or (c and not d)",
    "a-1 and b_2 or notx and andy or orz",
    "  a   and\tb  ",
    "((a))",
    "A and a",
    "1 and 2",
]
for e in EXPRS:
    tree = parse_condition_expression(e)
    print(repr(e), "->", repr(tree), "| expression:", repr(tree.expression))

print("== 2. parse errors")
for e in ["", "a and", "and a", "a b", "a && b", "a and (b", "not", "a or or b", "a.b", "(", "a) and b"]:
    try:
        print(repr(e), "->", repr(parse_condition_expression(e)))
    except SigmaPipelineConditionError as ex:
        print(repr(e), "-> ERR", type(ex).__name__, str(ex), "| ctx:", type(ex.__context__).__name__)

print("== 3. from_parsed directly")
ids = [ConditionIdentifier(i, n) for i, n in enumerate("abcde")]
for cls in (ConditionAND, ConditionOR):
    for n in range(0, 6):
        toks = []
        for x in ids[:n]:
            toks += [x, "op"]
        toks = toks[:-1]
        try:
            r = cls.from_parsed("src-" + str(n), 7, [toks])
            print(cls.__name__, n, "->", repr(r), repr(r.expression), repr(r.left.expression))
        except Exception as ex:
            print(cls.__name__, n, "-> ERR", type(ex).__name__, ex)
print(repr(ConditionNOT.from_parsed("not x", 3, [["not", ids[0]]])))

print("== 4. truth tables, evaluation order (no short circuit), all three evaluators")
EXPR5 = [
    "a and b",
    "a or b",
    "a and b and c",
    "a or b or c",
    "a and not b or c",
    "not (a or b) and c",
    "not a and not b and not c",
    "a or (b and (c or not a))",
]
for e in EXPR5:
    names = sorted({tok for tok in e.replace("(", " ").replace(")", " ").split()} - {"and", "or", "not"})
    for vals in itertools.product([False, True], repeat=len(names)):
        row = []
        for kind, mk, call in (
            ("rule", RC, lambda t: t.match(RULE)),
            ("di", DC, lambda t: t.match(DI)),
            ("fn-di", FC, lambda t: t.match_detection_item(DI)),
            ("fn", FC, lambda t: t.match_field_name("fld")),
            ("fn-none", FC, lambda t: t.match_field_name(None)),
        ):
            tree = parse_condition_expression(e)
            refs = tree.resolve({n: mk(n, v) for n, v in zip(names, vals)})
            TRACE.clear()
            res = call(tree)
            row.append((kind, res, sorted(refs), [t[1] for t in TRACE]))
        print(repr(e), dict(zip(names, vals)), row)

print("== 5. non-bool results and exceptions from operands")
for e, conds in [
    ("a and b", {"a": RC("a", 0), "b": RC("b", "x")}),
    ("a or b", {"a": RC("a", ""), "b": RC("b", [1])}),
    ("not a", {"a": RC("a", [])}),
    ("a and b", {"a": RC("a", False), "b": RC("b", ValueError("boom-b"))}),
    ("a or b", {"a": RC("a", True), "b": RC("b", ValueError("boom-b"))}),
    ("a or b", {"a": RC("a", KeyError("boom-a")), "b": RC("b", True)}),
    ("a and b", {"a": DC("a", True), "b": RC("b", True)}),
    ("a and b", {"a": RC("a", True), "b": FC("b", True)}),
]:
    tree = parse_condition_expression(e)
    tree.resolve(conds)
    TRACE.clear()
    try:
        print(repr(e), "->", repr(tree.match(RULE)), TRACE)
    except Exception as ex:
        print(repr(e), "-> ERR", type(ex).__name__, str(ex), TRACE)
for call in ("match_detection_item", "match_field_name"):
    tree = parse_condition_expression("a or not b")
    tree.resolve({"a": FC("a", False), "b": DC("b", True)})
    TRACE.clear()
    try:
        print(call, getattr(tree, call)(DI if call == "match_detection_item" else "f"))
    except Exception as ex:
        print(call, "-> ERR", type(ex).__name__, str(ex), TRACE)

print("== 6. resolve errors")
for e, keys in [("a and b", ["a"]), ("a or (b and c)", ["a", "c"]), ("not z", [])]:
    try:
        print(parse_condition_expression(e).resolve({k: RC(k, True) for k in keys}))
    except SigmaPipelineConditionError as ex:
        print(repr(e), "-> ERR", str(ex), ex.location, repr(ex.expression))

print("== 7. whole pipelines from YAML: where does the marker land")
PIPE = """
name: demo
priority: 10
transformations:
  - id: state
    type: set_state
    key: stage
    val: 2
  - id: pre
    type: field_name_prefix
    prefix: "p."
    field_name_conditions:
      - type: include_fields
        fields: [Image]
  - id: marker
    type: field_name_suffix
    suffix: ".MARK"
    rule_conditions:
      ls:
        type: logsource
        category: process_creation
      tag:
        type: tag
        tag: attack.t1059
      st:
        type: processing_state
        key: stage
        val: 2
      applied:
        type: processing_item_applied
        processing_item_id: pre
    rule_cond_expr: "{rexpr}"
    detection_item_conditions:
      wc:
        type: contains_wildcard
        cond: any
      nul:
        type: is_null
        cond: all
      str:
        type: match_string
        cond: any
        pattern: "whoami"
      pre:
        type: processing_item_applied
        processing_item_id: pre
    detection_item_cond_expr: "{dexpr}"
    field_name_conditions:
      inc:
        type: include_fields
        fields: [User, CommandLine, "p.Image", Other]
      exc:
        type: exclude_fields
        fields: [CommandLine]
      fpre:
        type: processing_item_applied
        processing_item_id: pre
      fst:
        type: processing_state
        key: stage
        val: 1
        op: gt
    field_name_cond_expr: "{fexpr}"
"""
REXPRS = [
    "ls and tag and st and applied",
    "not ls or (tag and st) or applied",
    "ls and not (tag or st or applied)",
]
DEXPRS = [
    "wc or nul or str or pre",
    "(wc or nul) and not str and not pre",
    "not wc and not nul and (str or pre)",
    "pre and not wc or nul and not str",
]
FEXPRS = [
    "inc and exc and (fpre or fst)",
    "inc or exc or fpre or fst",
    "not inc and fst or fpre and exc",
    "fpre or not fst and inc and exc",
]


def show(rule):
    out = []
    for name, det in rule.detection.detections.items():
        for di in det.detection_items:
            vals = [getattr(v, "field", None) or str(v) for v in di.value]
            out.append((name, di.field, vals, sorted(di.applied_processing_items)))
    return out


for rexpr, dexpr, fexpr in itertools.product(REXPRS, DEXPRS, FEXPRS):
    pipeline = ProcessingPipeline.from_yaml(
        PIPE.replace("{rexpr}", rexpr).replace("{dexpr}", dexpr).replace("{fexpr}", fexpr)
    )
    rule = SigmaRule.from_dict(RULE.to_dict())
    pipeline.apply(rule)
    print(repr(rexpr), "|", repr(dexpr), "|", repr(fexpr))
    print("   applied:", pipeline.applied, sorted(pipeline.applied_ids), "fields:", rule.fields)
    print("   field ids:", {k: sorted(v) for k, v in sorted(pipeline.field_name_applied_ids.items())})
    for line in show(rule):
        print("   ", line)

print("== 8. configuration errors")
for patch in [
    ("{rexpr}", "ls and tag and st"),
    ("{rexpr}", "ls and tag and st and applied and nope"),
    ("{dexpr}", "wc or"),
    ("{fexpr}", "inc exc"),
]:
    y = PIPE.replace(*patch)
    for k, v in (("{rexpr}", REXPRS[0]), ("{dexpr}", DEXPRS[0]), ("{fexpr}", FEXPRS[0])):
        y = y.replace(k, v)
    try:
        ProcessingPipeline.from_yaml(y)
        print(patch, "-> ok")
    except SigmaError as ex:
        print(patch, "-> ERR", type(ex).__name__, str(ex))
