"""
Demo for C11 (a filter narrows exactly the rules it targets): exercises every place where a
collection applies filters (construction, apply_filters() after collect_filters=True, filters
sitting in .rules when resolve_rule_references() runs, merge()) and prints the conditions and the
converted queries. The random prefix is seeded and additionally normalised in the output.
"""

import random
import re
import sys
import traceback

from sigma.backends.test import TextQueryTestBackend
from sigma.collection import SigmaCollection
from sigma.filters import SigmaFilter
from sigma.rule import SigmaRule

RULES = """
title: Windows process rule
id: 11111111-1111-1111-1111-111111111111
name: win_proc
logsource:
    category: process_creation
    product: windows
detection:
    selection_a:
        Image|endswith: '\\\\cmd.exe'
    selection_b:
        CommandLine|contains: whoami
    filter_legit:
        User: SYSTEM
    condition: 1 of selection_* and not filter_legit
---
title: Windows security rule with them
id: 22222222-2222-2222-2222-222222222222
name: win_sec
logsource:
    product: windows
    service: security
detection:
    sel:
        EventID: 4625
    other:
        LogonType: 3
    condition: all of them
---
title: Linux rule with awkward names
id: 33333333-3333-3333-3333-333333333333
name: lin_rule
logsource:
    category: process_creation
    product: linux
detection:
    not_a_keyword:
        a: 1
    1st:
        b: 2
    _under:
        c: 3
    of_them:
        d: 4
    condition:
        - not_a_keyword and 1st
        - 1 of _* or of_them
---
title: Bare product rule
id: 44444444-4444-4444-4444-444444444444
logsource:
    product: windows
detection:
    selection:
        x: y
    filter:
        z: 0
    condition: selection and not 1 of filter*
---
title: Correlation
id: 55555555-5555-5555-5555-555555555555
name: corr
correlation:
    type: event_count
    generate: true
    rules:
        - win_proc
        - win_sec
    group-by: User
    timespan: 5m
    condition:
        gte: 3
"""

FILTERS = {
    "by_name_proc": """
title: F1
logsource:
    category: process_creation
    product: windows
filter:
    rules:
        - win_proc
    selection_a:
        User|startswith: 'adm_'
    filter_legit:
        Host: dc01
    condition: not selection_a and not filter_legit
""",
    "any_windows": """
title: F2
logsource:
    product: windows
filter:
    rules: any
    sel:
        Domain: CORP
    sel_2:
        Domain: LAB
    condition: not 1 of sel*
""",
    "by_id_them": """
title: F3
logsource:
    product: windows
filter:
    rules:
        - 22222222-2222-2222-2222-222222222222
        - 44444444-4444-4444-4444-444444444444
    a_allow:
        Src: 10.0.0.1
    b_allow:
        Src: 10.0.0.2
    condition: not 1 of them
""",
    "empty_list_prefix_pattern": """
title: F4
logsource:
    category: process_creation
filter:
    rules: []
    one_allow:
        p: 1
    two_allow:
        p: 2
    all:
        q: 3
    condition: not all of *_allow and not all
""",
    "no_match_logsource": """
title: F5
logsource:
    product: macos
filter:
    rules: any
    s:
        k: v
    condition: not s
""",
    "unknown_rule": """
title: F6
logsource:
    product: windows
filter:
    rules:
        - does_not_exist
    s:
        k: v
    condition: not s
""",
    "keyword_names": """
title: F7
logsource:
    product: linux
filter:
    rules: lin_rule
    of:
        k: 1
    them:
        k: 2
    1:
        k: 3
    _x:
        k: 4
    condition: not of and not them and not 1 and not 1 of _*
""",
}

BROKEN_FILTER = """
title: F8
logsource:
    product: windows
filter:
    rules: any
    s:
        k: v
    condition: not missing
"""


def norm(text):
    return re.sub(r"_filt_[a-z]{10}", "_filt_PREFIX", text)


def show(title, collection):
    print(f"== {title}")
    print("   rules:", [type(r).__name__ + ":" + str(r.name or r.title) for r in collection.rules])
    print("   filters:", [f.title for f in collection.filters])
    for rule in collection.rules:
        if isinstance(rule, SigmaRule):
            print("   ", rule.title)
            print("      detections:", [norm(str(n)) for n in rule.detection.detections])
            for cond in rule.detection.condition:
                print("      condition :", norm(cond))
            try:
                for query in TextQueryTestBackend().convert_rule(rule):
                    print("      query     :", norm(str(query)))
            except Exception as e:  # noqa: BLE001
                print("      convert   :", type(e).__name__, norm(str(e)))


def attempt(title, func):
    try:
        show(title, func())
    except Exception as e:  # noqa: BLE001
        print(f"== {title}\n   raised {type(e).__name__}: {norm(str(e))}")


def docs(*names):
    return RULES + "".join("\n---" + FILTERS[n] for n in names)


def explicit(names, iterator=False):
    collection = SigmaCollection.from_yaml(docs(*names), collect_filters=True)
    before = list(collection.rules)
    filters = iter(collection.filters) if iterator else collection.filters
    result = collection.apply_filters(filters)
    assert result is None
    assert all(a is b for a, b in zip(before, collection.rules)) and len(before) == len(
        collection.rules
    )
    return collection


def filters_in_rules(names):
    collection = SigmaCollection.from_yaml(RULES)
    for n in names:
        collection.rules.insert(1, SigmaFilter.from_yaml(FILTERS[n]))
    collection.resolve_rule_references()
    return collection


def merged(names):
    parts = [SigmaCollection.from_yaml(RULES, collect_filters=True)] + [
        SigmaCollection.from_yaml(FILTERS[n], collect_filters=True) for n in names
    ]
    return SigmaCollection.merge(parts)


def main():
    random.seed(20260926)
    attempt("no filter (reference)", lambda: SigmaCollection.from_yaml(RULES))
    for name in FILTERS:
        attempt(f"construction with {name}", lambda: SigmaCollection.from_yaml(docs(name)))
    everything = list(FILTERS)
    attempt("construction, all filters stacked", lambda: SigmaCollection.from_yaml(docs(*everything)))
    attempt(
        "construction, stacked in reverse order",
        lambda: SigmaCollection.from_yaml(docs(*reversed(everything))),
    )
    attempt(
        "collect_filters=True only collects",
        lambda: SigmaCollection.from_yaml(docs(*everything), collect_filters=True),
    )
    attempt("collect then apply_filters(list)", lambda: explicit(everything))
    attempt("collect then apply_filters(iterator)", lambda: explicit(everything, iterator=True))
    attempt("collect then apply_filters([])", lambda: explicit([]))
    attempt("same filter applied twice", lambda: explicit(["any_windows", "any_windows"]))
    attempt(
        "filters placed in .rules, resolve_rule_references()",
        lambda: filters_in_rules(["by_name_proc", "any_windows", "keyword_names"]),
    )
    attempt("no filters in .rules, resolve_rule_references()", lambda: filters_in_rules([]))
    attempt("merge of rule and filter collections", lambda: merged(["by_id_them", "any_windows"]))
    attempt(
        "filter condition names a missing detection",
        lambda: SigmaCollection.from_yaml(RULES + "\n---" + BROKEN_FILTER),
    )
    attempt("apply_filters(None)", lambda: SigmaCollection.from_yaml(RULES).apply_filters(None))
    attempt(
        "unsupported object in collection",
        lambda: SigmaCollection([SigmaFilter.from_yaml(FILTERS["any_windows"]), 42]),
    )
    return 0


if __name__ == "__main__":
    try:
        sys.exit(main())
    except Exception:  # noqa: BLE001
        traceback.print_exc()
        sys.exit(1)
