"""Exercises the encoding modifiers (base64, base64offset, wide, utf16be, utf16 and chains)."""
import itertools
import sys
from base64 import b64encode

from sigma.exceptions import SigmaError
from sigma.modifiers import SigmaBase64OffsetModifier
from sigma.rule import SigmaDetectionItem
from sigma.types import SigmaExpansion, SigmaString


def show(v):
    if isinstance(v, SigmaExpansion):
        return "Expansion[" + ", ".join(show(x) for x in v.values) + "]"
    if isinstance(v, SigmaString):
        return f"{type(v).__name__}({v.s!r})"
    return repr(v)


def run(mods, payload):
    key = "f|" + "|".join(mods)
    try:
        item = SigmaDetectionItem.from_mapping(key, payload)
        out = "[" + "; ".join(show(v) for v in item.value) + "]"
    except SigmaError as e:
        out = f"{type(e).__name__}: {e}"
    except Exception as e:  # noqa
        out = f"!{type(e).__name__}: {e}"
    print(f"{key} {payload!r} -> {out}")
    return out


payloads = [
    "", "a", "ab", "abc", "abcd", "abcde", "abcdef", "foobar!",
    "ä", "äö", "x€y", "\U0001f600", "a\U0001f600b",
    "a*b", "a?b", "a\\*b", "a\\?b", "a\\\\b", "\\", "%ph%", " ", "   ", "\x00\x01\x02",
    "\udc80", "a\udc80", 123, ["ab", "abc"], ["a", "a*"],
]
chains = [
    ["base64"], ["base64offset"], ["base64offset", "contains"], ["wide"], ["utf16le"],
    ["utf16be"], ["utf16"], ["wide", "base64"], ["wide", "base64offset"],
    ["utf16le", "base64offset"], ["utf16be", "base64"], ["utf16be", "base64offset"],
    ["utf16", "base64"], ["utf16", "base64offset"], ["expand", "base64offset"],
    ["base64offset", "base64offset"], ["base64", "base64offset"],
]
for chain in chains:
    for p in payloads:
        run(chain, p)

# exhaustive short payloads over a small alphabet, checked against all alignments
alphabet = "aZé"
failures = 0
count = 0
for n in range(0, 5):
    for tup in itertools.product(alphabet, repeat=n):
        p = "".join(tup)
        item = SigmaDetectionItem.from_mapping("f|base64offset", p)
        exp = item.value[0]
        vals = [str(v) for v in exp.values]
        raw = p.encode()
        for pre in range(0, 6):
            for suf in range(0, 6):
                for fill in (b"\x00", b"\xff", b"Q"):
                    enc = b64encode(fill * pre + raw + fill * suf).decode()
                    count += 1
                    if not any(v in enc for v in vals):
                        failures += 1
        print(f"{p!r}: {vals}")
print("alignment checks", count, "failures", failures)


# a subclass with its own tables and an instance with shadowed tables still use them
class Odd(SigmaBase64OffsetModifier):
    start_offsets = (1, 2, 3)
    end_offsets = (None, -1, -2)


item = SigmaDetectionItem.from_mapping("f", "x")
print(show(Odd(item, []).modify(SigmaString("hello"))))
m = SigmaBase64OffsetModifier(item, [])
m.end_offsets = (None, None, None)
print(show(m.modify(SigmaString("hello"))))
print(show(m.apply(SigmaString("hello!"))[0]))
m.start_offsets = (0, 2)
try:
    print(show(m.modify(SigmaString("hello"))))
except Exception as e:  # noqa
    print(f"{type(e).__name__}: {e}")
sys.exit(0)
