"""
Demo for property C15: converting a rule gives the same result whatever was converted before.

Runs histories of operations on shared backends/pipelines and prints everything that is observable
afterwards (queries, errors, pipeline tracking fields, backend class templates, parse cache use).
The output has to be identical with and without the patch.
"""

import sys
import traceback
from typing import Any

from sigma.backends.test import TextQueryTestBackend
from sigma.collection import SigmaCollection
from sigma.conditions import SigmaCondition, _parse_condition_string
from sigma.conversion.base import TextQueryBackend
from sigma.exceptions import SigmaError
from sigma.processing.pipeline import ProcessingPipeline
from sigma.rule import SigmaRule

SWAPPED = (
    "eq_expression",
    "re_expression",
    "cidr_expression",
    "startswith_expression",
    "case_sensitive_startswith_expression",
    "endswith_expression",
    "case_sensitive_endswith_expression",
    "contains_expression",
    "case_sensitive_contains_expression",
)


def show(label: str, value: Any) -> None:
    print(f"{label}: {value!r}")


def section(title: str) -> None:
    print()
    print("=" * 8, title)


def attempt(label: str, fn: Any) -> Any:
    """Run fn, print result or the exception class and message."""
    try:
        res = fn()
        show(label, res)
        return res
    except BaseException as e:  # noqa
        print(f"{label}: raised {type(e).__module__}.{type(e).__name__}: {e}")
        return None


def rule(title: str, logsource: str, detection: str) -> str:
    return f"""
title: {title}
status: test
logsource:
{logsource}
detection:
{detection}
"""


WIN = "    category: process_creation\n    product: windows"
LIN = "    category: process_creation\n    product: linux"

RULES = {
    "win_simple": rule(
        "win simple",
        WIN,
        "    sel:\n        fieldA: valueA\n        fieldB|contains: valB\n    condition: sel",
    ),
    "lin_simple": rule(
        "lin simple",
        LIN,
        "    sel:\n        fieldA: other\n        fieldC|startswith: x\n    condition: sel",
    ),
    "neg": rule(
        "negations",
        WIN,
        "    sel:\n        fieldA: valueA\n    filter:\n        fieldB|endswith: '.exe'\n        fieldC|re: 'a.*b'\n        fieldD|cidr: 10.0.0.0/8\n        fieldE|contains|cased: Abc\n    condition: sel and not filter",
    ),
    "neg_fail": rule(
        "negation that fails",
        WIN,
        "    sel:\n        fieldA: valueA\n    filter:\n        fieldB|startswith: abc\n        fieldF|lt: 5\n        fieldG|fieldref|startswith: fieldH\n    condition: sel and not filter",
    ),
    "multi_cond": rule(
        "several conditions",
        LIN,
        "    sel:\n        fieldA: valueA\n    filter:\n        fieldB: valueB\n    condition:\n        - sel\n        - sel and not filter\n        - 1 of sel*\n        - all of them",
    ),
    "bad_cond": rule(
        "unknown identifier",
        WIN,
        "    sel:\n        fieldA: valueA\n    condition: sel and not filter",
    ),
    "pipe_cond": rule(
        "deprecated pipe",
        WIN,
        "    sel:\n        fieldA: valueA\n    condition: sel | count() > 3",
    ),
    "syntax_cond": rule(
        "broken syntax",
        WIN,
        "    sel:\n        fieldA: valueA\n    condition: sel and and",
    ),
    "null_exists": rule(
        "null and exists",
        LIN,
        "    sel:\n        fieldA: null\n        fieldB|exists: false\n        fieldC|exists: true\n    condition: not sel",
    ),
    "keywords": rule(
        "keywords",
        WIN,
        "    sel:\n        - abc\n        - 'd*f'\n        - 123\n    condition: sel",
    ),
    "in_list": rule(
        "in list",
        WIN,
        "    sel:\n        fieldA:\n            - v1\n            - v2\n            - 3\n    filter:\n        fieldA|all:\n            - x\n            - y\n    condition: sel and not filter",
    ),
}

CORRELATION = """
title: base rule
name: base_rule
status: test
logsource:
    category: process_creation
    product: windows
detection:
    sel:
        fieldA: valueA
        fieldB: valueB
    condition: sel
---
title: many events
status: test
correlation:
    type: event_count
    rules:
        - base_rule
    group-by:
        - fieldC
    timespan: 15m
    condition:
        gte: 10
"""

PIPELINE_YAML = """
name: demo pipeline
priority: 10
vars:
    somevar: 1
transformations:
    - id: set_win_index
      type: set_state
      key: index
      val: windows
      rule_conditions:
          - type: logsource
            product: windows
    - id: map_fields
      type: field_name_mapping
      mapping:
          fieldB: [mappedB1, mappedB2]
          fieldC: mappedC
      rule_conditions:
          - type: logsource
            product: windows
    - id: prefix
      type: field_name_prefix
      prefix: "p."
      field_name_conditions:
          - type: include_fields
            fields: [fieldD, fieldE]
    - id: fail_on_G
      type: detection_item_failure
      message: fieldG is not supported
      field_name_conditions:
          - type: include_fields
            fields: [fieldZ]
    - id: nested
      type: nest
      items:
          - id: nested_state
            type: set_state
            key: nested_seen
            val: "yes"
          - id: nested_map
            type: field_name_mapping
            mapping:
                fieldE: mappedE
postprocessing:
    - id: embed
      type: embed
      prefix: "[["
      suffix: "]]"
      rule_conditions:
          - type: logsource
            product: linux
"""


class NegBackend(TextQueryTestBackend):
    """Backend rendering negated conditions as not-equals expressions."""

    convert_not_as_not_eq = True
    not_eq_token = "!="
    not_eq_expression = "{field}!={value}"
    not_re_expression = "{field}!=/{regex}/"
    not_cidr_expression = "notcidrmatch('{field}', \"{value}\")"
    not_startswith_expression = "{field} notstartswith {value}"
    case_sensitive_not_startswith_expression = "{field} notstartswith_cased {value}"
    not_endswith_expression = "{field} notendswith {value}"
    case_sensitive_not_endswith_expression = "{field} notendswith_cased {value}"
    not_contains_expression = "{field} notcontains {value}"
    case_sensitive_not_contains_expression = "{field} notcontains_cased {value}"


class FailingNegBackend(NegBackend):
    """Raises in the middle of a negated rendering."""

    def convert_condition_field_compare_op_val(self, cond, state):  # type: ignore
        raise NotImplementedError("compare operators are not supported here")


class InstanceAttrNegBackend(NegBackend):
    """Has instance level templates shadowing the class ones."""

    def __init__(self, *args: Any, **kwargs: Any) -> None:
        super().__init__(*args, **kwargs)
        self.not_eq_expression = "{field} <> {value}"
        self.eq_expression = "{field} == {value}"


def templates(cls: type) -> dict[str, Any]:
    return {name: getattr(cls, name) for name in SWAPPED}


def pipeline_snapshot(p: ProcessingPipeline) -> dict[str, Any]:
    return {
        "applied": list(p.applied),
        "applied_ids": sorted(p.applied_ids),
        "field_name_applied_ids": {k: sorted(v) for k, v in sorted(p.field_name_applied_ids.items())},
        "field_name_applied_ids_type": type(p.field_name_applied_ids).__name__,
        "field_mappings": {k: sorted(v) for k, v in sorted(p.field_mappings.items())},
        "field_mappings_type": type(p.field_mappings).__name__,
        "state": dict(p.state),
        "vars": dict(p.vars),
    }


def load(name: str) -> SigmaRule:
    return SigmaRule.from_yaml(RULES[name])


def convert_single(backend: TextQueryBackend, name: str, fmt: str | None = None) -> Any:
    r = load(name)
    res = backend.convert_rule(r, fmt) if fmt is not None else backend.convert_rule(r)
    return res


def convert_coll(backend: TextQueryBackend, names: list[str], fmt: str | None = None) -> Any:
    coll = SigmaCollection([load(n) for n in names])
    return backend.convert(coll, fmt) if fmt is not None else backend.convert(coll)


def errors_of(backend: TextQueryBackend) -> list[str]:
    return [f"{r.title}: {type(e).__name__}: {e}" for r, e in backend.errors]


def new_pipeline() -> ProcessingPipeline:
    return ProcessingPipeline.from_yaml(PIPELINE_YAML)


def main() -> None:
    _parse_condition_string.cache_clear()

    # ------------------------------------------------------------------
    section("1. one backend, one pipeline, history of rules, then probes")
    pipeline = new_pipeline()
    backend = NegBackend(pipeline)
    for name in RULES:
        attempt(f"convert_rule {name}", lambda name=name: convert_single(backend, name))
        show(f"  pipeline after {name}", pipeline_snapshot(backend.last_processing_pipeline))
        show(f"  class templates unchanged after {name}", templates(NegBackend) == templates_before)
    show("templates NegBackend", templates(NegBackend))
    show("templates TextQueryTestBackend", templates(TextQueryTestBackend))
    show("templates TextQueryBackend", templates(TextQueryBackend))

    # ------------------------------------------------------------------
    section("2. probe after history vs fresh objects")
    for probe in ("lin_simple", "win_simple", "neg", "multi_cond", "null_exists", "in_list"):
        after_history = attempt(f"history {probe}", lambda probe=probe: convert_single(backend, probe))
        snap_hist = pipeline_snapshot(backend.last_processing_pipeline)
        fresh_backend = NegBackend(new_pipeline())
        fresh = attempt(f"fresh   {probe}", lambda probe=probe: convert_single(fresh_backend, probe))
        snap_fresh = pipeline_snapshot(fresh_backend.last_processing_pipeline)
        show(f"same result {probe}", after_history == fresh)
        show(f"same pipeline tracking {probe}", snap_hist == snap_fresh)

    # ------------------------------------------------------------------
    section("3. failing conversions, collect_errors on and off")
    for collect in (False, True):
        fb = FailingNegBackend(new_pipeline(), collect_errors=collect)
        attempt(f"collect={collect} neg_fail", lambda: convert_single(fb, "neg_fail"))
        show("  templates restored", templates(FailingNegBackend) == templates_before)
        show("  own class dict keys", sorted(k for k in vars(FailingNegBackend) if k in SWAPPED))
        attempt(f"collect={collect} collection", lambda: convert_coll(fb, ["win_simple", "neg_fail", "neg", "bad_cond", "lin_simple"]))
        show("  errors", errors_of(fb))
        show("  templates restored", templates(FailingNegBackend) == templates_before)
        attempt(f"collect={collect} probe neg", lambda: convert_single(fb, "neg"))
        attempt(f"collect={collect} probe lin_simple", lambda: convert_single(fb, "lin_simple"))
        show("  pipeline", pipeline_snapshot(fb.last_processing_pipeline))

    # ------------------------------------------------------------------
    section("4. output formats, several backends, shared pipeline object")
    shared = new_pipeline()
    a = NegBackend(shared)
    b = NegBackend(shared)
    c = TextQueryTestBackend(shared, testparam="tp", someopt={"x": 1})
    attempt("a.init", lambda: a.init_processing_pipeline())
    attempt("b.init test", lambda: b.init_processing_pipeline("test"))
    show("a.format", a.last_processing_pipeline_format)
    show("b.format", b.last_processing_pipeline_format)
    show("a.vars", a.last_processing_pipeline.vars)
    show("b.vars", b.last_processing_pipeline.vars)
    attempt("a.convert_rule win_simple", lambda: convert_single(a, "win_simple"))
    show("  a pipeline", pipeline_snapshot(a.last_processing_pipeline))
    attempt("b.convert_rule win_simple (test)", lambda: convert_single(b, "win_simple", "test"))
    show("  b pipeline", pipeline_snapshot(b.last_processing_pipeline))
    attempt("b.convert_rule lin_simple (default -> reinit)", lambda: convert_single(b, "lin_simple"))
    show("  b.format", b.last_processing_pipeline_format)
    attempt("c.convert state", lambda: convert_coll(c, ["win_simple", "lin_simple", "multi_cond"], "state"))
    show("  c.vars", c.last_processing_pipeline.vars)
    show("  c.format", c.last_processing_pipeline_format)
    attempt("c.convert list_of_dict", lambda: convert_coll(c, ["neg", "keywords"], "list_of_dict"))
    attempt("c.convert_rule state after list_of_dict", lambda: convert_single(c, "win_simple", "state"))
    attempt("c.convert_rule unknown format", lambda: convert_single(c, "win_simple", "nope"))
    attempt("c.convert unknown format", lambda: convert_coll(c, ["win_simple"], "nope"))
    show("  c.format", c.last_processing_pipeline_format)
    attempt("a.convert_rule lin_simple again", lambda: convert_single(a, "lin_simple"))
    show("  a pipeline", pipeline_snapshot(a.last_processing_pipeline))
    show("output format pipelines known", sorted(TextQueryTestBackend.output_format_processing_pipeline))
    nop = TextQueryTestBackend()
    attempt("no pipeline backend", lambda: convert_single(nop, "lin_simple"))
    show("  nop pipeline", pipeline_snapshot(nop.last_processing_pipeline))
    attempt("bad pipeline type", lambda: TextQueryTestBackend("notapipeline").init_processing_pipeline())  # type: ignore

    attempt("bad pipeline type convert_rule", lambda: convert_single(TextQueryTestBackend("notapipeline"), "win_simple"))  # type: ignore
    attempt("bad pipeline type convert", lambda: convert_coll(TextQueryTestBackend("notapipeline"), ["win_simple"]))  # type: ignore
    attempt("bad pipeline type collected", lambda: convert_single(TextQueryTestBackend("notapipeline", collect_errors=True), "win_simple"))  # type: ignore
    pre = TextQueryTestBackend(new_pipeline())
    pre.last_processing_pipeline = None  # type: ignore
    attempt("last pipeline None -> init", lambda: convert_single(pre, "lin_simple"))
    show("  pre.format", pre.last_processing_pipeline_format)
    del pre.last_processing_pipeline_format
    kept = pre.last_processing_pipeline
    attempt("format attribute missing -> init", lambda: convert_single(pre, "lin_simple"))
    show("  pipeline object replaced", pre.last_processing_pipeline is not kept)
    kept = pre.last_processing_pipeline
    attempt("same format -> no init", lambda: convert_single(pre, "win_simple", "default"))
    show("  pipeline object kept", pre.last_processing_pipeline is kept)
    attempt("empty format string -> no init", lambda: convert_single(pre, "win_simple", ""))
    show("  pipeline object kept", pre.last_processing_pipeline is kept)
    for fmt in (None, "test", "state"):
        attempt(f"correlation collection fmt={fmt}", lambda fmt=fmt: c.convert(SigmaCollection.from_yaml(CORRELATION), fmt))
        show("  c.format", c.last_processing_pipeline_format)
        show("  c pipeline", pipeline_snapshot(c.last_processing_pipeline))
    corr_coll = SigmaCollection.from_yaml(CORRELATION)
    corr_coll.resolve_rule_references()
    fresh_c = TextQueryTestBackend(new_pipeline())
    attempt("correlation rule first on fresh backend", lambda: fresh_c.convert_correlation_rule(corr_coll.rules[-1]))
    show("  fresh_c.format", fresh_c.last_processing_pipeline_format)
    attempt("correlation rule unknown method", lambda: fresh_c.convert_correlation_rule(corr_coll.rules[-1], method="nope"))
    attempt("probe after correlation", lambda: convert_single(fresh_c, "lin_simple"))

    # ------------------------------------------------------------------
    section("5. pipeline.apply directly, initial state")
    p = new_pipeline()
    r = load("win_simple")
    init_state = {"given": 1}
    attempt("apply with state", lambda: p.apply(r, init_state).title)
    show("  snapshot", pipeline_snapshot(p))
    show("  given state untouched", init_state)
    show("  state is a copy", p.state is not init_state)
    attempt("apply with empty state", lambda: p.apply(load("lin_simple"), {}).title)
    show("  snapshot", pipeline_snapshot(p))
    attempt("apply without state", lambda: p.apply(load("lin_simple")).title)
    show("  snapshot", pipeline_snapshot(p))
    attempt("apply with pairs as state", lambda: p.apply(load("win_simple"), [("k", "v")]).title)  # type: ignore
    show("  snapshot", pipeline_snapshot(p))
    attempt("apply with invalid state", lambda: p.apply(load("lin_simple"), 5))  # type: ignore
    show("  snapshot after invalid state", pipeline_snapshot(p))
    attempt("apply with invalid rule", lambda: p.apply(None))  # type: ignore
    show("  snapshot after invalid rule", pipeline_snapshot(p))
    empty = ProcessingPipeline()
    attempt("empty pipeline apply", lambda: empty.apply(load("neg")).title)
    show("  snapshot", pipeline_snapshot(empty))
    show("  was processed by", empty.field_was_processed_by("fieldA", "x"))

    # ------------------------------------------------------------------
    section("6. not equals context manager directly")
    for cls in (NegBackend, InstanceAttrNegBackend, TextQueryTestBackend):
        inst = cls()
        before = templates(cls)
        for flag in (False, True):
            with inst.not_equals_context_manager(flag):
                show(f"{cls.__name__} inside use={flag}", templates(cls))
                show("  instance view eq", inst.eq_expression)
            show(f"{cls.__name__} after use={flag} restored", templates(cls) == before)
            show("  own class dict keys", sorted(k for k in vars(cls) if k in SWAPPED))
        try:
            with inst.not_equals_context_manager(True):
                raise KeyError("boom")
        except KeyError as e:
            show(f"{cls.__name__} exception passed through", e)
        show(f"{cls.__name__} restored after exception", templates(cls) == before)
        try:
            with inst.not_equals_context_manager(True):
                with inst.not_equals_context_manager(True):
                    show("  nested eq", cls.eq_expression)
                show("  after inner eq", cls.eq_expression)
        finally:
            pass
        show(f"{cls.__name__} state after nesting", templates(cls))
        # repair for the following parts of the demo (nesting keeps negated values by design of the code)
        for k, v in before.items():
            setattr(cls, k, v)
    ib = InstanceAttrNegBackend(new_pipeline())
    attempt("instance attr backend neg", lambda: convert_single(ib, "neg"))
    attempt("instance attr backend win_simple", lambda: convert_single(ib, "win_simple"))
    show("templates InstanceAttrNegBackend", templates(InstanceAttrNegBackend))

    # ------------------------------------------------------------------
    section("7. condition parse cache")
    _parse_condition_string.cache_clear()
    r1 = load("neg")
    r2 = load("bad_cond")  # same condition string, different detections
    c1 = r1.detection.parsed_condition[0]
    c2 = r2.detection.parsed_condition[0]
    t1 = attempt("r1 parsed", lambda: c1.parsed)
    attempt("r2 parsed", lambda: c2.parsed)
    t1b = attempt("r1 parsed again", lambda: c1.parsed)
    show("distinct trees", t1 is not t1b)
    show("equal trees", t1 == t1b)
    raw1 = c1.parse(False)
    raw2 = c1.parse(False)
    show("raw parse", raw1)
    show("raw distinct", raw1 is not raw2)
    show("raw not the cached object", raw1 is not _parse_condition_string(c1.condition))
    info = _parse_condition_string.cache_info()
    show("cache info", (info.hits, info.misses, info.maxsize, info.currsize))
    for cond in ("sel | count() > 3", "sel and and", "", "(" * 400 + "sel" + ")" * 400, "1 of sel*", "not 1 of them"):
        sc = SigmaCondition(cond, r1.detection)
        attempt(f"parse {cond[:30]!r}", lambda sc=sc: sc.parse())
        attempt(f"parse raw {cond[:30]!r}", lambda sc=sc: sc.parse(False))
    info = _parse_condition_string.cache_info()
    show("cache info", (info.hits, info.misses, info.maxsize, info.currsize))

    # ------------------------------------------------------------------
    section("8. final probes on every long lived backend")
    for label, be in (("backend", backend), ("a", a), ("b", b), ("c", c), ("nop", nop), ("ib", ib)):
        attempt(f"{label} probe neg", lambda be=be: convert_single(be, "neg"))
        attempt(f"{label} probe lin_simple", lambda be=be: convert_single(be, "lin_simple"))
    show("templates NegBackend", templates(NegBackend))
    show("templates TextQueryTestBackend", templates(TextQueryTestBackend))
    show("explicit_not_exists", (TextQueryBackend.explicit_not_exists_expression, NegBackend.explicit_not_exists_expression))


templates_before = templates(NegBackend)

if __name__ == "__main__":
    try:
        main()
    except BaseException:
        traceback.print_exc()
        sys.exit(1)
    sys.exit(0)
