"""Demo for property C09: rule references resolve the same way whatever the document order.

Prints, for several rule sets, document permutations and load paths, the resulting rule order,
the per-rule reference bookkeeping (_backreferences, _output, _output_disabled_by_reference,
stored conversion results) and the converted queries or the raised error.
"""

import itertools
import random
import tempfile
from pathlib import Path

import yaml

from sigma.backends.test import TextQueryTestBackend
from sigma.collection import SigmaCollection
from sigma.exceptions import SigmaError
from sigma.rule import SigmaRule


def plain(title, name=None, rid=None, field="a", value="x"):
    d = {
        "title": title,
        "status": "test",
        "logsource": {"category": "test"},
        "detection": {"sel": {field: value}, "condition": "sel"},
    }
    if name:
        d["name"] = name
    if rid:
        d["id"] = rid
    return d


def corr(title, rules, name=None, generate=None, ctype="event_count", aliases=None):
    c = {
        "type": ctype,
        "rules": rules,
        "group-by": ["user"],
        "timespan": "5m",
    }
    if ctype in ("event_count", "value_count"):
        c["condition"] = {"gte": 2}
        if ctype == "value_count":
            c["condition"]["field"] = "host"
    if generate is not None:
        c["generate"] = generate
    if aliases:
        c["aliases"] = aliases
    d = {"title": title, "status": "test", "correlation": c}
    if name:
        d["name"] = name
    return d


ID1 = "5d8fd9da-6916-45ef-8d4d-3fa9d19d1a64"
ID2 = "0e95725d-7320-415d-80f7-004da920fc11"

RULE_SETS = {
    "by_name_no_generate": [
        plain("P1", name="p1"),
        plain("Unrelated", name="unrel", field="u", value="1"),
        corr("C1", ["p1"], name="c1"),
    ],
    "by_id_generate": [
        plain("P1", rid=ID1),
        corr("C1", [ID1], name="c1", generate=True),
        plain("P2", name="p2", field="b", value="y"),
    ],
    "mixed_generate": [
        plain("P1", name="p1", rid=ID1),
        corr("Cgen", ["p1"], name="cgen", generate=True),
        corr("Cnogen", [ID1], name="cnogen"),
    ],
    "chain_depth3": [
        plain("P1", name="p1"),
        plain("P2", name="p2", rid=ID2, field="b", value="y"),
        corr("C1", ["p1", ID2], name="c1", ctype="temporal"),
        corr("C2", ["c1"], name="c2", generate=True),
        corr("C3", ["c2", "p1"], name="c3", ctype="temporal"),
        plain("Unrelated", field="u", value="1"),
    ],
    "missing_reference": [
        plain("P1", name="p1"),
        corr("C1", ["p1", "nope"], name="c1"),
    ],
    "missing_alias_reference": [
        plain("P1", name="p1"),
        corr(
            "C1",
            ["p1"],
            name="c1",
            aliases={"user": {"p1": "a", "ghost": "b"}},
        ),
    ],
}

backend_kwargs = {}


def describe(coll):
    for rule in coll.rules:
        try:
            res = rule.get_conversion_result()
        except SigmaError as e:
            res = f"{type(e).__name__}: {e.args!r}"
        try:
            states = len(rule.get_conversion_states())
        except SigmaError as e:
            states = f"{type(e).__name__}: {e.args!r}"
        print(
            f"      {rule.title:10} backrefs={[r.title for r in rule._backreferences]}"
            f" output={rule._output!r} by_ref={rule._output_disabled_by_reference!r}"
            f" result={res!r} states={states!r}"
        )


def convert(coll):
    backend = TextQueryTestBackend(**backend_kwargs)
    try:
        queries = backend.convert(coll)
    except Exception as e:  # noqa: BLE001
        print(f"    convert raised {type(e).__name__}: {e}")
        return
    print(f"    order after convert: {[r.title for r in coll.rules]}")
    for q in sorted(map(str, queries)):
        print(f"    query: {q}")
    describe(coll)


def load_paths(docs):
    text = "---\n".join(yaml.safe_dump(d, sort_keys=False) for d in docs)
    yield "from_yaml", lambda: SigmaCollection.from_yaml(text)
    yield "from_dicts", lambda: SigmaCollection.from_dicts([dict(d) for d in docs])

    def merged():
        parts = [
            SigmaCollection.from_dicts([d], resolve_references=False) for d in docs
        ]
        return SigmaCollection.merge(parts)

    yield "merge", merged

    def ruleset():
        with tempfile.TemporaryDirectory() as tmp:
            for i, d in enumerate(docs):
                Path(tmp, f"{i:02}.yml").write_text(yaml.safe_dump(d, sort_keys=False))
            return SigmaCollection.load_ruleset([tmp])

    yield "load_ruleset", ruleset


def run_rule_set(name, docs):
    print(f"== rule set {name}")
    if len(docs) <= 3:
        perms = list(itertools.permutations(range(len(docs))))
    else:
        rnd = random.Random(9)
        perms = [tuple(range(len(docs))), tuple(reversed(range(len(docs))))]
        for _ in range(4):
            p = list(range(len(docs)))
            rnd.shuffle(p)
            perms.append(tuple(p))
    for perm in perms:
        ordered = [docs[i] for i in perm]
        for path_name, loader in load_paths(ordered):
            print(f"  perm={perm} path={path_name}")
            try:
                coll = loader()
            except Exception as e:  # noqa: BLE001
                print(f"    load raised {type(e).__name__}: {e}")
                continue
            print(f"    order after load: {[r.title for r in coll.rules]}")
            describe(coll)
            convert(coll)


def state_machine():
    print("== bookkeeping state transitions on a single rule")
    rule = SigmaRule.from_dict(plain("S", name="s"))
    other = SigmaRule.from_dict(plain("O", name="o"))

    def show(step):
        print(
            f"  {step:45} output={rule._output!r} by_ref={rule._output_disabled_by_reference!r}"
            f" backrefs={[r.title for r in rule._backreferences]}"
            f" lt={rule < other!r} referenced_by={rule.referenced_by(other)!r}"
        )

    show("fresh")
    rule.reset_references()
    show("reset on fresh")
    rule.disable_output_by_reference()
    show("disable_by_reference")
    rule.disable_output_by_reference()
    show("disable_by_reference again")
    rule.add_backreference(other)
    show("add_backreference")
    rule.reset_references()
    show("reset")
    rule.disable_output()
    show("disable_output")
    rule.disable_output_by_reference()
    show("disable_by_reference after explicit disable")
    rule.reset_references()
    show("reset after explicit disable")
    rule._output = True
    rule.disable_output_by_reference()
    rule.disable_output()
    show("by_reference then explicit")
    rule.reset_references()
    show("reset keeps explicit disable")
    for setter, getter, values in (
        (rule.set_conversion_result, rule.get_conversion_result, ([], ["q"], [None], None)),
        (rule.set_conversion_states, rule.get_conversion_states, ([], [object], None)),
    ):
        try:
            getter()
        except SigmaError as e:
            print(f"  {getter.__name__} unset -> {type(e).__name__} args={e.args!r} str={e}")
        for v in values:
            setter(v)
            try:
                got = getter()
                print(f"  {getter.__name__} after set({v!r}) -> {got!r} same_object={got is v}")
            except SigmaError as e:
                print(
                    f"  {getter.__name__} after set({v!r}) -> {type(e).__name__} args={e.args!r}"
                    f" rule_is_self={e.rule is rule} source={e.source!r}"
                )


def reuse_across_collections():
    print("== rule objects reused in a second collection")
    p1 = SigmaRule.from_dict(plain("P1", name="p1"))
    first = SigmaCollection.from_dicts([corr("C1", ["p1"], name="c1")], resolve_references=False)
    first = SigmaCollection.merge([first, SigmaCollection([p1])])
    print(f"  first: {[r.title for r in first.rules]}")
    describe(first)
    second = SigmaCollection([p1, SigmaRule.from_dict(plain("P2", name="p2", field="b"))])
    print(f"  second: {[r.title for r in second.rules]}")
    describe(second)
    convert(second)
    p1.disable_output()
    third = SigmaCollection.merge(
        [
            SigmaCollection([p1]),
            SigmaCollection.from_dicts(
                [corr("Cg", ["p1"], name="cg", generate=True)], resolve_references=False
            ),
        ]
    )
    print(f"  third (p1 explicitly disabled): {[r.title for r in third.rules]}")
    describe(third)
    convert(third)
    third.resolve_rule_references()
    third.resolve_rule_references()
    print("  third after resolving twice more")
    describe(third)


if __name__ == "__main__":
    state_machine()
    for rs_name, rs_docs in RULE_SETS.items():
        run_rule_set(rs_name, rs_docs)
    reuse_across_collections()
    print("done")
