"""Demo for C03 / t9: value modifiers through SigmaDetectionItem.from_mapping, with emphasis on
the two-byte encoding modifiers (wide, utf16, utf16be) alone and inside chains."""
import itertools
import sys

import sigma.modifiers
import sigma.types
from sigma.exceptions import SigmaError
from sigma.modifiers import (
    SigmaUTF16BEModifier,
    SigmaUTF16Modifier,
    SigmaWideModifier,
    modifier_mapping,
)
from sigma.rule import SigmaDetectionItem
from sigma.types import Placeholder, SigmaExpansion, SigmaString, SpecialChars

print("imported:", sigma.types.__file__.replace("/tmp/wt10-C03/", ""))


def show_value(v):
    if isinstance(v, SigmaExpansion):
        return "Expansion[" + ", ".join(show_value(x) for x in v.values) + "]"
    if isinstance(v, SigmaString):
        return f"{type(v).__name__}(s={v.s!r}, original={v.original!r})"
    return repr(v)


def run(key, value):
    try:
        item = SigmaDetectionItem.from_mapping(key, value)
    except SigmaError as e:
        ctx = type(e.__context__).__name__ if e.__context__ is not None else None
        print(f"{key!r} {value!r} -> {type(e).__name__}: {e} [context={ctx}]")
        return
    print(
        f"{key!r} {value!r} -> linking={item.value_linking.__name__} negated={item.negated} "
        f"values=[{', '.join(show_value(v) for v in item.value)}] "
        f"modifiers={[m.__name__ for m in item.modifiers]}"
    )


values = [
    "foobar",
    "",
    "*foo?bar*",
    "?",
    "??a?",
    r"a\*b\?c\\d",
    "back\\slash",
    "trailing\\",
    "%var%",
    r"\%var%",
    "pre%user%post?x",
    "-param /switch a-b c/d",
    " -x",
    "föö",
    "Ā–",
    "\U0001f600",
    "café*",
    "\x00\x7f",
    ".*re$",
    "192.168.0.0/16",
    123,
    1.5,
    True,
    None,
    ["abc", "d?f", "-g"],
    ["abc", 5],
    ["ä", "ok"],
    [],
]

single = [
    "wide", "utf16", "utf16be", "contains", "startswith", "endswith", "all", "neq", "cased",
    "exists", "cidr", "fieldref", "re", "lt", "gte", "minute", "windash", "expand", "base64",
    "base64offset",
]
for mod in single:
    for v in values:
        run(f"field|{mod}", v)

chains = [
    "wide|base64", "wide|base64offset", "utf16|base64", "utf16be|base64", "utf16|base64offset",
    "utf16be|base64offset|contains", "wide|contains", "contains|wide", "startswith|utf16",
    "endswith|utf16be", "expand|wide", "expand|utf16", "expand|utf16be", "wide|expand",
    "windash|wide", "windash|utf16", "windash|utf16be|base64offset", "wide|windash",
    "wide|wide", "utf16|utf16", "utf16be|wide", "wide|all", "all|utf16", "neq|utf16be",
    "wide|cased", "cased|wide", "re|wide", "wide|re", "re|i|m|s", "re|contains", "re|expand",
    "cidr|wide", "fieldref|wide", "wide|fieldref", "exists|wide", "lt|wide", "wide|lt",
    "windash|contains|all", "expand|contains", "contains|all|neq", "base64offset|wide",
    "windash|expand|utf16|base64", "unknownmod", "wide|unknownmod",
]
chain_values = [
    "foo", "a?b*", "-p /q", "%ph%x", "hé", r"e\*s\\c", 7, None, True, ["-a", "b?"],
    ["ok", "nö"],
]
for c in chains:
    for v in chain_values:
        run(f"f|{c}", v)

# keyword items (no field) and exhaustive pairs over a compact alphabet
for c in ("wide", "utf16|contains", "utf16be|all"):
    run(f"|{c}", ["k1", "k?2"])
alphabet = ["a", "*", "?", "\\", "%", "-", "/", " ", "ü"]
for n in (1, 2, 3):
    for tup in itertools.product(alphabet, repeat=n):
        s = "".join(tup)
        for mod in ("wide", "utf16", "utf16be"):
            run(f"f|{mod}", s)

# direct use of the modifier classes: placeholders, expansions, source propagation, input untouched
from sigma.exceptions import SigmaRuleLocation

item = SigmaDetectionItem("f", [], [SigmaString("x")])
loc = SigmaRuleLocation("test.yml")
inputs = [
    SigmaString("a?*b"),
    SigmaString("a%p%b").insert_placeholders(),
    SigmaString("é?"),
    SigmaExpansion([SigmaString("x?"), SigmaString("y")]),
    SigmaExpansion([SigmaString("x"), SigmaString("ß")]),
    sigma.types.SigmaNumber(3),
]
for cls in (SigmaWideModifier, SigmaUTF16Modifier, SigmaUTF16BEModifier):
    for inp in inputs:
        before = show_value(inp)
        try:
            res = cls(item, [], loc).apply(inp)
            out = "[" + ", ".join(show_value(r) for r in res) + "]"
            if isinstance(inp, SigmaString):
                assert res[0] is not inp and all(
                    type(p) in (str, SpecialChars, Placeholder) for p in res[0].s
                )
                assert type(res[0].s) is list
        except SigmaError as e:
            out = f"{type(e).__name__}: {e} source={e.source} context={type(e.__context__).__name__}"
        assert show_value(inp) == before  # input not mutated
        print(cls.__name__, before, "->", out)

print("type hints:", [
    cls(item, [])._get_modify_type_hint().__name__
    for cls in (SigmaWideModifier, SigmaUTF16Modifier, SigmaUTF16BEModifier)
])
print("mro:", [
    [b.__name__ for b in cls.__mro__[:3]]
    for cls in (SigmaWideModifier, SigmaUTF16Modifier, SigmaUTF16BEModifier)
])
print("table size:", len(modifier_mapping))
sys.exit(0)
