"""Demo for property C13: a pipeline item acts exactly where its conditions hold.

Applies pipelines whose items carry rule / detection item / field name conditions to a few rules
and prints which detection items, fields and rules carry the effect of the marker transformations.
Also calls the condition classes touched by the refactoring directly with unusual inputs.
"""
import traceback

from sigma.collection import SigmaCollection
from sigma.exceptions import SigmaConfigurationError
from sigma.processing.conditions import (
    ContainsWildcardCondition,
    IsNullCondition,
    LogsourceCondition,
    MatchStringCondition,
    MatchValueCondition,
    RuleContainsDetectionItemCondition,
    RuleContainsFieldCondition,
)
from sigma.processing.pipeline import ProcessingPipeline
from sigma.rule import SigmaDetection, SigmaDetectionItem, SigmaRule
from sigma.types import SigmaNull, SigmaNumber, SigmaString

RULES = {
    "windows_proc": """
title: Windows process
id: 5013332f-8a70-4a04-bcc1-06a98a2cd3e1
status: test
level: high
tags:
    - attack.t1059
logsource:
    category: process_creation
    product: windows
detection:
    sel:
        Image|endswith: '\\\\cmd.exe'
        CommandLine|contains:
            - 'whoami'
            - 'net*user'
        EventID: 4688
    sel2:
        - User: null
        - ParentImage: 'C:\\\\explorer.exe'
    filter:
        Image|fieldref: ParentImage
    condition: (sel or sel2) and not filter
""",
    "linux_net": """
title: Linux network
status: experimental
level: low
logsource:
    product: linux
    service: auditd
detection:
    sel:
        dst_port:
            - 22
            - 4688
        Image: ''
    keywords:
        - 'whoami'
        - 4688
    condition: sel or keywords
""",
    "nested": """
title: Nested detections
logsource:
    category: process_creation
detection:
    sel:
        - Image: 'a'
          EventID: '4688'
        - CommandLine: 'whoami'
          User|re: 'adm.*'
    condition: sel
""",
}

PIPELINES = {
    "rule_conditions": """
name: rule conditions
priority: 10
transformations:
    - id: by_logsource
      type: set_custom_attribute
      attribute: by_logsource
      value: "yes"
      rule_conditions:
          - type: logsource
            category: process_creation
    - id: by_field
      type: set_custom_attribute
      attribute: by_field
      value: "yes"
      rule_conditions:
          - type: contains_field
            field: CommandLine
    - id: by_item_int
      type: set_custom_attribute
      attribute: by_item_int
      value: "yes"
      rule_conditions:
          - type: contains_detection_item
            field: EventID
            value: 4688
    - id: by_item_str
      type: set_custom_attribute
      attribute: by_item_str
      value: "yes"
      rule_conditions:
          - type: contains_detection_item
            field: EventID
            value: "4688"
    - id: by_or_not
      type: set_custom_attribute
      attribute: by_or_not
      value: "yes"
      rule_cond_op: or
      rule_cond_not: true
      rule_conditions:
          - type: contains_field
            field: dst_port
          - type: contains_detection_item
            field: Image
            value: a
    - id: by_expr
      type: set_custom_attribute
      attribute: by_expr
      value: "yes"
      rule_cond_expr: "(ls and not fld) or (itm and applied)"
      rule_conditions:
          ls:
              type: logsource
              product: windows
          fld:
              type: contains_field
              field: User
          itm:
              type: contains_detection_item
              field: CommandLine
              value: whoami
          applied:
              type: processing_item_applied
              processing_item_id: by_field
    - id: always
      type: set_custom_attribute
      attribute: always
      value: "yes"
""",
    "detection_item_conditions": """
name: detection item conditions
priority: 10
transformations:
    - id: str_any
      type: field_name_suffix
      suffix: ".strany"
      detection_item_conditions:
          - type: match_string
            cond: any
            pattern: "^who"
    - id: str_all_neg
      type: field_name_suffix
      suffix: ".strallneg"
      detection_item_conditions:
          - type: match_string
            cond: all
            pattern: "^who"
            negate: true
    - id: val_num
      type: field_name_suffix
      suffix: ".num"
      detection_item_conditions:
          - type: match_value
            cond: any
            value: 4688
    - id: wild_or_null
      type: field_name_suffix
      suffix: ".wn"
      detection_item_cond_op: or
      detection_item_conditions:
          - type: contains_wildcard
            cond: all
          - type: is_null
            cond: any
    - id: fields_re
      type: field_name_suffix
      suffix: ".img"
      field_name_conditions:
          - type: include_fields
            fields:
                - ".*Image.*"
            mode: re
    - id: not_after_num
      type: field_name_suffix
      suffix: ".late"
      detection_item_cond_expr: "not num and not (wn or img)"
      detection_item_conditions:
          num:
              type: processing_item_applied
              processing_item_id: val_num
          wn:
              type: processing_item_applied
              processing_item_id: wild_or_null
          img:
              type: processing_item_applied
              processing_item_id: fields_re
      rule_cond_op: or
      rule_conditions:
          - type: contains_field
            field: Image.strallneg.img
          - type: contains_detection_item
            field: EventID.strallneg.num
            value: 4688
""",
}


def show_items(detection, indent="    "):
    for item in detection.detection_items:
        if isinstance(item, SigmaDetection):
            print(indent + "nested:")
            show_items(item, indent + "    ")
        else:
            print(
                f"{indent}{item.field!r} values={[str(v) for v in item.value]} "
                f"applied={sorted(item.applied_processing_items)}"
            )


def run_pipelines():
    for pname, pyaml in PIPELINES.items():
        for rname, ryaml in RULES.items():
            print(f"=== pipeline {pname} on rule {rname}")
            pipeline = ProcessingPipeline.from_yaml(pyaml)
            rule = SigmaRule.from_yaml(ryaml)
            pipeline.apply(rule)
            print("  applied_ids:", sorted(pipeline.applied_ids))
            print("  rule applied:", sorted(rule.applied_processing_items))
            print("  custom attributes:", sorted(rule.custom_attributes.items()))
            for dname, detection in rule.detection.detections.items():
                print("  detection", dname)
                show_items(detection)


def run_correlation():
    print("=== logsource condition on correlation rules")
    collection = SigmaCollection.from_yaml(
        RULES["windows_proc"].replace("title: Windows process", "title: Windows process\nname: win")
        + "\n---\n"
        + RULES["linux_net"].replace("title: Linux network", "title: Linux network\nname: lin")
        + """
---
title: Correlation
name: corr
correlation:
    type: event_count
    rules:
        - win
        - lin
    group-by: User
    timespan: 5m
    condition:
        gte: 3
---
title: Correlation of correlation
correlation:
    type: temporal
    rules:
        - corr
    timespan: 5m
"""
    )
    for cond in (
        LogsourceCondition(product="windows"),
        LogsourceCondition(service="auditd"),
        LogsourceCondition(product="macos"),
        LogsourceCondition(category="process_creation"),
        RuleContainsFieldCondition("Image"),
        RuleContainsDetectionItemCondition("dst_port", 22),
    ):
        print(" ", cond, [cond.match(rule) for rule in collection.rules])
    unresolved = SigmaCollection.from_yaml(
        """
title: Unresolved
correlation:
    type: temporal
    rules:
        - missing
    timespan: 5m
""",
        resolve_references=False,
    )
    print(
        "  unresolved:",
        [LogsourceCondition(product="windows").match(rule) for rule in unresolved.rules],
    )
    attempt("empty logsource condition", lambda: LogsourceCondition())


def attempt(label, func):
    try:
        print(f"  {label}: {func()!r}")
    except Exception as e:
        print(f"  {label}: raised {type(e).__name__}: {e}")


def run_direct():
    print("=== direct condition calls")
    item_num = SigmaDetectionItem("EventID", [], [SigmaNumber(1), SigmaString("1"), SigmaNull()])
    item_nofield = SigmaDetectionItem(None, [], [SigmaString("whoami")])
    item_empty = SigmaDetectionItem("Empty", [], [SigmaString("")])
    nested = SigmaDetection([SigmaDetection([item_nofield, SigmaDetection([item_num])]), item_empty])
    for cond in (
        RuleContainsFieldCondition("EventID"),
        RuleContainsFieldCondition(None),
        RuleContainsFieldCondition("Empty"),
        RuleContainsFieldCondition("eventid"),
        RuleContainsDetectionItemCondition("EventID", 1),
        RuleContainsDetectionItemCondition("EventID", "1"),
        RuleContainsDetectionItemCondition("EventID", 1.0),
        RuleContainsDetectionItemCondition("EventID", True),
        RuleContainsDetectionItemCondition("EventID", 2),
        RuleContainsDetectionItemCondition(None, "whoami"),
        RuleContainsDetectionItemCondition("Empty", ""),
    ):
        for name, target in (
            ("num", item_num),
            ("nofield", item_nofield),
            ("empty", item_empty),
            ("nested", nested),
            ("str", "not a detection"),
            ("none", None),
        ):
            attempt(f"{cond} on {name}", lambda: cond.find_detection_item(target))

    print("=== value condition 'cond' parameter")
    for cond_value in ("any", "all", "ANY", "", None, "none", ["any"], 1):
        for cls, args in (
            (ContainsWildcardCondition, {}),
            (IsNullCondition, {}),
            (MatchValueCondition, {"value": 1}),
            (MatchStringCondition, {"pattern": "^1?$"}),
            (MatchStringCondition, {"pattern": "^1?$", "negate": True}),
        ):

            def run():
                c = cls(cond=cond_value, **args)
                return (
                    c.match_func.__name__,
                    [
                        c.match(i)
                        for i in (
                            item_num,
                            item_nofield,
                            item_empty,
                            SigmaDetectionItem("E", [], []),
                        )
                    ],
                )

            attempt(f"{cls.__name__}({cond_value!r}, {args})", run)
    attempt("bad regex", lambda: MatchStringCondition(cond="any", pattern="("))
    attempt("bad regex and bad cond", lambda: MatchStringCondition(cond="x", pattern="("))


if __name__ == "__main__":
    run_pipelines()
    run_correlation()
    run_direct()
