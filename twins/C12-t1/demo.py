"""
Demo for t1: field name mapping transformations (one-to-one, one-to-many as OR, prefix, suffix,
prefix mapping, keyword-to-field with substring semantics, field references, fields list).

Prints the converted queries plus the state of the rule object and the pipeline tracking after the
pipeline was applied. Must print the same with and without the patch.
"""

import sys
import textwrap

from sigma.backends.test import TextQueryTestBackend
from sigma.collection import SigmaCollection
from sigma.processing.pipeline import ProcessingPipeline
from sigma.processing.transformations import FieldMappingTransformation
from sigma.processing.transformations.base import FieldMappingTransformationBase
from sigma.rule import SigmaDetection, SigmaDetectionItem
from sigma.types import SigmaString, SigmaCasedString, SpecialChars, Placeholder


def dump_detection(d, indent="    "):
    for item in d.detection_items:
        if isinstance(item, SigmaDetection):
            print(f"{indent}detection linking={item.item_linking.__name__}")
            dump_detection(item, indent + "  ")
        else:
            print(
                f"{indent}item field={item.field!r} modifiers={[m.__name__ for m in item.modifiers]} "
                f"value={item.value!r} linking={item.value_linking.__name__} "
                f"plain_convertible={item.original_value is not None} "
                f"original={item.original_value!r} "
                f"applied={sorted(item.applied_processing_items)}"
            )


def run(title, rule_yaml, pipeline_yaml):
    print("=" * 78)
    print(title)
    rules = SigmaCollection.from_yaml(textwrap.dedent(rule_yaml))
    pipeline = ProcessingPipeline.from_yaml(textwrap.dedent(pipeline_yaml))
    backend = TextQueryTestBackend(pipeline)
    try:
        for query in backend.convert(rules):
            print("  query:", query)
    except Exception as e:  # the class and the message are part of the behaviour
        print("  exception:", type(e).__name__, str(e))
    for rule in rules.rules:
        print("  rule", rule.title, "fields=", getattr(rule, "fields", None))
        detection = getattr(rule, "detection", None)
        if detection is not None:
            for name, d in detection.detections.items():
                print(f"   detection {name} linking={d.item_linking.__name__}")
                dump_detection(d)
            try:
                print("   to_dict:", rule.to_dict()["detection"])
            except Exception as e:
                print("   to_dict exception:", type(e).__name__)
        else:
            print("   group_by=", rule.group_by, "aliases=", [
                (a.alias, {str(k.rule.name if hasattr(k, 'rule') and k.rule is not None else k): v for k, v in a.mapping.items()})
                for a in rule.aliases
            ], "cond fieldref=", getattr(rule.condition, "fieldref", None))
    p = getattr(backend, "last_processing_pipeline", None)
    if p is not None:
        print("  field_mappings:", sorted((repr(k), sorted(v)) for k, v in p.field_mappings.items()))
        print(
            "  field_name_applied_ids:",
            sorted((repr(k), sorted(v)) for k, v in p.field_name_applied_ids.items() if v),
        )
        print("  applied_ids:", sorted(p.applied_ids))


RULE_BASIC = """
    title: basic
    status: test
    logsource:
        category: process_creation
        product: windows
    fields:
        - Image
        - CommandLine
        - Other
    detection:
        sel:
            Image|endswith: '\\cmd.exe'
            CommandLine|contains|all:
                - ' /c '
                - 'who*ami'
            User: null
            Port: 445
        filter:
            Image: 'C:\\Windows\\*'
        condition: sel and not filter
"""

RULE_KEYWORDS = """
    title: keywords
    status: test
    logsource:
        category: test
    detection:
        keywords:
            - plain
            - '*leading'
            - 'trailing*'
            - '*both*'
            - 'in*ner'
            - 'esc\\*'
            - '?single'
            - ''
            - 123
            - 'with space'
        num_only:
            - 1
            - 2
        sel:
            field: value
        condition: (keywords or num_only) and not sel
"""

RULE_KEYWORD_MODS = """
    title: keyword modifiers
    status: test
    logsource:
        category: test
    detection:
        kw_all:
            '|all':
                - alpha
                - beta*
        kw_re:
            '|re': 'a.*b'
        kw_single: justone
        condition: kw_all or not kw_re or kw_single
"""

RULE_FIELDREF = """
    title: fieldref
    status: test
    logsource:
        category: test
    fields:
        - a
        - b
        - c
    detection:
        sel:
            a|fieldref: b
            c|fieldref|startswith: a
            d|fieldref:
                - a
                - x
        other:
            b: 'lit'
        condition: sel and not other
"""

RULE_NESTED = """
    title: nested
    status: test
    logsource:
        category: test
    detection:
        sel:
            - Image: a
              CommandLine|contains: b
            - Image: c
              User|startswith: d
            - kw1
        neg:
            - CommandLine: x
            - CommandLine: y
        condition: sel and not neg
"""

RULE_PLACEHOLDER = """
    title: placeholder keyword
    status: test
    logsource:
        category: test
    detection:
        keywords:
            '|expand':
                - '%admins%'
                - 'pre%users%post'
        condition: keywords
"""

CORRELATION = """
    title: base rule
    name: base_rule
    status: test
    logsource:
        category: test
    detection:
        sel:
            user: foo
            src: bar
        condition: sel
    ---
    title: correlation
    status: test
    correlation:
        type: value_count
        rules:
            - base_rule
        group-by:
            - user
            - host
        timespan: 5m
        condition:
            field: src
            gte: 10
"""

PIPELINES = {
    "one-to-one": """
        name: p
        priority: 10
        transformations:
            - id: m1
              type: field_name_mapping
              mapping:
                  Image: process.executable
                  CommandLine: process.command_line
                  a: A
                  b: B
                  user: user.name
                  src: source.ip
    """,
    "one-to-many": """
        name: p
        priority: 10
        transformations:
            - id: m2
              type: field_name_mapping
              mapping:
                  Image:
                      - image1
                      - image2
                  CommandLine:
                      - cl1
                      - cl2
                      - cl3
                  User: []
                  a:
                      - a1
                      - a2
                  b:
                      - b1
                      - b2
    """,
    "keyword-to-field": """
        name: p
        priority: 10
        transformations:
            - id: kw
              type: field_name_mapping
              mapping:
                  null: message
                  field: mapped
    """,
    "keyword-to-fields": """
        name: p
        priority: 10
        transformations:
            - id: kwm
              type: field_name_mapping
              mapping:
                  null:
                      - message
                      - raw
    """,
    "prefix/suffix": """
        name: p
        priority: 10
        transformations:
            - id: pre
              type: field_name_prefix
              prefix: "win."
            - id: suf
              type: field_name_suffix
              suffix: ".keyword"
              field_name_conditions:
                  - type: include_fields
                    fields:
                        - win.Image
                        - win.a
    """,
    "prefix mapping": """
        name: p
        priority: 10
        transformations:
            - id: pm
              type: field_name_prefix_mapping
              mapping:
                  Comm: proc.comm
                  Im:
                      - i1.
                      - i2.
                  a: alpha_
    """,
    "identity (empty mapping)": """
        name: p
        priority: 10
        transformations:
            - id: none
              type: field_name_mapping
              mapping: {}
    """,
    "conditions restrict": """
        name: p
        priority: 10
        transformations:
            - id: cond
              type: field_name_mapping
              mapping:
                  Image: img
                  CommandLine:
                      - c1
                      - c2
                  a: A
                  b: [B1, B2]
              field_name_conditions:
                  - type: exclude_fields
                    fields:
                        - Image
                        - a
            - id: chain
              type: field_name_mapping
              mapping:
                  c1: c1x
                  img: never
                  B1: B1x
              detection_item_conditions:
                  - type: match_string
                    cond: any
                    pattern: ".*"
    """,
}

for rule_name, rule_yaml in [
    ("basic", RULE_BASIC),
    ("keywords", RULE_KEYWORDS),
    ("keyword modifiers", RULE_KEYWORD_MODS),
    ("fieldref", RULE_FIELDREF),
    ("nested", RULE_NESTED),
    ("placeholder keyword", RULE_PLACEHOLDER),
    ("correlation", CORRELATION),
]:
    for pipeline_name, pipeline_yaml in PIPELINES.items():
        run(f"{rule_name} x {pipeline_name}", rule_yaml, pipeline_yaml)

# Direct object-level checks of the wildcard helper and of a transformation without pipeline.
print("=" * 78)
print("_add_wildcards_to_value")
t = FieldMappingTransformation({None: "msg"})
for s in [
    SigmaString(""),
    SigmaString("*"),
    SigmaString("**"),
    SigmaString("?"),
    SigmaString("a"),
    SigmaString("*a"),
    SigmaString("a*"),
    SigmaString("\\*a\\*"),
    SigmaString("a*b"),
    SigmaCasedString("Case"),
    SigmaString("%ph%").insert_placeholders(),
    SigmaString("x%ph%").insert_placeholders(),
]:
    before = list(s.s)
    r = t._add_wildcards_to_value(s)
    print(
        f"  {before!r} -> {type(r).__name__} {r.s!r} same_object={r is s} input_unchanged={s.s == before}"
    )

print("transformation without pipeline and processing item")
for mapping in [{None: "msg"}, {None: ["m1", "m2"]}, {"f": "g"}, {"f": ["g", "h"]}, {"f": []}, {}]:
    for field, values in [(None, ["kw", "*x*", 5]), ("f", ["v", "w*"]), ("z", ["v"])]:
        item = SigmaDetectionItem.from_mapping(field, values)
        item.applied_processing_items.add("earlier")
        d = SigmaDetection([item])
        t = FieldMappingTransformation(dict(mapping))
        print(f"  mapping={mapping!r} field={field!r}")
        try:
            t.apply_detection(d)
        except Exception as e:
            print("     exception:", type(e).__name__, str(e))
        dump_detection(d, "     ")
        print("     same item object kept:", d.detection_items[0] is item, "orig item:", item)

sys.exit(0)
