"""Demo for t2: field mapping tracking (one-to-many mappings, chained mappings, merge of nested
pipeline tracking) and the queries / error records depending on it are the same in every process
and for every hash seed. Run: PYTHONPATH=/tmp/wt5-C20 /venv/bin/python demo.py"""

import hashlib
import os
import random
import subprocess
import sys

CHILD = "--child" in sys.argv


def show(t) -> str:
    fwd = {repr(k): sorted(map(repr, v)) for k, v in t.items()}
    rev = {repr(k): sorted(map(repr, v)) for k, v in t.target_fields.items()}
    return (
        f"order={[repr(k) for k in t]} fwd={sorted(fwd.items())} "
        f"rev_order={[repr(k) for k in t.target_fields]} rev={sorted(rev.items())}"
    )


def child() -> None:
    from sigma.backends.test import TextQueryTestBackend
    from sigma.collection import SigmaCollection
    from sigma.exceptions import SigmaError
    from sigma.processing.pipeline import ProcessingPipeline
    from sigma.processing.tracking import FieldMappingTracking

    # 1. scripted sequences, including unusual arguments
    scripts = {
        "cascade": [("a", "b"), ("b", "c"), ("c", ["d", "e"]), ("e", "f")],
        "one-to-many": [("a", ["x", "y", "z"]), ("y", ["y1", "y2"]), ("b", ["x", "y1"]), ("x", "w")],
        "self": [("a", "a"), ("a", "b"), ("b", ["b", "c"]), ("b", "d")],
        "cycle": [("a", "b"), ("b", "a"), ("a", "b"), ("b", "c")],
        "none source": [(None, "k"), (None, ["k", "l"]), ("k", "m"), (None, "n")],
        "none target chain": [("a", [None]), (None, "z"), ("a", "q")],
        "empty": [("a", []), ("a", "b"), ("b", []), ("c", [])],
        "tuple target": [("a", ("x", "y")), (("x", "y"), "z")],
        "repeat": [("a", "b"), ("a", "b"), ("a", ["b", "c"]), ("b", "b")],
        "dup in list": [("a", ["b", "b", "c"]), ("b", ["c", "c"])],
        "unhashable": [("a", "b"), ("b", [["x"]]), ("a", "c")],
        "int": [(1, 2), (2, [3, 4]), (True, 5)],
    }
    for name, ops in scripts.items():
        t = FieldMappingTracking()
        for src, tgt in ops:
            before = repr(tgt)
            try:
                ret = t.add_mapping(src, tgt)
                print(name, (src, tgt), "-> ret", ret, "| arg", before == repr(tgt), "|", show(t))
            except Exception as e:
                print(name, (src, tgt), "->", type(e).__name__, repr(e.args), "|", show(t))

    # 2. pseudo-random sequences over a small alphabet + merge of two trackings
    rng = random.Random(20)
    alphabet = ["a", "b", "c", "d", "e", None]
    for run in range(40):
        t1, t2 = FieldMappingTracking(), FieldMappingTracking()
        for t in (t1, t2):
            for _ in range(rng.randint(0, 7)):
                src = rng.choice(alphabet)
                tgt = (
                    rng.choice(alphabet[:-1])
                    if rng.random() < 0.5
                    else rng.sample(alphabet[:-1], rng.randint(0, 3))
                )
                try:
                    t.add_mapping(src, tgt)
                except Exception as e:
                    print("run", run, "add", (src, tgt), type(e).__name__, repr(e.args))
        before2 = show(t2)
        try:
            t1.merge(t2)
        except Exception as e:
            print("run", run, "merge", type(e).__name__, repr(e.args))
        print("run", run, "merged", show(t1), "| other unchanged", before2 == show(t2))
    t = FieldMappingTracking()
    t.add_mapping("a", "b")
    t.add_mapping("c", "d")
    for label, fn in (("self-merge", lambda: t.merge(t)),):
        try:
            fn()
            print(label, show(t))
        except Exception as e:
            print(label, type(e).__name__, repr(e.args), show(t))
    t = FieldMappingTracking({"p": {"q"}})  # initial data without reverse mapping
    t.add_mapping("q", "r")
    t.add_mapping("p", "s")
    print("initial data", show(t))

    # 3. through pipelines and a backend
    pipeline = ProcessingPipeline.from_yaml(
        """
name: outer
priority: 10
transformations:
  - id: map1
    type: field_name_mapping
    mapping:
      srcA: [a1, a2, a3]
      srcB: b1
  - id: nest
    type: nest
    items:
      - id: map2
        type: field_name_mapping
        mapping:
          a2: [a2x, a2y]
          b1: [b1x, b1y, b1z]
          srcC: c1
      - id: map3
        type: field_name_mapping
        mapping:
          a2y: final
  - id: strict
    type: strict_field_mapping_failure
"""
    )
    rule_ok = """
title: ok
status: test
logsource: {category: test}
detection:
    sel:
        srcA: v1
        srcB|contains: [v2, v3]
        srcC: 1
        fieldA: kept
    condition: sel
"""
    rule_bad = """
title: bad
status: test
logsource: {category: test}
detection:
    sel:
        srcA: v1
        zzz: 1
        other: 2
    condition: sel
"""
    for label, y in (("ok", rule_ok), ("bad", rule_bad)):
        backend = TextQueryTestBackend(pipeline, collect_errors=True)
        try:
            for q in backend.convert(SigmaCollection.from_yaml(y)):
                print(label, "query", q)
        except SigmaError as e:
            print(label, "raised", type(e).__name__, str(e))
        for _, err in backend.errors:
            print(label, "error", type(err).__name__, str(err))
        print(label, "tracking", show(backend.last_processing_pipeline.field_mappings))


def main() -> None:
    import re

    full, observable = {}, {}
    first = None
    for seed in ["0", "1", "2", "17", "4242", "99999"]:
        env = dict(os.environ, PYTHONHASHSEED=seed)
        out = subprocess.run(
            [sys.executable, os.path.abspath(__file__), "--child"],
            env=env,
            capture_output=True,
            text=True,
        )
        if out.returncode != 0:
            print(out.stdout, out.stderr)
            sys.exit(1)
        full[seed] = hashlib.sha256(out.stdout.encode()).hexdigest()
        # The insertion order of the keys of the tracking dicts is internal state that follows set
        # iteration order in chained mappings; it is shown, but it is not part of any output.
        stripped = re.sub(r"(rev_)?order=\[[^]]*\] ", "", out.stdout)
        observable[seed] = hashlib.sha256(stripped.encode()).hexdigest()
        if first is None:
            first = out.stdout
    print(first, end="")
    for seed in full:
        print("PYTHONHASHSEED", seed, "full", full[seed], "without key order", observable[seed])
    if len(set(observable.values())) != 1:
        print("OBSERVABLE OUTPUT DIFFERS BETWEEN HASH SEEDS")
        sys.exit(1)
    print("mappings, queries and errors agree for all hash seeds")


if __name__ == "__main__":
    child() if CHILD else main()
