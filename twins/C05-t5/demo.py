"""
Demo for C05/t5: RegexTransformation (string value -> regular expression) and the renderings
around it. Prints every observed output; the output has to be identical with and without the patch.
"""

import itertools
import random
import re
import sys

from sigma.backends.test import TextQueryTestBackend
from sigma.collection import SigmaCollection
from sigma.conversion.state import ConversionState
from sigma.processing.pipeline import ProcessingItem, ProcessingPipeline
from sigma.processing.transformations import RegexTransformation
from sigma.rule import SigmaDetectionItem
from sigma.types import (
    Placeholder,
    SigmaCasedString,
    SigmaRegularExpression,
    SigmaRegularExpressionFlag,
    SigmaString,
    SpecialChars,
)

METHODS = ["plain", "ignore_case_flag", "ignore_case_brackets"]


def show(label, func):
    try:
        res = func()
        print(f"{label} -> {res!r}")
    except Exception as e:  # exception class and message are part of the behaviour
        print(f"{label} !! {type(e).__name__}: {e}")


def describe(v):
    """Everything observable of a transformation result."""
    if isinstance(v, SigmaRegularExpression):
        return (
            type(v).__name__,
            v.regexp.s,
            sorted(f.name for f in v.flags),
            type(v.flags).__name__,
            v.to_plain(),
        )
    if isinstance(v, SigmaString):
        return (type(v).__name__, v.s, v.to_plain())
    return v


def wildcard_match(parts, subject):
    """Reference semantics of a Sigma string: '*' any text, '?' one character (case-sensitive)."""
    if not parts:
        return subject == ""
    head, rest = parts[0], parts[1:]
    if head == SpecialChars.WILDCARD_MULTI:
        return any(wildcard_match(rest, subject[i:]) for i in range(len(subject) + 1))
    if head == SpecialChars.WILDCARD_SINGLE:
        return subject != "" and wildcard_match(rest, subject[1:])
    return subject.startswith(head) and wildcard_match(rest, subject[len(head) :])


strings = [
    "",
    "plain",
    "MiXeD Case 123",
    "*",
    "?",
    "**",
    "*?*",
    "\\",
    "\\\\",
    "\\*",
    "\\?",
    "\\\\*",
    "a*b?c",
    "*start",
    "end*",
    "*both*",
    "a\\*b\\?c\\\\d\\e",
    'qu"ote',
    "it's",
    "c:\\Path\\*.EXE",
    "a.b+c(d)[e]{f}^$|",
    "[aA]",
    "a-z",
    "a:b&c/d",
    "trailing\\",
    "tab\there\nnewline",
    " ",
    "äÖü",
    "straße",
    "İstanbul ǆ ﬁ",
    "ςσΣ",
    "日本語*",
    "٣x²",
    "%name%",
    "100%",
]

print("== RegexTransformation.apply_string_value()")
for method, s in itertools.product(METHODS, strings):
    t = RegexTransformation(method=method)
    for cls in (SigmaString, SigmaCasedString):
        v = cls(s)
        before = list(v.s)
        show(
            f"{method} {cls.__name__}({s!r})",
            lambda: describe(t.apply_string_value("field", v)),
        )
        if v.s != before:
            print("value was modified!", before, v.s)
    v = SigmaString(s)
    show(f"{method} ({s!r}) same object returned", lambda: t.apply_string_value(None, v) is v)

print("== values built from parts")
part_lists = [
    [],
    [""],
    ["", ""],
    ["a", "B"],
    [SpecialChars.WILDCARD_MULTI],
    [SpecialChars.WILDCARD_SINGLE, SpecialChars.WILDCARD_SINGLE],
    ["a*b", SpecialChars.WILDCARD_MULTI, "c?d"],
    ["pre", Placeholder("var"), "post"],
    [Placeholder("only")],
    [SpecialChars.WILDCARD_MULTI, Placeholder("x y")],
    ["(", SpecialChars.WILDCARD_MULTI],
    ["ok", 5, "Then"],
    ["ok", None, SpecialChars.WILDCARD_SINGLE],
    ["ok", b"bytes"],
    [5],
]
for method, parts in itertools.product(METHODS, part_lists):
    v = SigmaString()
    v.s = list(parts)
    show(
        f"{method} parts {parts!r}",
        lambda: describe(RegexTransformation(method=method).apply_string_value("f", v)),
    )

print("== configuration")
show("default method", lambda: RegexTransformation().method)
for m in ["invalid", "", None, "PLAIN", "ignore_case_brackets "]:
    show(f"method {m!r}", lambda: RegexTransformation(method=m))
t = RegexTransformation(method="plain")
t.method = "changed later"
show("method changed after the check", lambda: describe(t.apply_string_value("f", SigmaString("aB*c"))))
show(
    "from_dict",
    lambda: ProcessingPipeline.from_dict(
        {"transformations": [{"id": "re", "type": "regex", "method": "ignore_case_flag"}]}
    ).items[0].transformation,
)
show("two results have independent flag sets", lambda: (
    lambda a, b: (a.flags is not b.flags, a.flags, b.flags)
)(
    RegexTransformation(method="plain").apply_string_value("f", SigmaString("a")),
    RegexTransformation(method="plain").apply_string_value("f", SigmaString("b")),
))

print("== the regular expression matches what the wildcard pattern matches")
subject_alphabet = "aAb*?\\.x"
subjects = [""] + [
    "".join(t) for n in (1, 2, 3) for t in itertools.product(subject_alphabet, repeat=n)
]
patterns = ["a", "A*", "?b", "a?*", "\\*a", "a\\\\*", "*.x", "a.b", "*\\?*", "??", "\\\\", "ab*\\*"]
for method, p in itertools.product(METHODS, patterns):
    v = SigmaString(p)
    r = RegexTransformation(method=method).apply_string_value("f", v)
    flags = re.IGNORECASE if SigmaRegularExpressionFlag.IGNORECASE in r.flags else 0
    compiled = re.compile(str(r.regexp), flags | re.DOTALL)
    matched = [s for s in subjects if compiled.fullmatch(s)]
    if method == "plain":
        expected = [s for s in subjects if wildcard_match(v.s, s)]
    else:  # case-insensitive reference
        lowered = [e.lower() if isinstance(e, str) else e for e in v.s]
        expected = [s for s in subjects if wildcard_match(lowered, s.lower())]
    print(
        f"{method} {p!r} -> {str(r.regexp)!r}: {len(matched)} subjects matched, "
        f"same as wildcard semantics: {matched == expected}, first: {matched[:6]!r}"
    )

print("== random values")
rnd = random.Random(20260926)
alphabet = "aZ9*?\\.\"'[(|é "
for i in range(300):
    s = "".join(rnd.choice(alphabet) for _ in range(rnd.randint(0, 12)))
    method = rnd.choice(METHODS)
    show(
        f"random {i}: {method} {s!r}",
        lambda: describe(RegexTransformation(method=method).apply_string_value("f", SigmaString(s))),
    )

print("== detection items and rule conversion")
for method in METHODS:
    item = SigmaDetectionItem(
        "field",
        [],
        [SigmaString("\\tE.sT*val?ue"), SigmaString(""), SigmaCasedString("C:\\*")],
    )
    t = RegexTransformation(method=method)
    t.set_pipeline(ProcessingPipeline())
    show(f"{method} apply_detection_item", lambda: (t.apply_detection_item(item), [describe(v) for v in item.value])[1])

rule = """
title: Test
status: test
logsource:
    category: test
detection:
    sel:
        fieldA: 'Foo/Bar*baz?'
        fieldB|contains: 'a"b\\*c'
        field C|endswith: '\\Temp\\x.EXE'
        fieldD:
            - ''
            - 'one.two'
            - 123
        fieldE|re: 'already.*regex'
    condition: sel
"""
for method in METHODS:
    pipeline = ProcessingPipeline(
        items=[ProcessingItem(identifier="re", transformation=RegexTransformation(method=method))]
    )
    show(
        f"{method} convert rule",
        lambda: TextQueryTestBackend(pipeline).convert(SigmaCollection.from_yaml(rule)),
    )

print("== the other renderings of string values")
backend = TextQueryTestBackend()
state = ConversionState()
for s in strings:
    v = SigmaString(s)
    show(f"parts({s!r})", lambda: v.s)
    show(f"to_plain({s!r})", lambda: v.to_plain())
    show(f"reparse({s!r})", lambda: SigmaString(v.to_plain()) == v)
    show(f"convert({s!r})", lambda: v.convert())
    show(f"convert_value_str({s!r})", lambda: backend.convert_value_str(v, state))
    show(f"to_regex({s!r})", lambda: v.to_regex())
    show(f"convert_value_re(to_regex({s!r}))", lambda: backend.convert_value_re(v.to_regex(), state))
    show(f"escape_and_quote_field({s!r})", lambda: backend.escape_and_quote_field(s))

sys.exit(0)
