"""Demo for property C01: dispatch of field=value conditions on the value type and
conversion of (non-)existence checks, observed through the converted queries."""
import itertools

from sigma.backends.test import TextQueryTestBackend
from sigma.collection import SigmaCollection
from sigma.conditions import (
    ConditionAND,
    ConditionFieldEqualsValueExpression,
    ConditionNOT,
    ConditionOR,
)
from sigma.conversion.state import ConversionState
from sigma.types import (
    SigmaBool,
    SigmaCasedString,
    SigmaCIDRExpression,
    SigmaCompareExpression,
    SigmaExists,
    SigmaExpansion,
    SigmaFieldReference,
    SigmaNull,
    SigmaNumber,
    SigmaQueryExpression,
    SigmaRegularExpression,
    SigmaString,
    SigmaTimestampPart,
    SigmaType,
    TimestampPart,
)


class NoNotExistsBackend(TextQueryTestBackend):
    """No explicit expression for non-existence: converted as NOT exists(...)."""

    field_not_exists_expression = None


class NotEqBackend(TextQueryTestBackend):
    convert_not_as_not_eq = True
    field_not_exists_expression = None
    convert_or_as_in = False
    convert_and_as_in = False


class ParenBackend(TextQueryTestBackend):
    parenthesize = True
    field_not_exists_expression = None


class NotFirstBackend(TextQueryTestBackend):
    """Unusual precedence order: OR binds tighter than AND, NOT binds weakest."""

    precedence = (ConditionOR, ConditionAND, ConditionNOT)
    field_not_exists_expression = None
    convert_or_as_in = False


class TimestampBackend(TextQueryTestBackend):
    """Supports timestamp parts, but neither native CIDR nor case-sensitive matching."""

    field_timestamp_part_expression = "{timestamp_part}({field})"
    timestamp_part_mapping = {
        TimestampPart.MINUTE: "minute",
        TimestampPart.HOUR: "hour",
        TimestampPart.DAY: "day",
        TimestampPart.WEEK: "week",
        TimestampPart.MONTH: "month",
        TimestampPart.YEAR: "year",
    }
    cidr_expression = None
    case_sensitive_match_expression = None


BACKENDS = [
    TextQueryTestBackend,
    NoNotExistsBackend,
    NotEqBackend,
    ParenBackend,
    NotFirstBackend,
    TimestampBackend,
]

DETECTIONS = {
    "plain string": ("sel:\n        f: value", "sel"),
    "wildcards": (
        "sel:\n        a|startswith: abc\n        b|endswith: xyz\n        c|contains: mid\n        d: 'a*b?c'",
        "sel",
    ),
    "cased": ("sel:\n        f|cased: VaLuE\n        g|contains|cased: MiD", "sel"),
    "number list": ("sel:\n        f:\n            - 1\n            - 2\n            - 3.5", "sel"),
    "bool": ("sel:\n        f: true\n        g: false", "sel"),
    "regex": ("sel:\n        f|re: 'fo+/bar.*'\n        g|re|i|m: 'x\\d'", "sel"),
    "cidr": ("sel:\n        ip|cidr:\n            - 10.0.0.0/8\n            - '::1/128'", "sel"),
    "compare": ("sel:\n        f|gt: 5\n        g|lte: 7\n        h|neq: 9", "sel"),
    "fieldref": ("sel:\n        f|fieldref: other\n        g|fieldref|startswith: pre", "sel"),
    "null": ("sel:\n        f: null\n        g: ''", "sel"),
    "exists true": ("sel:\n        f|exists: true", "sel"),
    "exists false": ("sel:\n        f|exists: false", "sel"),
    "not exists false": ("sel:\n        f|exists: false\n    other:\n        g: 1", "not sel and other"),
    "not exists true or": (
        "sel:\n        f|exists: true\n    other:\n        g|exists: false\n        h: x",
        "not sel or not other",
    ),
    "exists in list of maps": (
        "sel:\n        - f|exists: false\n        - g|exists: true\n        - h|exists: false",
        "sel",
    ),
    "windash expansion": ("sel:\n        cmd|windash|contains: ' -x'\n        g: 1", "sel"),
    "base64offset expansion": ("sel:\n        f|base64offset|contains:\n            - abc\n            - de", "not sel"),
    "expansion all": ("sel:\n        cmd|windash|contains|all:\n            - ' -a'\n            - ' /b'", "sel"),
    "timestamp part": ("sel:\n        ts|hour: 13\n        ts2|minute|gte: 30", "sel"),
    "keywords": ("kw:\n        - foo\n        - 'b*r'\n        - 42", "kw"),
    "mixed nesting": (
        "a:\n        f: 1\n    b:\n        g|exists: false\n    c:\n        h|cased: X\n        i|re: y+",
        "a and not (b or c)",
    ),
    "neq modifier": ("sel:\n        f|neq:\n            - a\n            - b\n        g|exists|neq: true", "sel"),
    "1 of them": ("s1:\n        f|exists: false\n    s2:\n        g|cidr: 192.168.0.0/16", "1 of s*"),
    "all of them negated": ("s1:\n        f|exists: false\n    s2:\n        g: null", "not all of s*"),
}

RULE_TEMPLATE = """
title: Demo
status: test
logsource:
    category: test
detection:
    {detection}
    condition: {condition}
"""


def show(label, func):
    try:
        result = func()
    except Exception as e:  # exception class and message are part of the observed behaviour
        result = f"!! {e.__class__.__name__}: {e}"
    print(f"  {label}: {result!r}")


def main():
    for name, (detection, condition) in DETECTIONS.items():
        print(f"== rule: {name} / condition: {condition}")
        yaml = RULE_TEMPLATE.format(detection=detection, condition=condition)
        for backend_class in BACKENDS:
            show(
                backend_class.__name__,
                lambda: backend_class().convert(SigmaCollection.from_yaml(yaml)),
            )

    print("== direct dispatch on hand-built conditions")

    class CasedSubclass(SigmaCasedString):
        pass

    class ExistsSubclass(SigmaExists):
        pass

    class UnknownValue(SigmaType):
        pass

    values = {
        "str": lambda: SigmaString("a*"),
        "empty str": lambda: SigmaString(""),
        "cased subclass": lambda: CasedSubclass("AbC*"),
        "number": lambda: SigmaNumber(7),
        "float": lambda: SigmaNumber(1.5),
        "bool": lambda: SigmaBool(False),
        "re": lambda: SigmaRegularExpression("a.*b"),
        "cidr": lambda: SigmaCIDRExpression("10.1.0.0/16"),
        "compare": lambda: SigmaCompareExpression(
            SigmaNumber(3), SigmaCompareExpression.CompareOperators.LT
        ),
        "fieldref": lambda: SigmaFieldReference("other field"),
        "null": lambda: SigmaNull(),
        "query expr": lambda: SigmaQueryExpression("lookup({field}) == {id}", "id"),
        "exists T": lambda: SigmaExists(True),
        "exists F": lambda: SigmaExists(False),
        "exists subclass F": lambda: ExistsSubclass(False),
        "timestamp": lambda: SigmaTimestampPart(TimestampPart.WEEK, 12),
        "expansion": lambda: SigmaExpansion(
            [SigmaString("x"), SigmaNumber(2), SigmaExists(False), SigmaCasedString("Y")]
        ),
        "expansion without exists": lambda: SigmaExpansion(
            [SigmaString("x*"), SigmaNumber(2), SigmaCasedString("Y"), SigmaNull()]
        ),
        "nested expansion": lambda: SigmaExpansion(
            [SigmaExpansion([SigmaString("p"), SigmaString("q*")]), SigmaNull()]
        ),
        "empty expansion": lambda: SigmaExpansion([]),
        "unknown SigmaType": lambda: UnknownValue(None),
        "python str": lambda: "raw",
        "None": lambda: None,
    }
    for (vname, mkvalue), backend_class in itertools.product(values.items(), BACKENDS):
        for wrap in ("plain", "not", "and", "or-not"):

            def run():
                backend = backend_class()
                state = ConversionState()
                cond = ConditionFieldEqualsValueExpression("fld", mkvalue())
                other = ConditionFieldEqualsValueExpression("o", SigmaNumber(1))
                if wrap == "not":
                    cond = ConditionNOT([cond])
                elif wrap == "and":
                    cond = ConditionAND([other, cond])
                elif wrap == "or-not":
                    cond = ConditionOR([other, ConditionNOT([ConditionAND([cond, other])])])
                cond = cond.postprocess(None) if hasattr(cond, "postprocess") else cond
                result = backend.convert_condition(cond, state)
                return (result, [str(type(d).__name__) for d in state.deferred])

            show(f"{vname} / {backend_class.__name__} / {wrap}", run)

    print("== convert_condition_field_eq_val_exists called directly")
    for backend_class in BACKENDS:
        for value in (SigmaExists(True), SigmaExists(False), SigmaNumber(0), SigmaString("")):
            show(
                f"{backend_class.__name__} / {value!r}",
                lambda: backend_class().convert_condition_field_eq_val_exists(
                    ConditionFieldEqualsValueExpression("some field", value), ConversionState()
                ),
            )

    print("== class templates restored after conversion in not-equals mode")
    for attr in ("eq_token", "eq_expression", "re_expression", "startswith_expression"):
        print(f"  {attr}: {getattr(NotEqBackend, attr)!r}")


if __name__ == "__main__":
    main()
