"""Demo for C02: condition text parses to the boolean function it spells.

Builds rules' detection sections from dicts, parses many conditions, prints the
postprocessed tree shape and its truth table over all assignments of the detections.
"""
import itertools
import sys

import sigma.conditions
from sigma.conditions import (
    ConditionAND,
    ConditionOR,
    ConditionNOT,
    ConditionFieldEqualsValueExpression,
    ConditionValueExpression,
    ConditionIdentifier,
    ConditionSelector,
    SigmaCondition,
)
from sigma.rule.detection import SigmaDetections, SigmaDetection, SigmaDetectionItem
from sigma.exceptions import SigmaError
from sigma.types import SigmaString, SigmaNull

print("module:", sigma.conditions.__file__)


def shape(node):
    """Structural rendering including parent class and source, to see side effects too."""
    if node is None:
        return "None"
    par = type(node.parent).__name__ if node.parent is not None else "-"
    if isinstance(node, (ConditionAND, ConditionOR, ConditionNOT)):
        return "%s^%s(%s)" % (type(node).__name__[9:], par, ", ".join(shape(a) for a in node.args))
    if isinstance(node, ConditionFieldEqualsValueExpression):
        return "%s=%r^%s" % (node.field, str(node.value) if not isinstance(node.value, SigmaNull) else None, par)
    if isinstance(node, ConditionValueExpression):
        return "kw:%r^%s" % (str(node.value), par)
    if isinstance(node, ConditionIdentifier):
        return "id:%s" % node.identifier
    if isinstance(node, ConditionSelector):
        return "sel:%s:%s" % (node.cond_class.__name__, node.pattern)
    return repr(node)


def evaluate(node, env):
    """env maps marker value -> bool.  Each detection 'name' is {'f': 'name'}."""
    if isinstance(node, ConditionAND):
        return all(evaluate(a, env) for a in node.args)
    if isinstance(node, ConditionOR):
        return any(evaluate(a, env) for a in node.args)
    if isinstance(node, ConditionNOT):
        return not evaluate(node.args[0], env)
    if isinstance(node, ConditionFieldEqualsValueExpression):
        return env[str(node.value)]
    raise TypeError(type(node))


def table(names, cond):
    dets = SigmaDetections.from_dict({**{n: {"f": n} for n in names}, "condition": cond})
    try:
        tree = dets.parsed_condition[0].parsed
    except SigmaError as e:
        return "ERR %s: %s" % (type(e).__name__, e)
    bits = "".join(
        "1" if evaluate(tree, dict(zip(names, vals))) else "0"
        for vals in itertools.product([False, True], repeat=len(names))
    )
    if len(bits) > 32:  # long tables: number of satisfying assignments and a digest
        import hashlib
        bits = "#%d/%d:%s" % (bits.count("1"), len(bits), hashlib.sha1(bits.encode()).hexdigest()[:12])
    return "%s  tt=%s" % (shape(tree), bits)


NAMES = ["sel", "sel2", "notable", "android", "orbit", "all1", "anyone", "often", "them1",
         "a1b", "_hidden", "_filt_x_sel", "1st"]
SMALL = ["a", "b", "c"]

print("== precedence / associativity / parentheses")
for cond in [
    "a", "not a", "not not a", "a and b", "a or b", "a or b and c", "a and b or c",
    "not a and b", "not a or b", "not (a and b)", "not (a or b) and c", "(a or b) and c",
    "a and (b or c)", "a and b and c", "a or b or c", "a or not b and c", "a and not b or not c",
    "((a))", "(a and b) or (not c)", "not a and not b and not c", "a or (b or c)", "a and (b and c)",
    "a  and   b", " a or b ", "a AND b", "a and", "and a", "a b", "(a", "a or or b", "", "a | count() > 1",
    "d", "a and d",
]:
    print("%-28r %s" % (cond, table(SMALL, cond)))

print("== keyword-prefixed names")
K = ["notable", "android", "orbit", "all1", "anyone", "often", "them1"]
for cond in [
    "notable", "not notable", "notable and android", "android or orbit", "not android and orbit",
    "all1 and anyone", "often or them1", "not often", "notable or android and orbit",
    "1 of them1", "all of all*", "any of any*", "1 of o*", "all of *n*", "not 1 of not*", "all of them",
    "1 of them", "any of them and not all of them", "1 of of*", "them1 and 1 of them",
]:
    print("%-36r %s" % (cond, table(K, cond)))

print("== selectors and underscore rule")
for cond in [
    "1 of them", "all of them", "any of them", "1 of sel*", "all of sel*", "1 of *", "all of *",
    "1 of _*", "all of _*", "1 of _h*", "1 of _filt_*", "all of _filt_x_*", "1 of *sel", "1 of *el*",
    "all of s*l*", "1 of a*b", "1 of a1b", "1 of 1st", "1 of 1*", "1 of nomatch*", "all of x*",
    "2 of them", "1 of sel* and not all of _*", "not 1 of sel*", "1 of sel and sel2",
    "sel and 1 of *2", "1 of *_*", "1 of __*", "1 of s.l", "1 of sel?", "all of _filt*",
]:
    print("%-36r %s" % (cond, table(NAMES, cond)))

print("== parse(False) trees")
for cond in ["a and not b or c", "1 of a* and all of them", "not (a or b)", "any of _x*"]:
    dets = SigmaDetections.from_dict({"a": {"f": "a"}, "b": {"f": "b"}, "c": {"f": "c"}, "condition": cond})
    print("%-28r %s" % (cond, shape(dets.parsed_condition[0].parse(False))))

print("== detection contents (substitution, collapse, empty drop)")
CONTENT = {
    "single": {"f": "v"},
    "multi": {"f": ["v1", "v2"]},
    "allmod": {"f|contains|all": ["v1", "v2"]},
    "two": {"f": "v", "g": ["w1", "w2"]},
    "kw": "plain",
    "kws": ["k1", "k2", 3],
    "kwall": {"|all": ["k1", "k2"]},
    "null": {"f": None},
    "empty": {"f": []},
    "lst": [{"f": "v"}, {"g": "w", "h": "x"}],
    "lst1": [{"f": "v"}],
    "nested": [{"f": ["a", "b"]}, "kw"],
}
for name in CONTENT:
    for cond in [name, "not " + name, "1 of " + name[:2] + "*", name + " and single"]:
        try:
            dets = SigmaDetections.from_dict({**CONTENT, "condition": cond})
            print("%-22r %s" % (cond, shape(dets.parsed_condition[0].parsed)))
        except SigmaError as e:
            print("%-22r ERR %s: %s" % (cond, type(e).__name__, e))

print("== directly built detection items: negated, keyword null, empty detection")
from sigma.conditions import ConditionAND as A
def direct(item_or_det):
    det = item_or_det if isinstance(item_or_det, SigmaDetection) else SigmaDetection([item_or_det])
    dets = SigmaDetections({"d": det, "e": SigmaDetection.from_definition({"f": "e"})}, ["d and e"])
    for cond in ["d", "not d", "d and e", "1 of *"]:
        try:
            print("   %-10r %s" % (cond, shape(SigmaCondition(cond, dets).parsed)))
        except Exception as e:
            print("   %-10r ERR %s: %s" % (cond, type(e).__name__, e))

S = SigmaString
for label, obj in [
    ("negated single", SigmaDetectionItem("f", [], [S("v")], negated=True)),
    ("negated multi", SigmaDetectionItem("f", [], [S("v"), S("w")], negated=True)),
    ("negated multi all", SigmaDetectionItem("f", [], [S("v"), S("w")], A, negated=True)),
    ("negated kw", SigmaDetectionItem(None, [], [S("v")], negated=True)),
    ("negated kw multi", SigmaDetectionItem(None, [], [S("v"), S("w")], negated=True)),
    ("null field", SigmaDetectionItem("f", [], [])),
    ("negated null field", SigmaDetectionItem("f", [], [], negated=True)),
    ("null without field", SigmaDetectionItem(None, [], [])),
    ("forced OR linking", SigmaDetection([SigmaDetectionItem("f", [], [S("v")]), SigmaDetectionItem("g", [], [S("w")])], item_linking=ConditionOR)),
    ("nested only -> OR", SigmaDetection([SigmaDetection([SigmaDetectionItem("f", [], [S("v")])]), SigmaDetection([SigmaDetectionItem("g", [], [S("w")])])])),
    ("mixed -> AND", SigmaDetection([SigmaDetection([SigmaDetectionItem("f", [], [S("v")])]), SigmaDetectionItem("g", [], [S("w")])])),
]:
    print(label, "| linking:", getattr(getattr(obj, "item_linking", None), "__name__", None))
    direct(obj)

# detection emptied after construction (as DropDetectionItem does)
det = SigmaDetection([SigmaDetectionItem("f", [], [S("v")])])
det.detection_items = []
print("emptied detection")
direct(det)
try:
    SigmaDetection([])
except Exception as e:
    print("empty ctor: ERR %s: %s" % (type(e).__name__, e))

print("== same detection referenced twice gets independent parents")
dets = SigmaDetections.from_dict({"a": {"f": "a"}, "b": {"f": ["x", "y"]}, "condition": "a and not a or b and (a or b)"})
print(shape(dets.parsed_condition[0].parsed))
print(shape(dets.parsed_condition[0].parsed))
print("original detection parent untouched:", dets["a"].parent, dets["a"].detection_items[0].parent)
sys.exit(0)
