"""Demo for C19 / t7: modifier combination validator, observed through SigmaValidator.

Prints issues (as an order-independent sorted multiset), checks that rules are unchanged by
validation (to_dict and converted queries), that rule/validator order does not matter and that
exclusions suppress exactly the excluded validator for the excluded rule id.
"""
import itertools
import sys
from uuid import UUID

from sigma.backends.test import TextQueryTestBackend
from sigma.collection import SigmaCollection
from sigma.modifiers import (
    SigmaAllModifier,
    SigmaBase64Modifier,
    SigmaBase64OffsetModifier,
    SigmaContainsModifier,
    SigmaWideModifier,
    SigmaWindowsDashModifier,
)
from sigma.rule import SigmaDetection, SigmaDetectionItem
from sigma.types import SigmaString
from sigma.validation import SigmaValidator
from sigma.validators.core.condition import DanglingDetectionValidator
from sigma.validators.core.metadata import IdentifierUniquenessValidator
from sigma.validators.core.modifiers import (
    InvalidModifierCombinationsValidator,
    ModifierAppliedMultipleIssue,
)
from sigma.validators.core.values import DoubleWildcardValidator

DETECTIONS = {
    "clean": "sel:\n            field|contains|all:\n                - a\n                - b",
    "all_no_contains": "sel:\n            field|all:\n                - a\n                - b",
    "keyword_all": "sel:\n            '|all':\n                - a\n                - b",
    "b64off_no_contains": "sel:\n            field|base64offset: abc",
    "b64off_contains": "sel:\n            field|base64offset|contains: abc",
    "windash_all": "sel:\n            field|windash|contains|all:\n                - -a\n                - -b",
    "windash_all_no_contains": "sel:\n            field|windash|all:\n                - -a\n                - -b",
    "double_b64": "sel:\n            field|base64|base64: abc",
    "double_wide": "sel:\n            field|wide|wide|base64: abc",
    "everything": "sel:\n            field|wide|base64offset|all: ab\n        sel2:\n            - f1|all: x\n              f2|contains|contains: y**z\n            - '|base64offset|all':\n                - k1\n                - k2",
    "nested_and_unused": "sel:\n            - a|base64offset: v1\n            - b|windash|all: -v2\n        _unused:\n            c|contains|contains|contains: v3",
}


def rule_yaml(n, name, det, condition="1 of sel*", rid=None):
    return f"""
title: Rule {name}
id: {rid or UUID(int=n + 1)}
status: test
logsource:
    category: test
detection:
        {det}
        condition: {condition}
"""


def render(issue):
    parts = [type(issue).__name__, issue.severity.name]
    parts.append("rules=" + ",".join(str(r.id) for r in issue.rules))
    item = getattr(issue, "detection_item", None)
    if item is not None:
        parts.append("item=" + repr(item.to_plain()))
    if isinstance(issue, ModifierAppliedMultipleIssue):
        assert isinstance(issue.modifiers, set)
        parts.append("mods=" + ",".join(sorted(m.__name__ for m in issue.modifiers)))
    for attr in ("detection_name", "identifier", "string"):
        if hasattr(issue, attr):
            parts.append(f"{attr}={getattr(issue, attr)}")
    return " ".join(parts)


def issue_multiset(issues):
    return sorted(render(i) for i in issues)


def main():
    yamls = [rule_yaml(n, name, det) for n, (name, det) in enumerate(DETECTIONS.items())]
    # two rules sharing an id, one of them with modifier problems
    dup = "00000000-0000-0000-0000-0000000000aa"
    yamls.append(rule_yaml(100, "dup1", DETECTIONS["all_no_contains"], rid=dup))
    yamls.append(rule_yaml(101, "dup2", DETECTIONS["clean"], rid=dup))
    collection = SigmaCollection.from_yaml("---".join(yamls))
    rules = list(collection.rules)
    backend = TextQueryTestBackend()

    def snapshot():
        dicts = [r.to_dict() for r in rules]
        queries = []
        for r in rules:
            try:
                queries.append(backend.convert_rule(r))
            except Exception as e:  # conversion errors are part of the observation
                queries.append(f"{type(e).__name__}: {e}")
        return dicts, queries

    validator_classes = [
        InvalidModifierCombinationsValidator,
        DanglingDetectionValidator,
        IdentifierUniquenessValidator,
        DoubleWildcardValidator,
    ]

    before = snapshot()
    reference = issue_multiset(SigmaValidator(validator_classes).validate_rules(iter(rules)))
    print("== issues, all four validators ==")
    for line in reference:
        print(line)
    assert snapshot() == before, "validation changed a rule"
    print("rules unchanged by validation: True")
    print("== queries ==")
    for q in before[1]:
        print(q)

    # validation after conversion gives the same issues
    assert issue_multiset(SigmaValidator(validator_classes).validate_rules(iter(rules))) == reference
    print("same issues after conversion: True")

    # order independence (validators and rules)
    ok = True
    for vperm in itertools.permutations(validator_classes):
        for rperm in (rules, rules[::-1], rules[3:] + rules[:3], rules[1::2] + rules[::2]):
            got = issue_multiset(SigmaValidator(vperm).validate_rules(iter(rperm)))
            ok = ok and got == reference
    print("order independent:", ok)
    assert ok

    # only the modifier validator, per rule
    print("== per rule, modifier validator only ==")
    v = SigmaValidator([InvalidModifierCombinationsValidator])
    for r in rules:
        print(r.title, "->", [render(i) for i in v.validate_rule(r)])
    print("finalize ->", v.finalize())

    # issue order inside a single detection item is part of the behaviour as well
    mv = InvalidModifierCombinationsValidator()
    chains = [
        [],
        [SigmaAllModifier],
        [SigmaContainsModifier, SigmaAllModifier],
        [SigmaWindowsDashModifier, SigmaAllModifier],
        [SigmaBase64OffsetModifier, SigmaWindowsDashModifier, SigmaAllModifier, SigmaAllModifier],
        [SigmaWideModifier, SigmaContainsModifier, SigmaContainsModifier, SigmaWideModifier],
        [SigmaBase64Modifier, SigmaBase64Modifier, SigmaBase64Modifier],
        [SigmaBase64Modifier, SigmaWideModifier, SigmaBase64Modifier, SigmaWideModifier],
    ]
    print("== hand-built items (auto_modifiers off), issues in reported order ==")
    mv.validate(rules[0])
    for field in ("f", None):
        for chain in chains:
            item = SigmaDetectionItem(field, list(chain), [SigmaString("v")], auto_modifiers=False)
            issues = mv.validate_detection_item(item)
            assert all(i.rules == [rules[0]] and i.detection_item is item for i in issues)
            mods = [
                sorted(m.__name__ for m in i.modifiers)
                for i in issues
                if isinstance(i, ModifierAppliedMultipleIssue)
            ]
            print(field, [m.__name__ for m in chain], "->", [type(i).__name__ for i in issues], mods)
            assert item.modifiers == chain
    nested = SigmaDetection(
        [
            SigmaDetection(
                [SigmaDetectionItem("a", [SigmaAllModifier], [SigmaString("x")], auto_modifiers=False)]
            ),
            SigmaDetectionItem(None, [SigmaBase64OffsetModifier], [SigmaString("y")], auto_modifiers=False),
        ]
    )
    print("nested ->", [type(i).__name__ for i in mv.validate_detection("n", nested)])

    # exclusions
    print("== exclusions ==")
    excl = {
        rules[1].id: {InvalidModifierCombinationsValidator},
        rules[10].id: {DanglingDetectionValidator},
        UUID(dup): {InvalidModifierCombinationsValidator},
    }
    got = issue_multiset(SigmaValidator(validator_classes, excl).validate_rules(iter(rules)))
    removed = list(reference)
    for line in got:
        removed.remove(line)
    print("suppressed by exclusions:")
    for line in removed:
        print("  ", line)
    assert snapshot() == before
    print("rules unchanged at the end: True")
    return 0


if __name__ == "__main__":
    sys.exit(main())
