"""Demo for t1: regular expression flag rendering / escaping / compilation is independent of
hash seed and set insertion order. Run: PYTHONPATH=/tmp/wt5-C20 /venv/bin/python demo.py"""

import hashlib
import itertools
import os
import subprocess
import sys

CHILD = "--child" in sys.argv


def child() -> None:
    from sigma.backends.test import TextQueryTestBackend
    from sigma.collection import SigmaCollection
    from sigma.exceptions import SigmaError
    from sigma.types import (
        Placeholder,
        SigmaRegularExpression,
        SigmaRegularExpressionFlag as F,
        SigmaString,
    )

    # 1. escape() for every insertion order of every subset of flags
    patterns = [
        r"foo.*bar",
        r"a/b\\c/\d",
        r"",
        r"\\\\srv/share",
        r"barbar/bar\\bar",
        r"(?:x|y){2,3}[/\\]",
    ]
    variants = [
        dict(),
        dict(escaped=["/", "bar"]),
        dict(escaped=["/"], escape_char="#"),
        dict(escaped=["/"], escape_escape_char=False),
        dict(escaped=[], escape_escape_char=False),
        dict(escaped=("/", "\\"), escape_char="\\"),
        dict(escaped=["/"], flag_prefix=False),
        dict(escaped=["b", "ba", "bar"], escape_char="!"),
    ]
    for n in range(len(F) + 1):
        for flags in itertools.permutations(list(F), n):
            for pat in patterns:
                r = SigmaRegularExpression(pat)
                for f in flags:
                    r.add_flag(f)
                r.compile()
                for kw in variants:
                    print("escape", [f.name for f in flags], repr(pat), kw, "->", repr(r.escape(**kw)))
                print("repr", repr(r))
    # flags passed to the constructor as a set
    r = SigmaRegularExpression("x+", {F.DOTALL, F.IGNORECASE, F.MULTILINE})
    print("ctor", repr(r.escape()), repr(r))

    # 2. errors
    for pat, flags in [("(", set()), ("a{99999999999}", {F.DOTALL}), ("[", {F.MULTILINE, F.IGNORECASE})]:
        try:
            SigmaRegularExpression(pat, flags)
            print("compiled", repr(pat))
        except SigmaError as e:
            print("error", type(e).__name__, str(e))
    r = SigmaRegularExpression("ok", {F.IGNORECASE})
    r.flags.add("bogus")  # type: ignore
    for call in (r.compile, r.escape, lambda: r.escape(flag_prefix=False)):
        try:
            print("bogus flag ->", repr(call()))
        except Exception as e:
            print("bogus flag ->", type(e).__name__, repr(e.args))
    r = SigmaRegularExpression(SigmaString("a%ph%b").insert_placeholders(), {F.DOTALL})
    try:
        r.escape(["/"])
    except SigmaError as e:
        print("placeholder ->", type(e).__name__, str(e))
    try:
        SigmaRegularExpression("x").escape(["/"], None)  # type: ignore
    except Exception as e:
        print("escape_char None ->", type(e).__name__, str(e))

    # 3. conversion through a backend
    rules = SigmaCollection.from_yaml(
        r"""
title: regex flags
status: test
logsource:
    category: test
detection:
    sel1:
        fieldA|re|i|m|s: 'foo/bar.*\d'
        fieldB|re|s|i: 'a\\b'
    sel2:
        fieldC|re|m: '^x$'
        fieldD|re: 'plain/bar'
    condition: sel1 or sel2
"""
    )
    for q in TextQueryTestBackend().convert(rules):
        print("query", q)


def main() -> None:
    digests = {}
    first = None
    for seed in ["0", "1", "2", "17", "4242", "random"]:
        env = dict(os.environ, PYTHONHASHSEED=seed)
        out = subprocess.run(
            [sys.executable, os.path.abspath(__file__), "--child"],
            env=env,
            capture_output=True,
            text=True,
        )
        if out.returncode != 0:
            print(out.stdout, out.stderr)
            sys.exit(1)
        digests[seed] = hashlib.sha256(out.stdout.encode()).hexdigest()
        if first is None:
            first = out.stdout
    print(first, end="")
    for seed, d in digests.items():
        print("PYTHONHASHSEED", seed, "sha256", d)
    if len(set(digests.values())) != 1:
        print("OUTPUT DIFFERS BETWEEN HASH SEEDS")
        sys.exit(1)
    print("all hash seeds agree")


if __name__ == "__main__":
    child() if CHILD else main()
