"""Demo for C10: correlation queries built from templates (query template lookup, typing phase,
finalisation of correlation queries incl. embedded sub-correlations). Prints everything observed."""

import traceback

from sigma.backends.test import TextQueryTestBackend
from sigma.collection import SigmaCollection
from sigma.processing.pipeline import ProcessingItem, ProcessingPipeline
from sigma.processing.transformations import FieldMappingTransformation

BASE_RULES = """
title: Failed logon
name: failed_logon
id: 11111111-1111-1111-1111-111111111111
logsource:
    product: windows
    service: security
detection:
    selection:
        EventID: 4625
        fieldB: foo
    condition: selection
fields:
    - Computer
---
title: Successful logon
name: successful_logon
logsource:
    product: windows
    service: security
detection:
    sel1:
        EventID: 4624
    sel2:
        fieldB|contains: bar
    condition:
        - sel1
        - sel2
---
title: Discovery
name: discovery
id: 33333333-3333-3333-3333-333333333333
logsource:
    product: windows
    service: security
detection:
    selection:
        Image|endswith: '\\\\whoami.exe'
    condition: selection
"""


def corr(body: str) -> str:
    return BASE_RULES + "---\n" + body


CASES = {
    "event_count_single": corr("""
title: c1
correlation:
    type: event_count
    rules: [failed_logon]
    group-by: [TargetUserName, fieldB]
    timespan: 5m
    condition:
        gte: 10
"""),
    "event_count_nogroup_seconds_unit": corr("""
title: c2
correlation:
    type: event_count
    rules: [failed_logon]
    timespan: 90s
    condition:
        lt: 3
"""),
    "value_count_multi_query_rule": corr("""
title: c3
correlation:
    type: value_count
    rules: [successful_logon]
    group-by: [fieldB]
    timespan: 2h
    condition:
        field: fieldB
        gt: 4
"""),
    "temporal_three_rules_aliases": corr("""
title: c4
correlation:
    type: temporal
    rules:
        - failed_logon
        - successful_logon
        - 33333333-3333-3333-3333-333333333333
    timespan: 1d
    group-by: [user]
    aliases:
        user:
            failed_logon: TargetUserName
            successful_logon: fieldB
            33333333-3333-3333-3333-333333333333: User
"""),
    "temporal_ordered": corr("""
title: c5
correlation:
    type: temporal_ordered
    rules: [failed_logon, successful_logon]
    timespan: 15m
    group-by: [fieldB]
"""),
    "value_sum": corr("""
title: c6
correlation:
    type: value_sum
    rules: [failed_logon]
    timespan: 1w
    condition:
        field: fieldB
        lte: 100
"""),
    "value_avg": corr("""
title: c7
correlation:
    type: value_avg
    rules: [failed_logon, successful_logon]
    timespan: 1M
    group-by: [a, b, c]
    condition:
        field: bytes
        eq: 7
"""),
    "value_percentile": corr("""
title: c8
correlation:
    type: value_percentile
    rules: [failed_logon]
    timespan: 3m
    condition:
        field: fieldB
        percentile: 95
        gte: 5
"""),
    "value_percentile_missing": corr("""
title: c8b
correlation:
    type: value_percentile
    rules: [failed_logon]
    timespan: 3m
    condition:
        field: fieldB
        gte: 5
"""),
    "value_median": corr("""
title: c9
correlation:
    type: value_median
    rules: [failed_logon]
    timespan: 1y
    condition:
        field: fieldB
        neq: 5
"""),
    "extended_temporal": corr("""
title: c10
correlation:
    type: temporal
    condition: failed_logon and not (successful_logon or discovery)
    timespan: 5m
    group-by: [fieldB]
"""),
    "extended_temporal_ordered": corr("""
title: c11
correlation:
    type: temporal_ordered
    condition: (failed_logon or successful_logon) and failed_logon
    timespan: 10s
"""),
    "chained_generate": corr("""
title: inner
name: many_failed
correlation:
    type: event_count
    rules: [failed_logon]
    generate: true
    group-by: [fieldB]
    timespan: 10m
    condition:
        gte: 10
---
title: outer
correlation:
    type: temporal_ordered
    rules: [many_failed, successful_logon]
    generate: true
    group-by: [fieldB]
    timespan: 1h
"""),
    "chained_no_generate": corr("""
title: inner
name: many_failed
correlation:
    type: event_count
    rules: [failed_logon]
    group-by: [fieldB]
    timespan: 10m
    condition:
        gte: 10
---
title: middle
name: middle
correlation:
    type: temporal
    rules: [many_failed, successful_logon]
    group-by: [fieldB]
    timespan: 1h
---
title: outer
correlation:
    type: value_count
    rules: [middle]
    timespan: 2d
    condition:
        field: fieldB
        gt: 1
"""),
}


def pipeline() -> ProcessingPipeline:
    return ProcessingPipeline(
        [ProcessingItem(FieldMappingTransformation({"fieldB": "mappedB", "user": "usr"}))]
    )


class TypingBackend(TextQueryTestBackend):
    temporal_correlation_query = {"test": "{search}\n{typing}\n{aggregate}\n{condition}"}
    default_correlation_query = {
        "test": "S[{search}] T[{typing}] W[{timespan}] A[{aggregate}] C[{condition}] G[{groupby}]"
    }
    typing_expression = "| eval event_type=case({queries})"
    typing_rule_query_expression = '{query}, "{ruleid}"'
    typing_rule_query_expression_joiner = ", "


class HalfTypingBackend(TextQueryTestBackend):
    default_correlation_query = {"test": "{search} {typing} {aggregate} {condition}"}
    typing_expression = "| type({queries})"
    typing_rule_query_expression = None
    typing_rule_query_expression_joiner = ", "


class HalfTypingBackend2(HalfTypingBackend):
    typing_rule_query_expression = "{query}"
    typing_rule_query_expression_joiner = None


class SecondsBackend(TextQueryTestBackend):
    timespan_seconds = True
    finalize_correlation_subqueries = True


class NoMappingBackend(TextQueryTestBackend):
    timespan_mapping = None


class NoDefaultBackend(TextQueryTestBackend):
    default_correlation_query = None


class EmptyOwnTemplateBackend(TextQueryTestBackend):
    # empty own template falls back to the default one
    temporal_correlation_query = {}
    default_correlation_query = {"test": "DEFAULT {search} / {aggregate} / {condition}"}


class OtherMethodBackend(TextQueryTestBackend):
    correlation_methods = {"test": "Test", "other": "Other"}
    temporal_correlation_query = {"test": "{search}"}


class PostprocessBackend(TypingBackend):
    def convert_correlation_typing_query_postprocess(self, query):
        return "<" + query + ">"

    def convert_correlation_search_multi_rule_query_postprocess(self, query):
        return "{" + query + "}"

    def finalize_query(self, rule, query, index, state, output_format):
        res = super().finalize_query(rule, query, index, state, output_format)
        print(f"      finalize_query({rule.title!r}, index={index}, format={output_format!r})")
        return res


BACKENDS = {
    "plain": lambda: TextQueryTestBackend(),
    "mapped": lambda: TextQueryTestBackend(pipeline()),
    "typing": lambda: TypingBackend(pipeline()),
    "half_typing": lambda: HalfTypingBackend(),
    "half_typing2": lambda: HalfTypingBackend2(),
    "half_typing_collect": lambda: HalfTypingBackend(collect_errors=True),
    "seconds_finalize_sub": lambda: SecondsBackend(pipeline()),
    "no_mapping": lambda: NoMappingBackend(),
    "no_default": lambda: NoDefaultBackend(),
    "no_default_collect": lambda: NoDefaultBackend(collect_errors=True),
    "empty_own": lambda: EmptyOwnTemplateBackend(),
    "postprocess": lambda: PostprocessBackend(pipeline()),
}


def show(label, fn):
    try:
        res = fn()
        print(f"  {label}: OK")
        if isinstance(res, list):
            for i, q in enumerate(res):
                print(f"    [{i}] {q!r}")
        else:
            print(f"    {res!r}")
    except Exception as e:  # noqa: BLE001
        print(f"  {label}: {type(e).__module__}.{type(e).__name__}: {e}")


def main() -> None:
    for bname, mk in BACKENDS.items():
        for cname, yaml in CASES.items():
            print(f"== backend={bname} case={cname}")
            backend = mk()
            coll = SigmaCollection.from_yaml(yaml)
            show("convert", lambda: backend.convert(coll))
            if backend.collect_errors:
                for rule, err in backend.errors:
                    print(f"    error for {rule.title!r}: {type(err).__name__}: {err}")
            # conversion results and states kept on the correlation rules
            for rule in coll.rules:
                if hasattr(rule, "type"):
                    try:
                        print(f"    result[{rule.title}] = {rule.get_conversion_result()!r}")
                        print(f"    nstates[{rule.title}] = {len(rule.get_conversion_states())}")
                    except Exception as e:  # noqa: BLE001
                        print(f"    result[{rule.title}]: {type(e).__name__}: {e}")

    print("== output formats")
    for fmt in (None, "default", "test", "state", "list_of_dict", "str"):
        backend = TextQueryTestBackend(pipeline())
        coll = SigmaCollection.from_yaml(CASES["chained_generate"])
        show(f"format={fmt}", lambda: backend.convert(coll, fmt))

    print("== correlation method selection")
    for method in (None, "test", "other", "missing"):
        backend = OtherMethodBackend()
        coll = SigmaCollection.from_yaml(CASES["temporal_ordered"])
        show(f"method={method}", lambda: backend.convert(coll, correlation_method=method))
        backend = OtherMethodBackend(collect_errors=True)
        coll = SigmaCollection.from_yaml(CASES["temporal_three_rules_aliases"])
        show(f"method={method} collect", lambda: backend.convert(coll, correlation_method=method))
        for rule, err in backend.errors:
            print(f"    error for {rule.title!r}: {type(err).__name__}: {err}")

    print("== callback")
    for drop in (False, True):
        backend = TextQueryTestBackend(pipeline())
        coll = SigmaCollection.from_yaml(CASES["chained_generate"])
        seen = []

        def cb(rule, output_format, index, query, result, drop=drop, seen=seen):
            seen.append((rule.title, output_format, index, query, result))
            if drop and rule.title == "inner":
                return None
            return f"<<{result}>>"

        show(f"callback drop={drop}", lambda: backend.convert(coll, callback=cb))
        for item in seen:
            print(f"    seen {item!r}")
        for rule in coll.rules:
            if hasattr(rule, "type"):
                print(f"    result[{rule.title}] = {rule.get_conversion_result()!r}")

    print("== direct calls")
    backend = TypingBackend(pipeline())
    coll = SigmaCollection.from_yaml(CASES["temporal_three_rules_aliases"])
    backend.convert(coll)
    crule = coll.rules[-1]
    show("typing", lambda: backend.convert_correlation_typing(crule))
    show("from_template temporal", lambda: backend.convert_correlation_rule_from_template(crule, "temporal", "test"))
    show("from_template event_count", lambda: backend.convert_correlation_rule_from_template(crule, "event_count", "test"))
    show("from_template bad method", lambda: backend.convert_correlation_rule_from_template(crule, "temporal", "nope"))
    show("from_template bad type", lambda: backend.convert_correlation_rule_from_template(crule, "bogus", "test"))
    backend.typing_expression = None
    show("typing off", lambda: backend.convert_correlation_typing(crule))


if __name__ == "__main__":
    try:
        main()
    except Exception:
        traceback.print_exc()
        raise SystemExit(1)
