"""Demo for t3: TextQueryBackend.escape_and_quote_field / decide_string_quoting / convert_value_str.

Renders a handful of (unusual) field names and string values with several backend configurations,
converts a complete rule, and prints a digest over an exhaustive sweep (all names/values up to
length 4 over a nasty alphabet x all configurations).
"""
import hashlib
import itertools
import re

from sigma.backends.test import TextQueryTestBackend
from sigma.collection import SigmaCollection
from sigma.conversion.base import TextQueryBackend
from sigma.conversion.state import ConversionState
from sigma.exceptions import SigmaError
from sigma.types import SigmaCasedString, SigmaString


class Base(TextQueryBackend):
    """Minimal text backend (enough tokens to convert a simple rule)."""

    precedence = ()
    group_expression = "({expr})"
    token_separator = " "
    or_token = "OR"
    and_token = "AND"
    not_token = "NOT"
    eq_token = "="
    str_quote = '"'
    escape_char = "\\"
    wildcard_multi = "*"
    wildcard_single = "?"
    add_escaped = "\\"
    filter_chars = ""
    field_quote = None
    field_escape = None


def backend(name, **attrs):
    return type(name, (Base,), attrs)()


FIELD_BACKENDS = [
    backend("NoQuoteNoEscape"),
    backend("QuoteAlways", field_quote="'"),
    backend("QuoteUnlessWord", field_quote="'", field_quote_pattern=re.compile(r"^\w+$")),
    backend(
        "QuoteIfSpace",
        field_quote="`",
        field_quote_pattern=re.compile(r".*\s"),
        field_quote_pattern_negation=False,
    ),
    backend("EscapeOnlyPattern", field_escape="\\", field_escape_pattern=re.compile(r"\s")),
    backend("EscapeNoPatternNoQuote", field_escape="\\"),
    backend("EscapeQuoteChar", field_quote="'", field_escape="\\"),
    backend(
        "EscapeQuoteCharDisabled",
        field_quote="'",
        field_escape="\\",
        field_escape_quote=False,
        field_escape_pattern=re.compile(r"[\s.]"),
    ),
    backend(
        "EscapeBothOverlapping",
        field_quote="'",
        field_escape="\\",
        field_escape_pattern=re.compile(r"['\s\\]"),
        field_quote_pattern=re.compile(r"^[\w.]+$"),
    ),
    backend(
        "MultiCharTokens",
        field_quote="''",
        field_escape="<esc>",
        field_escape_pattern=re.compile(r"a+|$"),
        field_quote_pattern=re.compile(r"<esc>"),
        field_quote_pattern_negation=False,
    ),
    backend("EmptyQuote", field_quote="", field_escape="\\"),
    backend("NegationTruthyInt", field_quote='"', field_quote_pattern=re.compile("a"), field_quote_pattern_negation=1),
]

FIELD_NAMES = [
    "",
    "field",
    "field name",
    "field.name",
    "it's",
    "''",
    "'''a'",
    " leading",
    "trailing ",
    "a\\b",
    "tab\there",
    "aaa bab",
    "ünï cödé",
    "*?",
]

VALUE_BACKENDS = [
    backend("QuoteAlways"),
    backend("NoQuote", str_quote="", add_escaped=""),
    backend("QuoteUnlessWord", str_quote="'", str_quote_pattern=re.compile(r"^\w+$")),
    backend(
        "QuoteIfSpecial",
        str_quote='"',
        str_quote_pattern=re.compile(r".*[\s*?\\]"),
        str_quote_pattern_negation=False,
        filter_chars=";",
    ),
    backend("NegationTruthyStr", str_quote_pattern=re.compile("a"), str_quote_pattern_negation="yes"),
    backend("NoEscapeChar", escape_char=None, add_escaped=""),
    backend("NoWildcards", wildcard_multi=None, wildcard_single=None),
    backend("SqlLike", str_quote="'", escape_char="\\", wildcard_multi="%", wildcard_single="_", add_escaped="\\"),
]

VALUES = [
    "",
    "word",
    "two words",
    "a*b?c",
    "\\*",
    "\\\\*",
    "a\\b",
    "a\\",
    'qu"ote\'s',
    "semi;colon",
    "50%_off",
    "ünï*cödé?",
    "aaa",
]

RULE_BACKENDS = [
    TextQueryTestBackend(),
    type(
        "RuleEscapeFields",
        (TextQueryTestBackend,),
        dict(field_escape="\\", field_escape_pattern=re.compile(r"[\s.]"), field_quote_pattern_negation=True),
    )(),
    type(
        "RuleQuoteIfNeeded",
        (TextQueryTestBackend,),
        dict(
            field_quote="`",
            field_quote_pattern=re.compile(r".*\W"),
            field_quote_pattern_negation=False,
            str_quote="'",
            str_quote_pattern=re.compile(r"^\w+$"),
            add_escaped="\\",
            filter_chars="",
        ),
    )(),
    type(
        "RuleNoQuotes",
        (TextQueryTestBackend,),
        dict(field_quote=None, field_escape="\\", field_escape_pattern=re.compile(r"\W"), str_quote="", add_escaped=' "'),
    )(),
]

RULE = """
title: Demo
status: test
logsource:
    category: test
detection:
    sel:
        "field name": 'va"lue*'
        it's|contains: 'a\\*b'
        Plain|endswith: '\\'
    filter:
        field.name|re: 'a.*"b'
    condition: sel and not filter
"""


def show(func):
    try:
        return repr(func())
    except (SigmaError, TypeError) as e:
        return f"{type(e).__name__}: {e}"


def name_of(b):
    return type(b).__name__


def main():
    state = ConversionState()
    print("== field names ==")
    for b in FIELD_BACKENDS:
        for f in FIELD_NAMES:
            print(f"{name_of(b)} {f!r}: {show(lambda: b.escape_and_quote_field(f))}")
        print(f"{name_of(b)} fieldref: {show(lambda: b.escape_and_quote_fieldref(['a b', chr(39)]))} {show(lambda: b.escape_and_quote_fieldref(None))}")
    print("== string values ==")
    for b in VALUE_BACKENDS:
        for v in VALUES:
            for cls in (SigmaString, SigmaCasedString):
                s = cls(v)
                print(
                    f"{name_of(b)} {cls.__name__} {v!r}: quote={show(lambda: b.decide_string_quoting(s))} "
                    f"value={show(lambda: b.convert_value_str(s, state))}"
                )
        ph = SigmaString("a %p%").insert_placeholders()
        print(f"{name_of(b)} placeholder: quote={show(lambda: b.decide_string_quoting(ph))} value={show(lambda: b.convert_value_str(ph, state))}")
    print("== non-string field name ==")
    for b in FIELD_BACKENDS:
        print(f"{name_of(b)} None: {show(lambda: b.escape_and_quote_field(None))}")
    print("== whole rule ==")
    for b in RULE_BACKENDS:
        print(f"{name_of(b)}: {show(lambda: b.convert(SigmaCollection.from_yaml(RULE)))}")

    print("== exhaustive sweep ==")
    alphabet = ["\\", "'", '"', " ", "a", ".", "*", "?"]
    h = hashlib.sha256()
    n = 0
    for length in range(0, 5):
        for chars in itertools.product(alphabet, repeat=length):
            text = "".join(chars)
            for b in FIELD_BACKENDS:
                h.update(show(lambda: b.escape_and_quote_field(text)).encode() + b"\0")
                n += 1
            s = SigmaString(text)
            for b in VALUE_BACKENDS:
                h.update(show(lambda: (b.decide_string_quoting(s), b.convert_value_str(s, state))).encode() + b"\0")
                n += 1
    print(f"{n} renderings, sha256 {h.hexdigest()}")


if __name__ == "__main__":
    main()
