"""Demo for C19/t8: log source validators (specific-instead-of-generic, field names in log source)
observed through SigmaValidator.validate_rules(), together with rule dict form and converted queries
before/after validation, in several rule and validator orders and with exclusions."""
import itertools
from uuid import UUID

import sigma.types
from sigma.backends.test import TextQueryTestBackend
from sigma.collection import SigmaCollection
from sigma.correlations import SigmaCorrelationRule
from sigma.rule import SigmaDetectionItem, SigmaLogSource
from sigma.types import SigmaNumber, SigmaString
from sigma.validation import SigmaValidator
from sigma.validators.core import validators
from sigma.validators.core.logsources import (
    FieldnameLogsourceValidator,
    SpecificInsteadOfGenericLogsourceValidator,
)

print("module:", "wt9-C19" in sigma.types.__file__)


def rule(n, logsource, detection, condition="sel", extra=""):
    return f"""
title: Rule {n}
id: 00000000-0000-0000-0000-0000000000{n:02d}
status: test
logsource:
{logsource}
detection:
{detection}
    condition: {condition}
{extra}
"""


RULES = [
    rule(1, "    product: windows\n    service: sysmon",
         "    sel:\n        EventID: 1\n        Image|endswith: '\\\\cmd.exe'"),
    rule(2, "    product: windows\n    service: sysmon",
         "    sel:\n        EventID:\n            - 1\n            - 3\n            - 4\n            - 99\n            - 255\n            - '11'\n            - 12.0\n            - 13.5"),
    rule(3, "    product: windows\n    service: security",
         "    sel:\n        EventID: 4688\n    _other:\n        EventID: 1",
         condition="sel or _other"),
    rule(4, "    product: windows\n    service: security\n    category: something",
         "    sel:\n        EventID: 4688"),
    rule(5, "    product: windows\n    service: sysmon\n    definition: need sysmon",
         "    sel:\n        - EventID: 22\n          QueryName: foo\n        - EventID: 23\n    keywords:\n        - EventID\n        - 7",
         condition="sel or keywords"),
    rule(6, "    product: linux\n    service: sysmon",
         "    sel:\n        EventID: 1"),
    rule(7, "    category: process_creation\n    product: windows",
         "    sel:\n        EventID: 4688\n        eventid: 1"),
    rule(8, "    product: windows\n    service: sysmon\n    custom: value\n    another_one: 5",
         "    sel:\n        EventID|gte: 10\n        EventID|contains: '1'\n    all_of:\n        EventID|all:\n            - 8\n            - 9\n    1_of_x:\n        EventId: 10",
         condition="sel and all_of and 1_of_x"),
    rule(9, "    service: sysmon\n    weird key: x",
         "    sel:\n        EventID: 6\n    filter:\n        EventID: 7",
         condition="sel and not filter"),
    rule(10, "    product: windows\n    service: sysmon",
         "    sel:\n        EventID:\n            - 12\n            - 12\n            - null\n            - ''\n            - 18446744073709551616\n            - -1\n            - 0",),
]

CORRELATION = """
title: Correlation
id: 00000000-0000-0000-0000-0000000000aa
correlation:
    type: event_count
    rules:
        - 00000000-0000-0000-0000-000000000001
    group-by:
        - User
    timespan: 5m
    condition:
        gte: 10
"""


def collection(order, with_correlation=True):
    docs = [RULES[i] for i in order]
    if with_correlation:
        docs = docs + [CORRELATION]
    return SigmaCollection.from_yaml("---".join(docs))


def issue_repr(issue):
    return (
        type(issue).__name__,
        tuple(str(r.id) for r in issue.rules),
        tuple(
            (k, repr(v))
            for k, v in sorted(vars(issue).items())
            if k != "rules"
        ),
    )


def snapshot(coll):
    backend = TextQueryTestBackend()
    out = []
    for r in coll.rules:
        d = r.to_dict()
        if isinstance(r, SigmaCorrelationRule):
            out.append((repr(d), None))
            continue
        try:
            q = backend.convert_rule(r)
        except Exception as e:  # noqa
            q = type(e).__name__ + ": " + str(e)
        out.append((repr(d), repr(q)))
    return out


def run(validator_classes, order, exclusions=None, label=""):
    coll = collection(order)
    before = snapshot(coll)
    v = SigmaValidator(validator_classes, exclusions or {})
    issues = [issue_repr(i) for i in v.validate_rules(coll)]
    after = snapshot(coll)
    print(f"--- {label} order={order} unchanged={before == after} issues={len(issues)}")
    for i in issues:
        print("   ", i)
    return sorted(issues)


base_order = list(range(len(RULES)))
ls_validators = [SpecificInsteadOfGenericLogsourceValidator, FieldnameLogsourceValidator]

ref = run(ls_validators, base_order, label="logsource validators")
for order in (list(reversed(base_order)), [4, 1, 8, 0, 9, 2, 6, 3, 7, 5], [7, 7, 0, 0, 1, 2]):
    got = run(list(reversed(ls_validators)), order, label="permuted")
    if sorted(set(order)) == base_order:
        print("    same multiset as reference:", got == ref)

# Exclusions: suppress exactly one validator for one rule id
excl = {
    UUID("00000000-0000-0000-0000-000000000002"): {SpecificInsteadOfGenericLogsourceValidator},
    UUID("00000000-0000-0000-0000-000000000008"): {FieldnameLogsourceValidator},
    UUID("00000000-0000-0000-0000-000000000003"): {FieldnameLogsourceValidator},
}
run(ls_validators, base_order, exclusions=excl, label="with exclusions")

# All built-in validators (no network: skip the ones that need MITRE data download if they fail)
all_classes = [c for n, c in sorted(validators.items())]
try:
    allref = run(all_classes, base_order, label="all validators")
    allperm = run(list(reversed(all_classes)), list(reversed(base_order)), label="all validators permuted")
    print("all validators: multiset equal:", allref == allperm)
except Exception as e:  # noqa
    print("all validators failed:", type(e).__name__, e)

# Direct calls: instance state of the specific log source validator
print("--- direct calls")
val = SpecificInsteadOfGenericLogsourceValidator()
coll = collection(base_order)
for r in coll.rules:
    res = val.validate(r)
    state = (
        repr(getattr(val, "logsource", "<unset>")),
        sorted(getattr(val, "eventid_mappings", {}).items())[:3],
        type(getattr(val, "disallowed_logsource_event_ids", None)).__name__,
        len(getattr(val, "disallowed_logsource_event_ids", ())),
        str(getattr(getattr(val, "rule", None), "id", "<unset>")),
    )
    print("   ", str(r.id), len(res), state)
    print("      keys view is mapping keys:",
          getattr(val, "disallowed_logsource_event_ids", None) is not None
          and set(val.disallowed_logsource_event_ids) == set(getattr(val, "eventid_mappings", {})))

# validate_detection_item directly, incl. before any validate() call (no state yet)
fresh = SpecificInsteadOfGenericLogsourceValidator()
items = [
    SigmaDetectionItem("EventID", [], [SigmaNumber(1)]),
    SigmaDetectionItem("Other", [], [SigmaNumber(1)]),
    SigmaDetectionItem("EventID", [], [SigmaString("1")]),
    SigmaDetectionItem(None, [], [SigmaNumber(1)]),
    SigmaDetectionItem("EventID", [], []),
]
for it in items:
    try:
        print("    fresh:", it.field, [issue_repr(i) for i in fresh.validate_detection_item(it)])
    except Exception as e:  # noqa
        print("    fresh:", it.field, type(e).__name__, e)
for it in items + [SigmaDetectionItem("EventID", [], [SigmaNumber(4688.0), SigmaNumber(1.5), SigmaNumber(255)])]:
    try:
        print("    after validate:", it.field, [issue_repr(i) for i in val.validate_detection_item(it)])
    except Exception as e:  # noqa
        print("    after validate:", it.field, type(e).__name__, e)

# Non log source argument for containment check -> same exception
class FakeRule:
    logsource = "windows"
    tags = []
try:
    SpecificInsteadOfGenericLogsourceValidator().validate(FakeRule())
except Exception as e:  # noqa
    print("    fake rule:", type(e).__name__, e)
try:
    print("    fake rule fieldname:", FieldnameLogsourceValidator().validate(FakeRule()))
except Exception as e:  # noqa
    print("    fake rule fieldname:", type(e).__name__, e)

# Field name validator directly
fv = FieldnameLogsourceValidator()
for r in coll.rules:
    print("    fieldname:", str(r.id), [issue_repr(i) for i in fv.validate(r)], vars(fv))
