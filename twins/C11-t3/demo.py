"""Exercises filter application (property C11) and prints everything observable.

Run as: PYTHONPATH=/tmp/wt5-C11 /venv/bin/python demo.py
The random generator is seeded before each case, so the drawn prefixes (and therefore the
printed detection names and conditions) are reproducible.
"""

import random
import sys
import traceback

from sigma.backends.test import TextQueryTestBackend
from sigma.collection import SigmaCollection
from sigma.conditions import ConditionSelector
from sigma.correlations import SigmaRuleReference
from sigma.filters import SigmaFilter, SigmaGlobalFilter
from sigma.rule import SigmaDetection, SigmaDetections, SigmaLogSource, SigmaRule
from sigma.rule.logsource import EmptyLogSource

RULE_ID = "6f3e2987-db24-4c78-a860-b4f4095a7095"


def rule_yaml(
    detections,
    condition,
    logsource=("process_creation", "windows", None),
    name="r1",
    rid=RULE_ID,
    title="Rule",
):
    cat, prod, serv = logsource
    ls = ""
    if cat:
        ls += f"    category: {cat}\n"
    if prod:
        ls += f"    product: {prod}\n"
    if serv:
        ls += f"    service: {serv}\n"
    det = ""
    for dname, (fld, val) in detections.items():
        det += f"    \"{dname}\":\n        {fld}: {val}\n"
    if isinstance(condition, list):
        cond = "    condition:\n" + "".join(f"        - {c}\n" for c in condition)
    else:
        cond = f"    condition: {condition}\n"
    head = f"title: {title}\n"
    if rid:
        head += f"id: {rid}\n"
    if name:
        head += f"name: {name}\n"
    return f"{head}logsource:\n{ls}detection:\n{det}{cond}"


def filter_yaml(
    detections,
    condition,
    rules="any",
    logsource=("process_creation", "windows", None),
    title="Filter",
):
    cat, prod, serv = logsource
    ls = ""
    if cat:
        ls += f"    category: {cat}\n"
    if prod:
        ls += f"    product: {prod}\n"
    if serv:
        ls += f"    service: {serv}\n"
    det = ""
    for dname, (fld, val) in detections.items():
        det += f"    \"{dname}\":\n        {fld}: {val}\n"
    if isinstance(rules, list):
        if rules:
            r = "    rules:\n" + "".join(f"        - {x}\n" for x in rules)
        else:
            r = "    rules: []\n"
    else:
        r = f"    rules: {rules}\n"
    return f"title: {title}\nlogsource:\n{ls}filter:\n{r}{det}    condition: {condition}\n"


def show(label, docs, seed=1234):
    """Convert the documents with and without the filters and print what is observable."""
    print(f"=== {label} (seed {seed})")
    random.seed(seed)
    try:
        coll = SigmaCollection.from_yaml("\n---\n".join(docs))
        for rule in coll.rules:
            if isinstance(rule, SigmaRule):
                print("  rule", rule.title)
                print("    detections:", list(rule.detection.detections.keys()))
                print("    condition :", rule.detection.condition)
        queries = TextQueryTestBackend().convert(coll)
        for q in queries:
            print("  query:", q)
    except Exception as e:  # same class and message expected with and without the patch
        print(f"  EXC {type(e).__name__}: {e}")
    print("  random state after:", random.random())


def main():
    sel = {"selection": ("EventID", 4625)}
    fsel = {"selection": ("User", "adm")}

    # --- 1. plain cases, rule lists in all forms
    show("any", [rule_yaml(sel, "selection"), filter_yaml(fsel, "not selection")])
    show("ANY upper", [rule_yaml(sel, "selection"), filter_yaml(fsel, "not selection", "ANY")])
    show("empty list", [rule_yaml(sel, "selection"), filter_yaml(fsel, "not selection", [])])
    show("by id", [rule_yaml(sel, "selection"), filter_yaml(fsel, "not selection", [RULE_ID])])
    show("by name", [rule_yaml(sel, "selection"), filter_yaml(fsel, "not selection", ["r1"])])
    show("by name single", [rule_yaml(sel, "selection"), filter_yaml(fsel, "not selection", "r1")])
    show(
        "other id + name",
        [
            rule_yaml(sel, "selection"),
            filter_yaml(
                fsel, "not selection", ["00000000-0000-0000-0000-000000000000", "nope", "r1"]
            ),
        ],
    )
    show(
        "no match",
        [
            rule_yaml(sel, "selection"),
            filter_yaml(fsel, "not selection", ["00000000-0000-0000-0000-000000000000", "nope"]),
        ],
    )
    show(
        "rule without id and name",
        [
            rule_yaml(sel, "selection", name=None, rid=None),
            filter_yaml(fsel, "not selection", ["r1"]),
        ],
    )

    # --- 2. log sources in all subset relations
    sources = [
        ("process_creation", "windows", None),
        ("process_creation", None, None),
        (None, "windows", None),
        (None, "windows", "security"),
        ("process_creation", "windows", "security"),
        ("network", "windows", None),
        (None, None, "security"),
    ]
    for rs in sources:
        for fs in sources:
            show(
                f"logsource rule={rs} filter={fs}",
                [
                    rule_yaml(sel, "selection", logsource=rs),
                    filter_yaml(fsel, "not selection", logsource=fs),
                ],
            )

    # --- 3. conditions with selectors, them, patterns, colliding names
    rdet = {
        "selection": ("EventID", 1),
        "selection_a": ("Image", "a.exe"),
        "filter_x": ("User", "x"),
        "_hidden": ("Hidden", "h"),
    }
    fdet = {
        "selection": ("FUser", "adm"),
        "selection_b": ("FImage", "b.exe"),
        "filter_x": ("FHost", "h1"),
        "other_allow": ("FHost", "h2"),
    }
    rule_conditions = [
        "selection",
        "1 of them",
        "all of them",
        "1 of selection*",
        "all of selection_*",
        "selection and not 1 of filter_*",
        "1 of _*",
        "any of *",
        ["selection", "1 of selection_*"],
    ]
    filter_conditions = [
        "not selection",
        "not 1 of them",
        "all of them",
        "not 1 of selection*",
        "1 of *_allow or selection",
        "not (selection and filter_x) or all of selection_*",
        "any of *",
        "not  1  of  them",
        "not(selection)",
        "selection and(1 of filter_*)",
    ]
    for rc in rule_conditions:
        for fc in filter_conditions:
            show(f"rule cond {rc!r} / filter cond {fc!r}", [rule_yaml(rdet, rc), filter_yaml(fdet, fc)])

    # --- 4. unusual names: keywords, digits, underscore, dashes
    odd = {
        "them": ("A", 1),
        "of": ("B", 2),
        "all": ("C", 3),
        "any": ("D", 4),
        "1": ("E", 5),
        "1st": ("F", 6),
        "_under": ("G", 7),
        "not_this": ("H", 8),
        "and-or": ("I", 9),
        "android": ("J", 10),
        "1_of": ("K", 11),
    }
    odd_conditions = [
        "them",
        "of",
        "not of",
        "all",
        "any and all",
        "1st",
        "_under",
        "not_this",
        "and-or",
        "android or not_this",
        "1_of",
        "1 of them",
        "all of of",
        "1 of 1*",
        "any of all",
        "1 of of*",
        "all of them and them",
        "1 of _*",
        "1 of (them)",
        "1 of\tthem",
        "them of them",
        "not 1",
        "1",
        "1 of",
        "undefined",
        "1 of zz*",
        "selection and",
        "",
    ]
    for fc in odd_conditions:
        show(
            f"odd filter cond {fc!r}",
            [rule_yaml(sel, "selection"), filter_yaml(odd, '"' + fc + '"')],
        )
    for rc in ["them", "of", "1st", "_under", "1 of them", "all of them", "1 of _*", "1_of"]:
        show(
            f"odd rule cond {rc!r}",
            [rule_yaml(odd, '"' + rc + '"'), filter_yaml(odd, "not 1 of them")],
        )

    # --- 5. stacked filters, several rules, correlation rule in the collection
    corr = (
        "title: Corr\nname: corr\ncorrelation:\n    type: event_count\n    rules:\n        - r1\n"
        "    group-by: User\n    timespan: 5m\n    condition:\n        gte: 3\n"
    )
    show(
        "stacked filters + correlation + other rules",
        [
            rule_yaml(rdet, "selection and not 1 of filter_*"),
            rule_yaml(
                sel,
                "selection",
                logsource=("network", "windows", None),
                name="r2",
                rid="11111111-1111-1111-1111-111111111111",
                title="Rule2",
            ),
            rule_yaml(
                sel,
                "1 of them",
                logsource=("process_creation", "windows", "sysmon"),
                name="r3",
                rid="22222222-2222-2222-2222-222222222222",
                title="Rule3",
            ),
            corr,
            filter_yaml(fdet, "not 1 of selection*", title="F1"),
            filter_yaml(fdet, "not 1 of them", ["r3", "r2"], logsource=(None, "windows", None), title="F2"),
            filter_yaml(odd, "not them", ["r1"], logsource=("process_creation", None, None), title="F3"),
        ],
    )
    for seed in (0, 1, 2, 99, 31337):
        show(
            "stacked twice same filter",
            [
                rule_yaml(rdet, "1 of them"),
                filter_yaml(fdet, "not 1 of them", title="F1"),
                filter_yaml(fdet, "not 1 of them", title="F2"),
            ],
            seed=seed,
        )

    # --- 6. prefix collision: the rule already carries the prefix that is drawn first
    random.seed(77)
    first_prefix = "_filt_" + "".join(random.choices("abcdefghijklmnopqrstuvwxyz", k=10))
    colliding = dict(sel)
    colliding[first_prefix + "_selection"] = ("Old", "x")
    show(
        "prefix collision (redraw)",
        [
            rule_yaml(colliding, "selection"),
            filter_yaml(fsel, "not 1 of them"),
        ],
        seed=77,
    )

    # --- 7. direct API use: objects built by hand, collect_filters, correlation rule, errors
    print("=== direct API")
    random.seed(5)
    rule = SigmaRule.from_yaml(rule_yaml(rdet, "1 of selection*"))
    flt = SigmaFilter.from_yaml(filter_yaml(fdet, "not 1 of them", ["r1", "zzz"]))
    print("  should apply:", flt._should_apply_on_rule(rule))
    res = flt.apply_on_rule(rule)
    print("  same object:", res is rule)
    print("  detections:", list(rule.detection.detections))
    print("  condition :", rule.detection.condition)
    print("  parsed    :", [repr(c.parsed) for c in rule.detection.parsed_condition][0][:300])
    print("  filter untouched:", list(flt.filter.detections), flt.filter.condition)
    print("  query:", TextQueryTestBackend().convert_rule(rule))

    flt_empty_list = SigmaFilter(
        title="hand made",
        logsource=SigmaLogSource(product="windows"),
        filter=SigmaGlobalFilter(
            detections={"sel": SigmaDetection.from_definition({"a": 1})},
            condition=["sel"],
            rules=[],
        ),
    )
    rule2 = SigmaRule.from_yaml(rule_yaml(sel, "selection"))
    print("  empty rules list applies:", flt_empty_list._should_apply_on_rule(rule2))
    flt_empty_list.filter.rules = [SigmaRuleReference("nope"), SigmaRuleReference(RULE_ID)]
    print("  nope+id applies:", flt_empty_list._should_apply_on_rule(rule2))
    flt_empty_list.filter.rules = "Any"
    print("  'Any' applies:", flt_empty_list._should_apply_on_rule(rule2))
    flt_empty_list.filter.rules = "other"
    try:
        print("  'other' applies:", flt_empty_list._should_apply_on_rule(rule2))
    except Exception as e:
        print(f"  EXC {type(e).__name__}: {e}")
    flt_empty_list.filter.rules = [SigmaRuleReference("r1"), "plain string"]
    try:
        print("  bad reference applies:", flt_empty_list._should_apply_on_rule(rule2))
    except Exception as e:
        print(f"  EXC {type(e).__name__}: {e}")

    coll = SigmaCollection.from_yaml(
        "\n---\n".join([rule_yaml(sel, "selection"), corr, filter_yaml(fsel, "not selection")]),
        collect_filters=True,
    )
    print("  collect_filters:", len(coll.rules), len(coll.filters), coll.rules[0].detection.condition)
    random.seed(6)
    coll.apply_filters(coll.filters)
    print("  after apply_filters:", [type(r).__name__ for r in coll.rules])
    print("   ", coll.rules[0].detection.condition, list(coll.rules[0].detection.detections))
    corr_rule = coll.rules[1]
    print("  correlation untouched:", flt.apply_on_rule(corr_rule) is corr_rule, flt._should_apply_on_rule(corr_rule))
    random.seed(6)
    coll.apply_filters([])
    print("  apply no filters:", coll.rules[0].detection.condition)

    # log source containment
    ls = [
        SigmaLogSource("c", "p", "s"),
        SigmaLogSource("c", "p"),
        SigmaLogSource("c"),
        SigmaLogSource(None, "p"),
        SigmaLogSource(None, None, "s"),
        SigmaLogSource("c", None, "s"),
        SigmaLogSource("c", "p", "s", "definition"),
        SigmaLogSource("c2", "p", "s"),
        SigmaLogSource("c", "p", "s", custom_attributes={"x": 1}),
        EmptyLogSource(),
    ]
    for a in ls:
        row = []
        for b in ls:
            try:
                row.append(str(b in a)[0])
            except Exception as e:
                row.append(type(e).__name__)
        print("  contains", " ".join(row))
    for bad in ("string", None, 5):
        try:
            print(bad in ls[0])
        except Exception as e:
            print(f"  EXC {type(e).__name__}: {e}")
    try:
        print(ls[0] in EmptyLogSource(), EmptyLogSource() in EmptyLogSource())
    except Exception as e:
        print(f"  EXC {type(e).__name__}: {e}")

    # selector resolution
    dets = SigmaRule.from_yaml(
        rule_yaml(
            {
                "selection": ("a", 1),
                "sel2": ("a", 2),
                "_priv": ("a", 3),
                "_filt_abc_sel": ("a", 4),
                "_filt_abc_other": ("a", 5),
                "_filt_xyz_sel": ("a", 6),
                "x_filt_": ("a", 7),
            },
            "selection",
        )
    ).detection
    for quant in ("1", "any", "all"):
        for pattern in (
            "them",
            "*",
            "sel*",
            "*2",
            "_*",
            "_p*",
            "_filt_*",
            "_filt_abc_*",
            "_filt_abc_sel",
            "_filt*",
            "_fil*",
            "*_sel",
            "*_filt_*",
            "s.l*",
            "nomatch*",
            "selection",
        ):
            s = ConditionSelector([quant, pattern])
            print(
                f"  selector {quant} of {pattern}:",
                s.cond_class.__name__,
                [i.identifier for i in s.resolve_referenced_detections(dets)],
            )
    try:
        ConditionSelector(["2", "x"])
    except Exception as e:
        print(f"  EXC {type(e).__name__}: {e}")
    try:
        ConditionSelector(["1", "sel("]).resolve_referenced_detections(dets)
    except Exception as e:
        print(f"  EXC {type(e).__name__}: {e}")


if __name__ == "__main__":
    main()
    sys.exit(0)
