"""
Demo for property C19 (validation only observes) with the focus on the tag validators of
sigma/validators/core/tags.py. Prints everything that is observed; the output must be the same on
clean HEAD and with out/t9/patch.diff applied.

Run as: PYTHONPATH=/tmp/wt10-C19 /venv/bin/python demo.py
"""

import copy
import itertools
import random
import traceback

from sigma.backends.test import TextQueryTestBackend
from sigma.collection import SigmaCollection
from sigma.data import mitre_attack, mitre_d3fend
from sigma.rule import SigmaRule, SigmaRuleTag
from sigma.validation import SigmaValidator
from sigma.validators.core import validators
from sigma.validators.core.tags import (
    ATTACKTagValidator,
    D3FENDTagValidator,
    DuplicateTagValidator,
    NamespaceTagValidator,
    TagFormatValidator,
    TLPTagValidator,
    TLPv1TagValidator,
    TLPv2TagValidator,
    CARTagValidator,
    CVETagValidator,
    DetectionTagValidator,
    STPTagValidator,
)

# ---------------------------------------------------------------------------------------------
# No network: the data modules get their data from here. Every request is recorded.
ATTACK_DATA = {
    "mitre_attack_version": "17.1",
    "mitre_attack_tactics": {"TA0001": "initial-access", "TA0011": "Command-And-Control"},
    "mitre_attack_techniques": {"T1001": "Data Obfuscation", "T1001.001": "Junk Data"},
    "mitre_attack_techniques_tactics_mapping": {"T1001": ["command-and-control"]},
    "mitre_attack_intrusion_sets": {"G0001": "Axiom"},
    "mitre_attack_software": {"S0001": "Mimikatz", "S0005": "Windows Credential Editor"},
    "mitre_attack_datasources": {"DS0026": "Active Directory"},
    "mitre_attack_mitigations": {"M1015": "Active Directory Configuration"},
}
D3FEND_DATA = {
    "mitre_d3fend_version": "0.16.0",
    "mitre_d3fend_tactics": {"Deceive": "Deceive", "Isolate": "Isolate", "Detect": "Detect"},
    "mitre_d3fend_techniques": {"D3-MFA": "Multi-factor Authentication", "D3-OTP": "OTP"},
    "mitre_d3fend_artifacts": {"d3f-AccessControlConfiguration": "Access Control Configuration"},
}
requests: list[str] = []
current = {"attack": ATTACK_DATA, "d3fend": D3FEND_DATA}


def attack_data():
    requests.append("attack")
    return current["attack"]


def d3fend_data():
    requests.append("d3fend")
    return current["d3fend"]


mitre_attack._get_cached_data = attack_data
mitre_d3fend._get_cached_data = d3fend_data


def take_requests() -> str:
    r = ",".join(requests) or "-"
    requests.clear()
    return r


# ---------------------------------------------------------------------------------------------
RULE = """
title: {title}
id: {id}
status: test
logsource:
    category: process_creation
    product: windows
detection:
    selection_1:
        CommandLine|contains: 'mimikatz'
    selection_2:
        Image|endswith: '\\\\cmd.exe'
    _unused:
        User: admin
    condition: 1 of selection_* {extra}
tags: {tags}
"""

TAG_SETS = {
    "valid": ["attack.t1001", "attack.initial-access", "attack.command-and-control", "attack.g0001",
              "attack.s0005", "attack.ds0026", "attack.m1015", "d3fend.deceive", "d3fend.d3-mfa",
              "d3fend.d3f-AccessControlConfiguration", "tlp.amber", "car.2016-04-005",
              "cve.2023-1234", "detection.dfir", "stp.3a"],
    "invalid": ["attack.t9999", "attack.T1001", "attack.axiom", "d3fend.d3f-accesscontrolconfiguration",
                "d3fend.Deceive", "d3fend.d3-xyz", "tlp.white", "tlp.clear", "tlp.purple",
                "car.16-4-5", "cve.abc", "detection.unknown", "stp.9z", "custom.thing"],
    "dups": ["attack.t1001", "attack.t1001", "tlp.red", "attack.t1001", "tlp.red", "attack.bogus",
             "attack.bogus"],
    "odd": ["Attack.t1001", "attack.", "attack.t1001.001", "attack.t1001.", ".x", "a..b",
            "d3fend.", "tlp.amber-strict", "tlp.AMBER", "x.y z", "attack.t1001\n", "car.2016-04-005\n",
            "stp.1", "stp.55", "detection.dfir-extra", "cve.2023-1234-5", "ATTACK.T1001"],
    "none": [],
}

IDS = [
    "5f9a0d3c-8f5b-4b2e-9d9f-0d7e4e1b7a01",
    "5f9a0d3c-8f5b-4b2e-9d9f-0d7e4e1b7a02",
    "5f9a0d3c-8f5b-4b2e-9d9f-0d7e4e1b7a02",  # duplicate id
    "5f9a0d3c-8f5b-4b2e-9d9f-0d7e4e1b7a04",
    "5f9a0d3c-8f5b-4b2e-9d9f-0d7e4e1b7a05",
]
TITLES = ["Rule A", "Rule B", "Rule B", "Rule A", "Rule E"]
EXTRAS = ["", "and not _unused", "", "and not 1 of _un*", ""]


def make_rules() -> list[SigmaRule]:
    rules = []
    for (name, tags), id, title, extra in zip(TAG_SETS.items(), IDS, TITLES, EXTRAS):
        rules.append(SigmaRule.from_yaml(RULE.format(title=title, id=id, extra=extra, tags="[]")))
        # Tags are attached directly so that unusual ones (trailing newline, empty name) are kept as is.
        rules[-1].tags = [
            SigmaRuleTag(*t.split(".", 1)) if "." in t else SigmaRuleTag(t, "") for t in tags
        ]
    return rules


def show(issue) -> str:
    return str(issue).replace("\n", "\\n")


def issue_key(issue) -> str:
    return show(issue)


def section(title: str) -> None:
    print()
    print("=" * 10, title)


# ---------------------------------------------------------------------------------------------
section("known validators (identifier -> class)")
for ident, cls in sorted(validators.items()):
    if "tag" in ident or "tlp" in ident:
        print(ident, cls.__name__, [b.__name__ for b in cls.__mro__ if b.__name__ in ("SigmaTagValidator", "SigmaRuleValidator")])
print("number of validators:", len(validators))
print("identifiers:", sorted(validators))

section("each tag validator on its own, each tag set")
TAG_VALIDATORS = [
    ATTACKTagValidator, D3FENDTagValidator, TLPv1TagValidator, TLPv2TagValidator, TLPTagValidator,
    DuplicateTagValidator, NamespaceTagValidator, TagFormatValidator, CARTagValidator,
    CVETagValidator, DetectionTagValidator, STPTagValidator,
]
rules = make_rules()
for cls in TAG_VALIDATORS:
    v = cls()
    print("--", cls.__name__, "instance state before:", sorted(vars(v).items(), key=str))
    for rule, name in zip(rules, TAG_SETS):
        issues = v.validate(rule)
        print("  ", name, "requests:", take_requests(), "issues:", len(issues))
        for i in issues:
            print("      ", type(i).__name__, i.severity.name, repr(str(i.tag)), i.rules == [rule],
                  i.tag is next(t for t in rule.tags if t == i.tag))
    state = dict(vars(v))
    state.pop("rule", None)
    print("   instance state after:", {k: sorted(x) if isinstance(x, set) else x for k, x in state.items()})
    print("   finalize:", v.finalize())

section("allowed tags are loaded once per instance, on the first tag whatever its namespace")
for cls in (ATTACKTagValidator, D3FENDTagValidator):
    v = cls()
    print(cls.__name__, "after construction:", v.allowed_tags, "requests:", take_requests())
    print("  rule without tags:", v.validate(rules[4]), v.allowed_tags, "requests:", take_requests())
    v.rule = rules[0]
    print("  foreign tag:", v.validate_tag(SigmaRuleTag("tlp", "red")), "requests:", take_requests())
    print("  loaded:", sorted(v.allowed_tags))
    print("  again:", [show(i) for i in v.validate_tag(SigmaRuleTag(cls.__name__[:6].lower(), "nope"))],
          "requests:", take_requests())
    v.allowed_tags = {"nope"}
    print("  preset set is used:", v.validate(rules[0]) == [] or [str(i.tag) for i in v.validate(rules[0])],
          "requests:", take_requests())
    fresh = cls()
    print("  _load_allowed_tags directly:", sorted(fresh._load_allowed_tags()), "state:", fresh.allowed_tags,
          "requests:", take_requests())

section("broken data sources: same exception, same number of data requests, nothing stored")
broken_attack = {
    "missing techniques": {k: v for k, v in ATTACK_DATA.items() if k != "mitre_attack_techniques"},
    "missing mitigations": {k: v for k, v in ATTACK_DATA.items() if k != "mitre_attack_mitigations"},
    "tactic name None": {**ATTACK_DATA, "mitre_attack_tactics": {"TA0001": None}},
    "software id int": {**ATTACK_DATA, "mitre_attack_software": {1: "x"}},
    "datasources is a list": {**ATTACK_DATA, "mitre_attack_datasources": ["DS0026"]},
    "none + missing": {"mitre_attack_tactics": {"TA0001": None}},
    "empty": {},
}
for name, data in broken_attack.items():
    current["attack"] = data
    v = ATTACKTagValidator()
    try:
        print(name, "->", v.validate(rules[0]))
    except Exception as e:
        print(name, "->", type(e).__name__, e, "| requests:", take_requests(), "| state:", v.allowed_tags)
current["attack"] = ATTACK_DATA
broken_d3fend = {
    "missing artifacts": {k: v for k, v in D3FEND_DATA.items() if k != "mitre_d3fend_artifacts"},
    "technique id None": {**D3FEND_DATA, "mitre_d3fend_techniques": {None: "x"}},
    "artifact id int (kept as is)": {**D3FEND_DATA, "mitre_d3fend_artifacts": {7: "x"}},
    "artifact id list-like": {**D3FEND_DATA, "mitre_d3fend_artifacts": [("a", "b")]},
    "empty": {},
}
for name, data in broken_d3fend.items():
    current["d3fend"] = data
    v = D3FENDTagValidator()
    try:
        print(name, "->", [str(i.tag) for i in v.validate(rules[1])][:3], sorted(v.allowed_tags, key=str),
              "| requests:", take_requests())
    except Exception as e:
        print(name, "->", type(e).__name__, e, "| requests:", take_requests(), "| state:", v.allowed_tags)
current["d3fend"] = D3FEND_DATA

section("constructor arguments")
for cls in (ATTACKTagValidator, D3FENDTagValidator, TagFormatValidator, TLPTagValidator):
    for kwargs in ({}, {"foo": 1}):
        try:
            cls(**kwargs)
            print(cls.__name__, kwargs, "ok")
        except Exception as e:
            print(cls.__name__, kwargs, type(e).__name__, e)
try:
    SigmaValidator([ATTACKTagValidator], config={"attacktag": {"allowed_tags": 1}})
except Exception as e:
    print("config:", type(e).__name__, e)

section("unusual tag objects")
v_attack, v_d3, v_fmt = ATTACKTagValidator(), D3FENDTagValidator(), TagFormatValidator()
for v in (v_attack, v_d3, v_fmt):
    v.rule = rules[0]
for tag in (SigmaRuleTag("attack", ["t1001"]), SigmaRuleTag(["attack"], ["x"]), SigmaRuleTag("d3fend", {"a": 1}),
            SigmaRuleTag("attack", None), SigmaRuleTag(None, "x"), SigmaRuleTag("d3fend", 7)):
    for v in (v_attack, v_d3, v_fmt):
        try:
            print(type(v).__name__, (tag.namespace, tag.name), "->", [type(i).__name__ for i in v.validate_tag(tag)])
        except Exception as e:
            print(type(v).__name__, (tag.namespace, tag.name), "->", type(e).__name__, e)
take_requests()

section("full validation: nothing changes, order does not matter, exclusions are exact")
backend = TextQueryTestBackend()
rules = make_rules()
dicts_before = [copy.deepcopy(r.to_dict()) for r in rules]
tags_before = [list(r.tags) for r in rules]
queries_before = [backend.convert_rule(r) for r in make_rules()]

all_classes = list(validators.values())
reference = sorted(issue_key(i) for i in SigmaValidator(all_classes).validate_rules(iter(rules)))
print("issues with all validators:", len(reference))
for line in reference:
    if "Tag" in line or "TLP" in line:
        print("  ", line)
print("other issue classes:", sorted({l.split()[0] for l in reference if not ("Tag" in l or "TLP" in l)}))

rnd = random.Random(19)
same = True
for _ in range(6):
    classes = all_classes[:]
    rnd.shuffle(classes)
    order = list(range(len(rules)))
    rnd.shuffle(order)
    got = sorted(issue_key(i) for i in SigmaValidator(classes).validate_rules(iter([rules[j] for j in order])))
    # the rule lists of the cross-rule issues follow the order of the rules: compare without them
    strip = lambda l: (l.split(" rules=[")[0], l.split("] ", 1)[-1])
    same = same and sorted(map(strip, got)) == sorted(map(strip, reference))
print("same issues for shuffled validators and rules:", same)

validator = SigmaValidator(all_classes)
first = [issue_key(i) for i in validator.validate_rules(iter(rules))]
second = [issue_key(i) for i in validator.validate_rules(iter(rules))]
print("second run of the same validator object gives the same issues:", first == second)

print("dicts unchanged:", [r.to_dict() for r in rules] == dicts_before)
print("tag lists unchanged (same objects):", all(all(a is b for a, b in zip(r.tags, t)) and len(r.tags) == len(t) for r, t in zip(rules, tags_before)))
print("queries unchanged:", [backend.convert_rule(r) for r in rules] == queries_before)
for q in queries_before:
    print("  ", q)

subset = [ATTACKTagValidator, D3FENDTagValidator, TLPv2TagValidator, TagFormatValidator, DuplicateTagValidator]
for perm in itertools.islice(itertools.permutations(subset), 0, 120, 17):
    got = sorted(issue_key(i) for i in SigmaValidator(perm).validate_rules(iter(rules)))
    print([c.__name__[:6] for c in perm], len(got), got == sorted(issue_key(i) for i in SigmaValidator(subset).validate_rules(iter(rules))))

excl = SigmaValidator.from_dict(
    {
        "validators": ["all", "-tlpv1_tag"],
        "exclusions": {
            IDS[0]: ["attacktag", "d3_fendtag"],
            IDS[1]: "attacktag",
            IDS[3]: ["tag_format"],
        },
    },
    validators,
)
print("exclusion table:", {str(k): sorted(c.__name__ for c in v) for k, v in excl.exclusions.items()})
got = [issue_key(i) for i in excl.validate_rules(iter(rules))]
full = [issue_key(i) for i in SigmaValidator.from_dict({"validators": ["all", "-tlpv1_tag"]}, validators).validate_rules(iter(rules))]
print("issues with exclusions:", len(got), "without:", len(full))
print("suppressed by the exclusions:")
remaining = got[:]
for line in full:
    if line in remaining:
        remaining.remove(line)
    else:
        print("  ", line)
print("issues only present with exclusions:", remaining)

section("collection from YAML with tags, validated before and after conversion")
yaml_rules = "\n---\n".join(
    RULE.format(title=f"Y{i}", id=IDS[i], extra="", tags=str([t for t in tags if "\n" not in t and not t.startswith(".") and t.count(".") and not t.endswith(".")][:8]))
    for i, tags in enumerate(TAG_SETS.values())
)
coll = SigmaCollection.from_yaml(yaml_rules)
v = SigmaValidator(all_classes)
before = [issue_key(i) for i in v.validate_rules(iter(coll.rules))]
queries = backend.convert(coll)
after = [issue_key(i) for i in v.validate_rules(iter(coll.rules))]
print("issues:", len(before), "same after conversion:", before == after)
print("queries:", queries == TextQueryTestBackend().convert(SigmaCollection.from_yaml(yaml_rules)))
for line in before:
    print("  ", line)
print("data requests during the whole section:", take_requests())
print("done")
