"""Demo for C15: converting a probe rule gives the same result whatever was converted before.

Exercises the ownership bookkeeping of processing pipelines (set_pipeline / _clear_pipeline on
pipelines, processing items and their list- or dict-stored conditions), which decides which
pipeline object the state/applied-item conditions look at, together with histories of
conversions (incl. failing ones) on backends sharing one pipeline object.
"""

import sigma.types
from sigma.backends.test import TextQueryTestBackend
from sigma.collection import SigmaCollection
from sigma.conditions import _parse_condition_string
from sigma.exceptions import SigmaError
from sigma.modifiers import SigmaModifier
from sigma.processing.conditions import (
    IncludeFieldCondition,
    LogsourceCondition,
    MatchStringCondition,
    RuleProcessingStateCondition,
)
from sigma.processing.finalization import ConcatenateQueriesFinalizer
from sigma.processing.pipeline import (
    ProcessingItem,
    ProcessingPipeline,
    QueryPostprocessingItem,
)
from sigma.processing.postprocessing import EmbedQueryTransformation
from sigma.processing.transformations import (
    AddFieldnameSuffixTransformation,
    FieldMappingTransformation,
    SetStateTransformation,
)

print("module:", sigma.types.__file__.replace("\\", "/").split("/")[-2:])

PIPELINE_YAML = """
name: demo
priority: 10
vars:
  suffix: "_x"
transformations:
  - id: set_idx
    type: set_state
    key: index
    val: winlog
    rule_conditions:
      - type: logsource
        product: windows
  - id: map_eid
    type: field_name_mapping
    mapping:
      EventID: event_id
      Image: process.path
    rule_conditions:
      st:
        type: processing_state
        key: index
        val: winlog
      app:
        type: processing_item_applied
        processing_item_id: set_idx
      lin:
        type: logsource
        product: linux
    rule_cond_expr: (st and app) or lin
    field_name_conditions:
      inc:
        type: include_fields
        fields: [EventID, Image, User]
      st:
        type: processing_state
        key: index
        val: winlog
    field_name_cond_expr: inc and st
  - id: suffix_cmd
    type: field_name_suffix
    suffix: ".keyword"
    field_name_conditions:
      - type: include_fields
        fields: [CommandLine]
    detection_item_conditions:
      - type: match_string
        cond: any
        pattern: "^.*evil.*$"
      - type: processing_state
        key: index
        val: winlog
    detection_item_cond_op: and
  - id: repl
    type: replace_string
    regex: "^tmp"
    replacement: "/tmp"
    detection_item_conditions:
      applied:
        type: processing_item_applied
        processing_item_id: map_eid
      ms:
        type: match_string
        cond: any
        pattern: "^tmp"
    detection_item_cond_expr: ms and not applied
  - id: fail_forbidden
    type: detection_item_failure
    message: forbidden field used
    field_name_conditions:
      - type: include_fields
        fields: [Forbidden]
  - id: fail_mac
    type: rule_failure
    message: macos unsupported
    rule_conditions:
      - type: logsource
        product: macos
postprocessing:
  - id: embed_win
    type: embed
    prefix: "index=winlog ("
    suffix: ")"
    rule_conditions:
      - type: processing_state
        key: index
        val: winlog
  - id: embed_other
    type: embed
    prefix: "[["
    suffix: "]]"
    rule_conditions:
      w:
        type: processing_item_applied
        processing_item_id: set_idx
      t:
        type: is_sigma_rule
    rule_cond_expr: t and not w
finalizers:
  - type: concat
    separator: " ;; "
    prefix: "<"
    suffix: ">"
"""


def rule(title, product, detection, condition="sel", extra=""):
    det = "\n".join("    " + line for line in detection.strip().splitlines())
    return f"""
title: {title}
status: test
logsource:
    product: {product}
    category: process_creation
{extra}detection:
{det}
    condition: {condition}
"""


RULES = {
    "probe_win": rule(
        "probe win",
        "windows",
        """
sel:
    EventID: 1
    CommandLine|contains: evil
    Path: tmp/x
filter:
    User: admin
""",
        "sel and not filter",
    ),
    "probe_lin": rule(
        "probe lin",
        "linux",
        """
sel:
    EventID: 1
    CommandLine|contains: evil
    Path: tmp/x
filter:
    User: admin
""",
        "sel and not filter",
    ),
    "probe_other": rule(
        "probe other",
        "zeek",
        """
sel:
    EventID: 1
    Path: tmp/y
filter:
    User|re: adm.*
""",
        "sel and not filter",
    ),
    "hist_win": rule(
        "hist win",
        "windows",
        """
sel:
    Image|endswith: '\\cmd.exe'
    CommandLine: harmless
filter:
    EventID:
        - 4
        - 5
""",
        "sel and not filter",
    ),
    "hist_multi": rule(
        "hist multi",
        "windows",
        """
sel:
    EventID: 7
filter:
    fieldA: x
""",
        "[sel and not filter, 1 of sel*, all of them]".replace("[", "\n        - ")
        .replace(", ", "\n        - ")
        .replace("]", ""),
    ),
    "hist_forbidden": rule(
        "hist forbidden",
        "windows",
        """
sel:
    EventID: 1
filter:
    Forbidden: yes
""",
        "sel and not filter",
    ),
    "hist_mac": rule(
        "hist mac",
        "macos",
        """
sel:
    EventID: 1
filter:
    User: admin
""",
        "sel and not filter",
    ),
    "hist_badcond": rule(
        "hist badcond",
        "windows",
        """
sel:
    EventID: 1
""",
        "sel and not filter",
    ),
    "hist_nullne": rule(
        "hist null not-eq",
        "windows",
        """
sel:
    EventID: 1
filter:
    User: null
    Image|cidr: 10.0.0.0/8
""",
        "sel and not filter",
    ),
}


def clear_caches():
    _parse_condition_string.cache_clear()
    SigmaModifier._type_hint_cache.clear()


def new_pipeline():
    return ProcessingPipeline.from_yaml(PIPELINE_YAML)


def convert(backend, names, output_format=None, single=False):
    try:
        collection = SigmaCollection.from_yaml("---".join(RULES[n] for n in names))
        if single:
            return [backend.convert_rule(r, output_format) for r in collection.rules]
        return backend.convert(collection, output_format)
    except SigmaError as e:
        return f"{type(e).__name__}: {e}"
    except Exception as e:  # noqa: BLE001 - demo prints everything
        return f"!{type(e).__name__}: {e}"


def probe_fresh(name, output_format=None):
    clear_caches()
    return convert(TextQueryTestBackend(new_pipeline()), [name], output_format)


def objs(group):
    return list(group.values()) if isinstance(group, dict) else list(group)


def ownership_report(pipeline):
    """Which pipeline do the contained objects point to? (printed as booleans, no ids)"""
    rows = []
    for item in pipeline.items:
        conds = []
        for group in (
            item.rule_conditions,
            item.detection_item_conditions,
            item.field_name_conditions,
        ):
            objs = list(group.values()) if isinstance(group, dict) else list(group)
            conds.extend(c._pipeline is pipeline for c in objs)
        rows.append(
            (
                item.identifier,
                item._pipeline is pipeline,
                item.transformation._pipeline is pipeline,
                conds,
            )
        )
    for item in pipeline.postprocessing_items:
        objs = (
            list(item.rule_conditions.values())
            if isinstance(item.rule_conditions, dict)
            else list(item.rule_conditions)
        )
        rows.append(
            (
                item.identifier,
                item._pipeline is pipeline,
                item.transformation._pipeline is pipeline,
                [c._pipeline is pipeline for c in objs],
            )
        )
    rows.append(("finalizers", [f._pipeline is pipeline for f in pipeline.finalizers]))
    return rows


# ---------------------------------------------------------------- 1. probes after histories
HISTORIES = [
    [],
    [("collection", ["hist_win"], None)],
    [("collection", ["hist_win", "hist_multi"], "test")],
    [("collection", ["hist_forbidden"], None)],
    [("collection", ["hist_mac"], None), ("single", ["hist_win"], None)],
    [("collection", ["hist_badcond"], None), ("second_backend", ["hist_multi"], None)],
    [("collection", ["hist_nullne"], None), ("collection", ["hist_forbidden"], "str")],
    [
        ("collection", ["probe_lin"], None),
        ("second_backend", ["hist_mac"], None),
        ("init", [], "test"),
        ("collection", ["probe_other", "hist_forbidden"], None),
        ("single", ["hist_multi"], "test"),
        ("collection_collect", ["hist_forbidden", "hist_mac", "hist_win"], None),
        ("second_backend", ["probe_win"], "str"),
        ("collection", ["hist_badcond"], None),
    ],
]

for probe in ("probe_win", "probe_lin", "probe_other"):
    for fmt in (None, "test"):
        fresh = probe_fresh(probe, fmt)
        print(f"== {probe} fmt={fmt} fresh: {fresh!r}")
        for hno, history in enumerate(HISTORIES):
            clear_caches()
            shared_pipeline = new_pipeline()
            backend = TextQueryTestBackend(shared_pipeline)
            trace = []
            for op, names, ofmt in history:
                if op == "collection":
                    trace.append(convert(backend, names, ofmt))
                elif op == "collection_collect":
                    b = TextQueryTestBackend(shared_pipeline, collect_errors=True)
                    trace.append(convert(b, names, ofmt))
                    trace.append([(r.title, f"{type(e).__name__}: {e}") for r, e in b.errors])
                elif op == "single":
                    trace.append(convert(backend, names, ofmt, single=True))
                elif op == "second_backend":
                    trace.append(convert(TextQueryTestBackend(shared_pipeline), names, ofmt))
                elif op == "init":
                    backend.init_processing_pipeline(ofmt)
                    trace.append(sorted(backend.last_processing_pipeline.vars.items()))
            after = convert(backend, [probe], fmt)
            last = backend.last_processing_pipeline
            print(f"  history {hno}: same_as_fresh={after == fresh} result={after!r}")
            print(f"    trace={trace!r}")
            print(
                "    tracking:",
                last.applied,
                sorted(last.applied_ids),
                sorted((k, sorted(v)) for k, v in last.field_name_applied_ids.items()),
                sorted(last.state.items()),
            )
            print("    owned by last pipeline:", ownership_report(last))
            print("    owned by user pipeline:", ownership_report(shared_pipeline))

# ---------------------------------------------------------------- 2. direct ownership behaviour
print("== direct ownership")


def make_items():
    item_list_conds = ProcessingItem(
        SetStateTransformation("k", "v"),
        rule_conditions=[LogsourceCondition(product="windows")],
        detection_item_conditions=[MatchStringCondition(cond="any", pattern="x")],
        field_name_conditions=[IncludeFieldCondition(fields=["a"])],
        identifier="list_item",
    )
    item_dict_conds = ProcessingItem(
        AddFieldnameSuffixTransformation(".s"),
        rule_conditions={
            "a": LogsourceCondition(product="windows"),
            "b": RuleProcessingStateCondition("k", "v"),
        },
        rule_condition_expression=None,
        rule_condition_linking=all,
        detection_item_conditions=[],
        field_name_conditions=[IncludeFieldCondition(fields=["b"])],
        identifier="dict_item",
    )
    post = QueryPostprocessingItem(
        EmbedQueryTransformation(prefix="(", suffix=")"),
        rule_conditions=[RuleProcessingStateCondition("k", "v")],
        identifier="post",
    )
    fin = ConcatenateQueriesFinalizer(separator="|")
    return item_list_conds, item_dict_conds, post, fin


try:
    a, b, post, fin = make_items()
    p1 = ProcessingPipeline([a], [post], [fin], vars={"x": 1, "y": 1})
    print("p1 owns:", ownership_report(p1))
    p2 = ProcessingPipeline([b], vars={"y": 2})
    print("p2 owns:", ownership_report(p2))
    merged = p1 + p2
    print("merged owns:", ownership_report(merged), merged.vars)
    print("p1 still owns:", ownership_report(p1))
    print("p2 still owns:", ownership_report(p2))
    print("sum:", ownership_report(sum([p1, p2, ProcessingPipeline()])))
    print("p1 + None is p1:", (p1 + None) is p1)
    for what, maker in (
        ("item reused", lambda: ProcessingPipeline([merged.items[0]])),
        ("post reused", lambda: ProcessingPipeline([], [merged.postprocessing_items[0]])),
        ("finalizer reused", lambda: ProcessingPipeline([], [], [merged.finalizers[0]])),
        ("set_pipeline twice", lambda: merged.set_pipeline()),
        ("add non pipeline", lambda: merged + 1),
        ("bad item", lambda: ProcessingPipeline([FieldMappingTransformation({})])),
    ):
        try:
            maker()
            print(what, "-> ok")
        except Exception as e:  # noqa: BLE001
            print(what, "->", type(e).__name__, e)

    # partially owned item: condition already owned, item itself not
    cond = LogsourceCondition(product="windows")
    first = ProcessingItem(SetStateTransformation("k", "v"), rule_conditions=[cond])
    ProcessingPipeline([first])
    fresh_trafo = SetStateTransformation("k2", "v2")
    second = ProcessingItem(
        fresh_trafo,
        rule_conditions={"c0": LogsourceCondition(product="linux"), "c1": cond},
        rule_condition_linking=any,
        field_name_conditions=[IncludeFieldCondition(fields=["q"])],
    )
    try:
        pp = ProcessingPipeline([second])
        print("partially owned -> ok", ownership_report(pp))
    except Exception as e:  # noqa: BLE001
        print("partially owned ->", type(e).__name__, e)
    print(
        "after partial failure:",
        second._pipeline is None,
        fresh_trafo._pipeline is None,
        [c._pipeline is None for c in objs(second.rule_conditions)],
        [c._pipeline is None for c in second.field_name_conditions],
    )
    second._clear_pipeline()
    print(
        "after clear:",
        second._pipeline is None,
        fresh_trafo._pipeline is None,
        [c._pipeline is None for c in objs(second.rule_conditions)],
        cond._pipeline is None,
    )
    pp = ProcessingPipeline([second])
    print("re-owned after clear:", ownership_report(pp))
    pp._clear_pipeline()
    print("cleared pipeline:", ownership_report(pp))
except Exception as e:  # noqa: BLE001
    print("UNEXPECTED", type(e).__name__, e)
    raise

# ---------------------------------------------------------------- 3. class level backend pipeline
print("== class level pipeline re-owned on every init")
b1 = TextQueryTestBackend()
b2 = TextQueryTestBackend(new_pipeline())
for round_no in range(3):
    for name, b in (("b1", b1), ("b2", b2)):
        res = convert(b, ["hist_multi", "probe_win"], "test" if round_no == 1 else None)
        print(round_no, name, res)
        print("   ", ownership_report(b.last_processing_pipeline)[:2])
        print(
            "    class pipeline owner is last pipeline:",
            [
                i._pipeline is b.last_processing_pipeline
                for i in TextQueryTestBackend.backend_processing_pipeline.items
            ],
        )
print("done")
