"""Demo for property C10: correlation queries carry every element of the correlation rule.

Exercises the aggregation phase, the condition phase (basic and extended), the referenced rule
list and the alias normalisation of TextQueryBackend on a delimiter-structured backend, including
unusual inputs and error paths. Prints everything observed; exits 0.
"""

import itertools
import traceback

from sigma.backends.test import TextQueryTestBackend
from sigma.collection import SigmaCollection
from sigma.correlations import (
    SigmaCorrelationCondition,
    SigmaCorrelationConditionOperator,
    SigmaCorrelationFieldAlias,
    SigmaCorrelationFieldAliases,
    SigmaExtendedCorrelationCondition,
    SigmaRuleReference,
)

TYPES = [
    "event_count",
    "value_count",
    "value_sum",
    "value_avg",
    "value_percentile",
    "value_median",
    "temporal",
    "temporal_ordered",
]
EXT_TYPES = ["temporal_extended", "temporal_ordered_extended"]


class StructBackend(TextQueryTestBackend):
    """All correlation templates are delimiter-structured and show every placeholder."""

    default_correlation_query = {
        "test": "S<{search}>|T<{typing}>|W<{timespan}>|A<{aggregate}>|C<{condition}>|G<{groupby}>"
    }
    temporal_correlation_query = None
    temporal_extended_correlation_query = None
    temporal_ordered_extended_correlation_query = None
    correlation_search_single_rule_expression = "one[{ruleid}:{query}{normalization}]"
    correlation_search_multi_rule_expression = "many[{queries}]"
    correlation_search_multi_rule_query_expression = "q[{ruleid}:{query}{normalization}]"
    correlation_search_multi_rule_query_expression_joiner = ";"
    correlation_search_field_normalization_expression = "~{alias}<-{field}"
    correlation_search_field_normalization_expression_joiner = "+"
    typing_expression = "ty[{queries}]"
    typing_rule_query_expression = "{ruleid}={query}"
    typing_rule_query_expression_joiner = ";"
    referenced_rules_expression = {"test": "r({ruleid})"}
    referenced_rules_expression_joiner = {"test": "/"}
    groupby_expression = {"test": "by[{fields}]"}
    groupby_field_expression = {"test": "{field}"}
    groupby_field_expression_joiner = {"test": ","}
    groupby_expression_nofield = {"test": "by[]"}
    correlation_fields_expression = {"test": "f[{fields}]"}
    correlation_fields_field_expression = {"test": "{field}"}
    correlation_fields_field_expression_joiner = {"test": ","}
    extended_correlation_condition_rule_reference_expression = {"test": "ref({ruleid})"}


for _t in TYPES + EXT_TYPES:
    setattr(
        StructBackend,
        f"{_t}_aggregation_expression",
        {
            "test": _t
            + ":field={field};pct={percentile};rules={referenced_rules};fields={fields};"
            + "ts={timespan};gb={groupby};rule={rule.title}"
        },
    )
    if _t in EXT_TYPES:
        setattr(
            StructBackend,
            f"{_t}_condition_expression",
            {"test": _t + ":ext={extended_condition};rules={referenced_rules}"},
        )
    else:
        setattr(
            StructBackend,
            f"{_t}_condition_expression",
            {"test": _t + ":field={field};op={op};count={count};rules={referenced_rules}"},
        )

BASE_RULES = """
title: Rule A
name: rule_a
id: 0e95725d-7320-415d-80f7-004da920fc11
status: test
logsource:
    product: windows
detection:
    selection:
        EventID: 4625
    condition: selection
fields:
    - SubjectUserName
    - fieldC
---
title: Rule B
id: 0e95725d-7320-415d-80f7-004da920fc12
status: test
logsource:
    product: windows
detection:
    sel1:
        EventID: 4624
    sel2:
        fieldC|contains: x y
    condition:
        - sel1
        - sel2
---
title: Rule C
name: rule_c
status: test
logsource:
    product: windows
detection:
    selection:
        CommandLine|contains:
            - whoami
            - net group
    condition: selection
fields:
    - fieldC
    - Image
---
"""

REF_B = "0e95725d-7320-415d-80f7-004da920fc12"


def show(label, func):
    try:
        result = func()
    except Exception as e:  # noqa: BLE001 - everything observed is printed
        print(f"{label} -> EXC {type(e).__module__}.{type(e).__name__}: {e}")
    else:
        print(f"{label} -> {result!r}")


def correlation_yaml(
    ctype, rules, cond, timespan="5m", group_by=None, aliases=None, fields=None, extra=""
):
    lines = ["title: Corr " + ctype, "name: corr", "status: test", "correlation:"]
    lines.append(f"    type: {ctype}")
    if rules is not None:
        lines.append("    rules:")
        lines += [f"        - {r}" for r in rules]
    lines.append(f"    timespan: {timespan}")
    if group_by:
        lines.append("    group-by:")
        lines += [f"        - {g}" for g in group_by]
    if aliases:
        lines.append("    aliases:")
        for alias, mapping in aliases.items():
            lines.append(f"        {alias}:")
            lines += [f"            {r}: {f}" for r, f in mapping.items()]
    if isinstance(cond, str):
        lines.append(f"    condition: {cond}")
    else:
        lines.append("    condition:")
        lines += [f"        {k}: {v}" for k, v in cond.items()]
    if fields:
        lines.append("fields:")
        lines += [f"    - {f}" for f in fields]
    return BASE_RULES + "\n".join(lines) + "\n" + extra


def convert(yaml, backend_cls=StructBackend, **attrs):
    backend = backend_cls()
    for k, v in attrs.items():
        setattr(backend, k, v)
    return backend.convert(SigmaCollection.from_yaml(yaml))


def main():
    print("== 1. all correlation types, six operators, basic conditions")
    ops = ["lt", "lte", "gt", "gte", "eq", "neq"]
    for i, ctype in enumerate(TYPES):
        op = ops[i % len(ops)]
        cond = {op: i + 1}
        if ctype.startswith("value_"):
            cond["field"] = "fieldC"
        if ctype == "value_percentile":
            cond["percentile"] = 95
        rules = ["rule_a"] if i % 2 == 0 else ["rule_a", REF_B, "rule_c"]
        gb = None if i % 3 == 0 else ["fieldC", "user name"]
        show(
            f"{ctype}/{op}",
            lambda: convert(
                correlation_yaml(ctype, rules, cond, f"{i + 1}{'smhdwMy'[i % 7]}", gb, None, ["x", "fieldC"])
            ),
        )

    print("== 2. unusual condition values")
    show(
        "percentile float / count float",
        lambda: convert(
            correlation_yaml(
                "value_percentile", ["rule_a"], {"gte": 1.5, "field": "f 1", "percentile": 99.9}
            )
        ),
    )
    show(
        "percentile zero",
        lambda: convert(
            correlation_yaml("value_percentile", ["rule_a"], {"gte": 0, "field": "f", "percentile": 0})
        ),
    )
    show(
        "percentile missing",
        lambda: convert(correlation_yaml("value_percentile", ["rule_a"], {"gte": 5, "field": "f"})),
    )
    show(
        "percentile given for value_sum",
        lambda: convert(
            correlation_yaml("value_sum", ["rule_a"], {"lt": 5, "field": "f", "percentile": 50})
        ),
    )
    show(
        "event_count with field",
        lambda: convert(correlation_yaml("event_count", ["rule_a", "rule_c"], {"eq": 5, "field": "fieldC"})),
    )
    show(
        "field list",
        lambda: convert(
            correlation_yaml("value_count", ["rule_a"], {"gt": 5, "field": "[fieldC, 'other f']"})
        ),
    )
    show("temporal without field", lambda: convert(correlation_yaml("temporal", ["rule_a", "rule_c"], {"gte": 2})))

    print("== 3. alias normalisation")
    aliases = {
        "user": {"rule_a": "SubjectUserName", REF_B: "fieldC", "rule_c": "User"},
        "host": {"rule_c": "Computer", "rule_a": "fieldC"},
        "only_b": {REF_B: "bfield"},
    }
    for rules in (["rule_a"], ["rule_a", REF_B, "rule_c"], ["rule_c", "rule_a"], [REF_B]):
        show(
            f"aliases {rules}",
            lambda: convert(
                correlation_yaml("temporal_ordered", rules, {"gte": 1}, "1h", ["user", "host"], aliases)
            ),
        )
    show(
        "aliases, normalisation unsupported",
        lambda: convert(
            correlation_yaml("temporal", ["rule_a", "rule_c"], {"gte": 1}, "1h", ["user"], aliases),
            correlation_search_field_normalization_expression=None,
        ),
    )
    show(
        "aliases, joiner unsupported",
        lambda: convert(
            correlation_yaml("temporal", ["rule_a", "rule_c"], {"gte": 1}, "1h", ["user"], aliases),
            correlation_search_field_normalization_expression_joiner=None,
        ),
    )
    show(
        "no aliases, normalisation unsupported",
        lambda: convert(
            correlation_yaml("temporal", ["rule_a", "rule_c"], {"gte": 1}, "1h", ["user"]),
            correlation_search_field_normalization_expression=None,
        ),
    )

    # direct calls: same rule referred to by name in the rule list and by id in the alias
    coll = SigmaCollection.from_yaml(BASE_RULES + "title: dummy\nname: dummy\nstatus: test\nlogsource:\n    product: x\ndetection:\n    s:\n        a: 1\n    condition: s\n")
    backend = StructBackend()
    by_name, by_id, other, unresolved = (
        SigmaRuleReference("rule_a"),
        SigmaRuleReference("0e95725d-7320-415d-80f7-004da920fc11"),
        SigmaRuleReference("rule_c"),
        SigmaRuleReference("rule_a"),
    )
    for ref in (by_name, by_id, other):
        ref.resolve(coll)
    unresolved_other = SigmaRuleReference("nothing")
    direct_aliases = SigmaCorrelationFieldAliases(
        {
            "u": SigmaCorrelationFieldAlias("u", {by_id: "IdField", other: "OtherField"}),
            "v": SigmaCorrelationFieldAlias("v", {unresolved: "UnresolvedSameName"}),
            "w": SigmaCorrelationFieldAlias("w", {unresolved_other: "Nope", "plain string": "Str"}),
        }
    )
    for label, ref in (
        ("by_name", by_name),
        ("by_id", by_id),
        ("other", other),
        ("unresolved", unresolved),
        ("unresolved_other", unresolved_other),
        ("plain string", "plain string"),
    ):
        show(
            f"normalisation direct {label}",
            lambda: backend.convert_correlation_search_field_normalization_expression(
                direct_aliases, ref
            ),
        )
    show(
        "normalisation direct empty",
        lambda: backend.convert_correlation_search_field_normalization_expression(
            SigmaCorrelationFieldAliases(), by_name
        ),
    )

    print("== 4. referenced rules expression")
    show("referenced rules direct", lambda: backend.convert_referenced_rules([by_name, by_id, other], "test"))
    show("referenced rules empty", lambda: backend.convert_referenced_rules([], "test"))
    show("referenced rules bad method", lambda: backend.convert_referenced_rules([by_name], "nope"))
    show("referenced rules bad method, empty", lambda: backend.convert_referenced_rules([], "nope"))
    show("referenced rules unresolved", lambda: backend.convert_referenced_rules([by_name, unresolved], "test"))
    b2 = StructBackend()
    b2.referenced_rules_expression_joiner = None
    show("referenced rules unsupported", lambda: b2.convert_referenced_rules([by_name], "test"))
    show(
        "template uses referenced_rules but unsupported",
        lambda: convert(
            correlation_yaml("temporal", ["rule_a", "rule_c"], {"gte": 1}),
            referenced_rules_expression=None,
        ),
    )
    show(
        "template without referenced_rules, unsupported",
        lambda: convert(
            correlation_yaml("temporal", ["rule_a", "rule_c"], {"gte": 1}),
            referenced_rules_expression=None,
            temporal_aggregation_expression={"test": "agg {timespan}{groupby}"},
            temporal_condition_expression={"test": "cond {op} {count}"},
        ),
    )

    print("== 5. extended conditions")
    for ctype, expr in itertools.product(
        ("temporal", "temporal_ordered"),
        (
            "rule_a",
            "rule_a and rule_c",
            "rule_a or rule_c and not rule_a",
            "(rule_a or rule_c) and not (rule_a and rule_c)",
            "not not rule_c",
            "rule_a and (rule_c or (rule_a and not rule_c)) or rule_c",
        ),
    ):
        show(
            f"{ctype}: {expr}",
            lambda: convert(correlation_yaml(ctype, None, expr, "30s", ["fieldC"])),
        )
    show(
        "extended, no group expression",
        lambda: convert(
            correlation_yaml("temporal", None, "(rule_a or rule_c) and not (rule_a and rule_c)"),
            group_expression=None,
        ),
    )
    show(
        "extended, rule reference unsupported",
        lambda: convert(
            correlation_yaml("temporal", None, "rule_a and rule_c"),
            extended_correlation_condition_rule_reference_expression=None,
        ),
    )
    show(
        "extended, rule reference other method only",
        lambda: convert(
            correlation_yaml("temporal", None, "rule_a and rule_c"),
            extended_correlation_condition_rule_reference_expression={"other": "{ruleid}"},
        ),
    )
    show(
        "extended with unknown rule",
        lambda: convert(correlation_yaml("temporal", None, "rule_a and rule_x")),
    )
    # direct: unresolved references keep the reference string; resolved ones use name or id
    tree = SigmaExtendedCorrelationCondition("rule_a and not (x1 or _y)").parsed
    show("extended direct unresolved", lambda: backend.convert_extended_correlation_condition(tree, "test"))
    for ref in (by_name, by_id, other, unresolved, unresolved_other):
        show(
            f"rule reference direct {ref.reference}",
            lambda: backend.convert_extended_correlation_condition_rule_reference(ref, "test"),
        )
    show(
        "rule reference direct bad method",
        lambda: backend.convert_extended_correlation_condition_rule_reference(by_name, "nope"),
    )
    show("extended direct bad type", lambda: backend.convert_extended_correlation_condition("x", "test"))

    print("== 6. condition phase direct calls")
    basic = SigmaCorrelationCondition(SigmaCorrelationConditionOperator.NEQ, 7, "fieldC")
    basic_list = SigmaCorrelationCondition(SigmaCorrelationConditionOperator.LT, 0.5, ["a b", "c"], 50)
    ext = SigmaExtendedCorrelationCondition("rule_a or not rule_c")
    refs = [by_name, other]
    for label, cond, ctype in (
        ("basic", basic, "value_count"),
        ("basic list", basic_list, "value_percentile"),
        ("basic in extended template", basic, "temporal_extended"),
        ("extended", ext, "temporal_extended"),
        ("extended in basic template", ext, "temporal"),
        ("unknown type", basic, "nothing"),
    ):
        show(
            f"condition direct {label}",
            lambda: backend.convert_correlation_condition_from_template(cond, refs, ctype, "test"),
        )
    show(
        "condition direct bad method",
        lambda: backend.convert_correlation_condition_from_template(basic, refs, "temporal", "nope"),
    )
    b3 = StructBackend()
    b3.correlation_condition_mapping = {SigmaCorrelationConditionOperator.LT: "<"}
    show(
        "condition direct op missing in mapping",
        lambda: b3.convert_correlation_condition_from_template(basic, refs, "temporal", "test"),
    )
    show(
        "condition direct op missing + refs unresolved (order of errors)",
        lambda: b3.convert_correlation_condition_from_template(
            basic, [unresolved], "temporal", "test"
        ),
    )
    b3.correlation_condition_mapping = None
    show(
        "condition direct no mapping",
        lambda: b3.convert_correlation_condition_from_template(basic, refs, "temporal", "test"),
    )
    b4 = StructBackend()
    b4.temporal_condition_expression = None
    show(
        "condition direct no template",
        lambda: b4.convert_correlation_condition_from_template(basic, refs, "temporal", "test"),
    )
    b4.referenced_rules_expression = None
    show(
        "condition direct referenced rules unsupported",
        lambda: b4.convert_correlation_condition_from_template(ext, refs, "temporal_extended", "test"),
    )

    print("== 7. aggregation phase error paths / order")
    show(
        "aggregation template missing",
        lambda: convert(
            correlation_yaml("value_sum", ["rule_a"], {"lt": 5, "field": "f"}),
            value_sum_aggregation_expression=None,
        ),
    )
    show(
        "aggregation group-by unsupported",
        lambda: convert(
            correlation_yaml("value_sum", ["rule_a"], {"lt": 5, "field": "f"}, "5m", ["g"]),
            groupby_expression=None,
            default_correlation_query={"test": "{search}|{aggregate}|{condition}"},
        ),
    )
    show(
        "aggregation with field mapping pipeline + quoting",
        lambda: convert(
            correlation_yaml(
                "value_avg", ["rule_a", REF_B], {"lte": 5, "field": "fieldC"}, "2w", ["fieldC", "a b"],
                {"al": {"rule_a": "fieldC", REF_B: "x y"}},
            ),
            field_quote="'",
        ),
    )
    show(
        "nested correlation",
        lambda: convert(
            correlation_yaml("event_count", ["rule_a"], {"gte": 3}, "1d", ["fieldC"], None, None,
                extra="---\ntitle: Outer\nstatus: test\ncorrelation:\n    type: temporal\n    rules:\n        - corr\n        - rule_c\n    timespan: 1M\n    condition:\n        gte: 2\n")
        ),
    )


if __name__ == "__main__":
    try:
        main()
    except Exception:  # pragma: no cover
        traceback.print_exc()
        raise
