"""
Demo for property C17: placeholders expand completely or conversion fails.
Prints the observed conversion output or the raised error for a grid of values x pipelines,
followed by some unit-level observations of the functions involved.
Run: PYTHONPATH=/tmp/wt5-C17 /venv/bin/python demo.py
"""

import itertools
import sys

import sigma.types
from sigma.backends.test import TextQueryTestBackend
from sigma.collection import SigmaCollection
from sigma.exceptions import SigmaError
from sigma.processing.pipeline import ProcessingItem, ProcessingPipeline
from sigma.processing.transformations import (
    QueryExpressionPlaceholderTransformation,
    ValueListPlaceholderTransformation,
    WildcardPlaceholderTransformation,
)
from sigma.processing.transformations.placeholder import PlaceholderIncludeExcludeMixin
from sigma.types import (
    Placeholder,
    SigmaCasedString,
    SigmaRegularExpression,
    SigmaRegularExpressionFlag,
    SigmaString,
    SpecialChars,
)

print("module:", sigma.types.__file__.replace("/tmp/wt5-C17/", ""))

RULE = """
title: Test
status: test
logsource:
    category: test_category
    product: test_product
detection:
    sel:
        {key}: {value}
    condition: sel
"""


def show(label, func):
    try:
        res = func()
        print(f"{label} -> OK {res!r}")
    except SigmaError as e:
        print(f"{label} -> {type(e).__name__}: {e}")
    except Exception as e:  # other exception classes are part of the behaviour too
        print(f"{label} -> NON-SIGMA {type(e).__name__}: {e}")


def pipelines():
    yield "none", lambda: ProcessingPipeline([])
    yield "valuelist-all", lambda: ProcessingPipeline(
        [ProcessingItem(ValueListPlaceholderTransformation())],
        vars={"a": ["a1", "a2"], "b": ["b*1", 2, 3.5], "c": "single"},
    )
    yield "valuelist-include-a", lambda: ProcessingPipeline(
        [ProcessingItem(ValueListPlaceholderTransformation(include=["a"]))],
        vars={"a": ["a1", "a2"], "b": ["b1"]},
    )
    yield "valuelist-exclude-a", lambda: ProcessingPipeline(
        [ProcessingItem(ValueListPlaceholderTransformation(exclude=["a"]))],
        vars={"a": ["a1", "a2"], "b": ["b1", "b2"], "c": ["c1"]},
    )
    yield "valuelist-include-a+wildcard-rest", lambda: ProcessingPipeline(
        [
            ProcessingItem(ValueListPlaceholderTransformation(include=["a"])),
            ProcessingItem(WildcardPlaceholderTransformation()),
        ],
        vars={"a": ["a1", "a2"]},
    )
    yield "wildcard-exclude-b+valuelist", lambda: ProcessingPipeline(
        [
            ProcessingItem(WildcardPlaceholderTransformation(exclude=["b"])),
            ProcessingItem(ValueListPlaceholderTransformation()),
        ],
        vars={"b": ["x?y", "%a%", "\\*"]},
    )
    yield "valuelist-empty-list", lambda: ProcessingPipeline(
        [ProcessingItem(ValueListPlaceholderTransformation())],
        vars={"a": [], "b": ["b1"], "c": ["c1"]},
    )
    yield "valuelist-wrong-type", lambda: ProcessingPipeline(
        [ProcessingItem(ValueListPlaceholderTransformation())],
        vars={"a": ["a1", None], "b": {"k": "v"}, "c": [["nested"]]},
    )
    yield "valuelist-bool-and-number", lambda: ProcessingPipeline(
        [ProcessingItem(ValueListPlaceholderTransformation())],
        vars={"a": [True, 0], "b": 7, "c": 1.0},
    )
    yield "valuelist-missing-var", lambda: ProcessingPipeline(
        [ProcessingItem(ValueListPlaceholderTransformation())],
        vars={"zzz": ["1"]},
    )
    yield "queryexpr-all", lambda: ProcessingPipeline(
        [
            ProcessingItem(
                QueryExpressionPlaceholderTransformation(
                    expression="{field} lookup {id}", mapping={"a": "list_a", "c": ""}
                )
            )
        ]
    )
    yield "queryexpr-include-a+valuelist", lambda: ProcessingPipeline(
        [
            ProcessingItem(
                QueryExpressionPlaceholderTransformation(
                    expression="{field} in {id}", include=["a"]
                )
            ),
            ProcessingItem(ValueListPlaceholderTransformation()),
        ],
        vars={"b": ["b1", "b2"], "c": ["c1"]},
    )
    yield "queryexpr-exclude-a+wildcard", lambda: ProcessingPipeline(
        [
            ProcessingItem(
                QueryExpressionPlaceholderTransformation(
                    expression="{field} in {id}", exclude=["a"]
                )
            ),
            ProcessingItem(WildcardPlaceholderTransformation()),
        ],
    )


VALUES = [
    ("field|expand", '"%a%"'),
    ("field|expand", '"%b%"'),
    ("field|expand", '"%c%"'),
    ("field|expand", '"pre%a%mid%b%post"'),
    ("field|expand", '"%a%%b%%c%"'),
    ("field|expand", '"*%a%?lit\\\\%x\\\\%%b%"'),
    ("field|expand", '"100\\\\% %a"'),
    ("field|expand", '["%a%", "plain", "%b%x"]'),
    ("field|expand|contains", '"%a%-%b%"'),
    ("field|expand|startswith", '"%b%"'),
    ("field|expand|endswith", '"x%c%"'),
    ("field|expand|contains|all", '["%a%", "%b%", "lit"]'),
    ("field|contains|expand", '"%a%"'),
    ("field|re|expand", '"^%a%[0-9]+%b%$"'),
    ("field|re|expand", '"%c%"'),
    ("field|re|i|expand", '"foo\\\\%a\\\\%%a%"'),
    ("field|re|expand|contains", '"%b%"'),
    ("field", '"%a%"'),
    ("field|re", '"%a%"'),
]
KEYWORDS = [
    ("keywords-expand", "['%a%', 'lit%b%']"),
]

KEYWORD_RULE = """
title: Test
status: test
logsource:
    category: test_category
    product: test_product
detection:
    keywords:
        '|expand': {value}
    condition: keywords
"""

print("=== conversion grid ===")
for (pname, pfactory), (key, value) in itertools.product(list(pipelines()), VALUES):
    rule = RULE.format(key=key, value=value)
    show(
        f"[{pname}] {key}: {value}",
        lambda: TextQueryTestBackend(pfactory()).convert(SigmaCollection.from_yaml(rule)),
    )
for (pname, pfactory), (key, value) in itertools.product(list(pipelines()), KEYWORDS):
    rule = KEYWORD_RULE.format(value=value)
    show(
        f"[{pname}] {key}: {value}",
        lambda: TextQueryTestBackend(pfactory()).convert(SigmaCollection.from_yaml(rule)),
    )

print("=== configuration errors ===")
show("valuelist include+exclude", lambda: ValueListPlaceholderTransformation(["a"], ["b"]))
show(
    "queryexpr include+exclude",
    lambda: QueryExpressionPlaceholderTransformation(include=["a"], exclude=["b"], expression="x"),
)
show(
    "valuelist without pipeline",
    lambda: list(ValueListPlaceholderTransformation().placeholder_replacements(Placeholder("a"))),
)

print("=== is_handled_placeholder truth table ===")
for inc, exc in itertools.product([None, [], ["a"], ["a", "b"]], repeat=2):
    m = PlaceholderIncludeExcludeMixin()
    m.include, m.exclude = inc, exc  # both set is possible by assignment after construction
    row = [m.is_handled_placeholder(Placeholder(n)) for n in ("a", "b", "c")]
    print(f"include={inc} exclude={exc} -> {row} types={[type(r).__name__ for r in row]}")
m = PlaceholderIncludeExcludeMixin(include=["a"], exclude=5)
show("include hit, exclude not a container", lambda: m.is_handled_placeholder(Placeholder("a")))
show("include miss, exclude not a container", lambda: m.is_handled_placeholder(Placeholder("b")))

print("=== replace_placeholders: cross product order and callback call sequence ===")


def traced(table, calls):
    def callback(p):
        calls.append(p.name)
        for v in table[p.name]:
            calls.append(f"{p.name}->{v!r}")
            yield v

    return callback


TABLE = {
    "a": ["a1", SpecialChars.WILDCARD_MULTI, SigmaString("a*3")],
    "b": [Placeholder("b"), "b2"],
    "c": [],
    "d": [SpecialChars.WILDCARD_SINGLE],
}
for cls, parts in [
    (SigmaString, ["x", Placeholder("a"), "y", Placeholder("b"), SpecialChars.WILDCARD_MULTI]),
    (SigmaCasedString, [Placeholder("a"), Placeholder("b"), Placeholder("d")]),
    (SigmaString, [Placeholder("a"), "lit", Placeholder("c")]),
    (SigmaString, [Placeholder("c"), Placeholder("a")]),
    (SigmaString, ["no", SpecialChars.WILDCARD_SINGLE, "placeholder"]),
    (SigmaString, []),
]:
    s = cls()
    s.s = list(parts)
    calls = []
    res = s.replace_placeholders(traced(TABLE, calls))
    print(f"{cls.__name__}{parts}")
    print("   results:", [(type(r).__name__, r.s) for r in res])
    print("   same object returned:", len(res) == 1 and res[0] is s, "| input untouched:", s.s == parts)
    print("   calls:", calls)

for flags in (set(), {SigmaRegularExpressionFlag.IGNORECASE, SigmaRegularExpressionFlag.DOTALL}):
    r = SigmaRegularExpression("^%a%\\d%b%%d%$", set(flags)).insert_placeholders()
    calls = []
    res = r.replace_placeholders(traced(TABLE, calls))
    print("regex parts:", r.regexp.s)
    print("   results:", [(x.regexp.s, sorted(f.name for f in x.flags)) for x in res])
    print("   flags object shared:", [x.flags is r.flags for x in res])
    print("   calls:", calls)


def failing(p):
    yield "ok"
    raise RuntimeError(f"callback failed for {p.name}")


s = SigmaString("%a%-%b%").insert_placeholders()
show("callback raising midway", lambda: s.replace_placeholders(failing))

print("=== rendering guard ===")
for text in ["%a%", "x%a%y*", "100\\%", "\\%a\\%", "%a%%b%", "%%", "%a", "a%b c%d"]:
    s = SigmaString(text).insert_placeholders()
    print(f"string {text!r}: parts={s.s} plain={s.to_plain()!r}")
    show("   convert()", lambda: s.convert())
    show("   convert(no wildcards)", lambda: s.convert(wildcard_multi=None, wildcard_single=None))
    show(
        "   convert(filter+escape)",
        lambda: s.convert(escape_char=None, add_escaped="x%", filter_chars="y "),
    )
    show("   to_regex()", lambda: s.to_regex())
    try:
        r = SigmaRegularExpression(text).insert_placeholders()
    except SigmaError as e:
        print(f"   regex construction -> {type(e).__name__}: {e}")
        continue
    print(f"   regex parts={r.regexp.s} plain={r.to_plain()!r}")
    show("   escape()", lambda: r.escape())
    show("   escape(('a','%'), '!')", lambda: r.escape(("a", "%"), "!", False, False))
    show("   escape(bad escaped item)", lambda: r.escape((5,)))

odd = SigmaString("x")
odd.s = ["x", 42]
show("convert() of string with an alien part", lambda: odd.convert())
odd.s = [42, Placeholder("late")]
show("convert() alien part before placeholder", lambda: odd.convert())
odd.s = [Placeholder("first"), Placeholder("second")]
show("convert() two placeholders", lambda: odd.convert())
rx = SigmaRegularExpression("a")
rx.regexp.s = ["a", Placeholder("first"), Placeholder("second")]
show("escape() two placeholders", lambda: rx.escape())
rx.flags = {SigmaRegularExpressionFlag.MULTILINE, SigmaRegularExpressionFlag.IGNORECASE}
rx.regexp.s = ["a\\b/c"]
show("escape() with flags", lambda: rx.escape(("/",)))
show("escape() empty escape set", lambda: rx.escape((), "\\", False))

sys.exit(0)
