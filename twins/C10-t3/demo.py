"""Demo for t3: field mapping of group-by fields, alias targets and condition fields of correlation rules."""

import sys

from sigma.backends.test import TextQueryTestBackend
from sigma.collection import SigmaCollection
from sigma.correlations import SigmaCorrelationRule
from sigma.processing.conditions import (
    ExcludeFieldCondition,
    IncludeFieldCondition,
    IsSigmaCorrelationRuleCondition,
    IsSigmaRuleCondition,
    LogsourceCondition,
)
from sigma.processing.pipeline import ProcessingItem, ProcessingPipeline
from sigma.processing.transformations import (
    AddFieldnamePrefixTransformation,
    AddFieldnameSuffixTransformation,
    FieldFunctionTransformation,
    FieldMappingTransformation,
    FieldPrefixMappingTransformation,
)

BASE_RULES = """
title: Windows rule
name: win_rule
id: 5d8fd9da-6916-45ef-8d4d-3fa9d19d1a64
status: test
logsource:
    product: windows
    category: process_creation
fields:
    - user
    - src
detection:
    selection:
        user: admin
        src: 10.0.0.1
    condition: selection
---
title: Linux rule
name: lnx_rule
status: test
logsource:
    product: linux
    category: process_creation
fields:
    - account
detection:
    selection:
        account: root
        ip: 10.0.0.2
    condition: selection
---
"""

CORRELATIONS = {
    "event_count group-by": """
    type: event_count
    rules: [win_rule, lnx_rule]
    timespan: 5m
    group-by: [user, src, other]
    condition:
        gte: 10
""",
    "event_count no group-by": """
    type: event_count
    rules: [win_rule]
    timespan: 1h
    condition:
        lt: 3
""",
    "value_count aliases": """
    type: value_count
    rules: [win_rule, lnx_rule]
    timespan: 15m
    group-by: [who, src]
    aliases:
        who:
            win_rule: user
            lnx_rule: account
        where:
            win_rule: src
            lnx_rule: ip
    condition:
        field: where
        gt: 5
""",
    "value_count aliases by id": """
    type: value_count
    rules: [5d8fd9da-6916-45ef-8d4d-3fa9d19d1a64, lnx_rule]
    timespan: 15m
    group-by: [who]
    aliases:
        who:
            win_rule: user
            lnx_rule: account
    condition:
        field: src
        gt: 5
""",
    "value_count aliases without group-by": """
    type: value_count
    rules: [win_rule, lnx_rule]
    timespan: 15m
    aliases:
        who:
            win_rule: user
            lnx_rule: account
    condition:
        field: user
        lte: 5
""",
    "value_count field list": """
    type: value_count
    rules: [win_rule, lnx_rule]
    timespan: 2d
    group-by: [who]
    aliases:
        who:
            win_rule: user
            lnx_rule: account
    condition:
        field: [src, who, ip, unmapped]
        gte: 2
""",
    "value_sum": """
    type: value_sum
    rules: [win_rule]
    timespan: 1w
    group-by: [user]
    condition:
        field: src
        eq: 100
""",
    "value_avg": """
    type: value_avg
    rules: [lnx_rule]
    timespan: 1M
    group-by: [account, ip]
    condition:
        field: ip
        neq: 7
""",
    "value_percentile": """
    type: value_percentile
    rules: [win_rule, lnx_rule]
    timespan: 1y
    group-by: [user]
    condition:
        field: src
        percentile: 95
        gt: 1.5
""",
    "value_median": """
    type: value_median
    rules: [win_rule]
    timespan: 30s
    group-by: [src]
    fields: [user, src, extra]
    condition:
        field: user
        gte: 4
""",
    "temporal": """
    type: temporal
    rules: [win_rule, lnx_rule]
    timespan: 5m
    group-by: [who, src]
    aliases:
        who:
            win_rule: user
            lnx_rule: account
""",
    "temporal_ordered": """
    type: temporal_ordered
    rules: [lnx_rule, win_rule]
    timespan: 5m
    group-by: [user]
""",
    "temporal extended": """
    type: temporal
    condition: win_rule and not lnx_rule
    timespan: 5m
    group-by: [who, user]
    aliases:
        who:
            win_rule: user
            lnx_rule: account
""",
    "duplicate group-by": """
    type: event_count
    rules: [win_rule]
    timespan: 5m
    group-by: [user, user, src, user]
    condition:
        gte: 1
""",
}


def lower_to_upper(field):
    return field.upper() if field is not None else None


PIPELINES = {
    "none": lambda: ProcessingPipeline([]),
    "one-to-one": lambda: ProcessingPipeline(
        [
            ProcessingItem(
                FieldMappingTransformation(
                    {"user": "UserName", "account": "acct", "src": "SourceIp", "ip": "ip.addr"}
                ),
                identifier="map",
            )
        ]
    ),
    "group-by one-to-many": lambda: ProcessingPipeline(
        [ProcessingItem(FieldMappingTransformation({"other": ["other1", "other2"], "ip": "x"}))]
    ),
    "user one-to-many": lambda: ProcessingPipeline(
        [ProcessingItem(FieldMappingTransformation({"user": ["user1", "user2"]}))]
    ),
    "src one-to-many": lambda: ProcessingPipeline(
        [ProcessingItem(FieldMappingTransformation({"src": ["src1", "src2"]}))]
    ),
    "src one-to-one-list": lambda: ProcessingPipeline(
        [ProcessingItem(FieldMappingTransformation({"src": ["only_src"], "user": ["only_user"]}))]
    ),
    "src dropped": lambda: ProcessingPipeline(
        [ProcessingItem(FieldMappingTransformation({"src": []}))]
    ),
    "dropped in correlation only": lambda: ProcessingPipeline(
        [
            ProcessingItem(
                FieldMappingTransformation({"src": [], "ip": [], "user": []}),
                rule_conditions=[IsSigmaCorrelationRuleCondition()],
                identifier="drop",
            )
        ]
    ),
    "alias name mapped": lambda: ProcessingPipeline(
        [ProcessingItem(FieldMappingTransformation({"who": "WHO", "where": "WHERE", "user": "u"}))]
    ),
    "windows only": lambda: ProcessingPipeline(
        [
            ProcessingItem(
                FieldMappingTransformation({"user": "win.user", "src": "win.src", "ip": "win.ip"}),
                rule_conditions=[LogsourceCondition(product="windows")],
            )
        ]
    ),
    "linux only then all": lambda: ProcessingPipeline(
        [
            ProcessingItem(
                FieldMappingTransformation({"account": "lnx.account", "ip": "lnx.ip"}),
                rule_conditions=[LogsourceCondition(product="linux")],
            ),
            ProcessingItem(AddFieldnameSuffixTransformation(".keyword")),
        ]
    ),
    "plain rules only": lambda: ProcessingPipeline(
        [
            ProcessingItem(
                AddFieldnamePrefixTransformation("event."),
                rule_conditions=[IsSigmaRuleCondition()],
            )
        ]
    ),
    "correlation rules only": lambda: ProcessingPipeline(
        [
            ProcessingItem(
                AddFieldnamePrefixTransformation("corr."),
                rule_conditions=[IsSigmaCorrelationRuleCondition()],
            )
        ]
    ),
    "include field": lambda: ProcessingPipeline(
        [
            ProcessingItem(
                AddFieldnamePrefixTransformation("inc."),
                field_name_conditions=[IncludeFieldCondition(["user", "ip", "who"])],
            )
        ]
    ),
    "exclude field": lambda: ProcessingPipeline(
        [
            ProcessingItem(
                AddFieldnameSuffixTransformation("_x"),
                field_name_conditions=[ExcludeFieldCondition(["src", "account"])],
            )
        ]
    ),
    "prefix mapping": lambda: ProcessingPipeline(
        [ProcessingItem(FieldPrefixMappingTransformation({"us": "US", "s": ["s1.", "s2."]}))]
    ),
    "function": lambda: ProcessingPipeline(
        [
            ProcessingItem(
                FieldFunctionTransformation({"src": "source"}, lower_to_upper), identifier="func"
            )
        ]
    ),
    "chained": lambda: ProcessingPipeline(
        [
            ProcessingItem(FieldMappingTransformation({"user": "src", "src": "user"})),
            ProcessingItem(FieldMappingTransformation({"user": "USER2"})),
            ProcessingItem(AddFieldnamePrefixTransformation("p.")),
        ]
    ),
}


def describe(rule):
    if not isinstance(rule, SigmaCorrelationRule):
        return f"fields={rule.fields!r}"
    aliases = {
        alias.alias: {ref.reference: target for ref, target in alias.mapping.items()}
        for alias in rule.aliases
    }
    fieldref = getattr(rule.condition, "fieldref", "<no fieldref>")
    return (
        f"group_by={rule.group_by!r} aliases={aliases!r} fieldref={fieldref!r} "
        f"fields={rule.fields!r}"
    )


# 1. Conversion through a backend with a pipeline
for cname, correlation in CORRELATIONS.items():
    for pname, pipeline_factory in PIPELINES.items():
        label = f"[{cname} | {pname}]"
        collection = None
        try:
            collection = SigmaCollection.from_yaml(
                BASE_RULES + "title: Correlation\nstatus: test\ncorrelation:" + correlation
            )
            backend = TextQueryTestBackend(pipeline_factory())
            print(label, "queries:", repr(backend.convert(collection)))
            tracking = backend.last_processing_pipeline.field_name_applied_ids
            print(label, "tracked:", [(name, sorted(ids)) for name, ids in tracking.items()])
        except Exception as e:
            print(label, "error:", f"{type(e).__name__}: {e}")
        if collection is not None:
            for rule in collection.rules:
                print(label, "  after:", describe(rule))

# 2. Transformations applied directly (no processing item), rules not resolved
TRANSFORMATIONS = {
    "mapping": lambda: FieldMappingTransformation(
        {"user": "U", "account": "A", "src": ["S1", "S2"], "ip": [], "who": "WHO"}
    ),
    "suffix": lambda: AddFieldnameSuffixTransformation("!"),
}
for cname, correlation in CORRELATIONS.items():
    for tname, transformation_factory in TRANSFORMATIONS.items():
        for resolve in (False, True):
            label = f"[direct {cname} | {tname} | resolved={resolve}]"
            try:
                collection = SigmaCollection.from_yaml(
                    BASE_RULES + "title: Correlation\nstatus: test\ncorrelation:" + correlation
                )
                if resolve:
                    collection.resolve_rule_references()
                rule = collection.rules[-1]
                transformation = transformation_factory()
                try:
                    transformation.apply(rule)
                    print(label, "ok")
                except Exception as e:
                    print(label, "error:", f"{type(e).__name__}: {e}")
                print(label, "  after:", describe(rule))
            except Exception as e:
                print(label, "setup error:", f"{type(e).__name__}: {e}")

sys.exit(0)
