"""Exercises condition tree construction (selectors, identifiers, operator collapsing, parent
links) and the queries generated from it. Output must be identical before and after the patch."""

import sys

from sigma.backends.test import TextQueryTestBackend
from sigma.collection import SigmaCollection
from sigma.conditions import (
    ConditionAND,
    ConditionIdentifier,
    ConditionItem,
    ConditionNOT,
    ConditionOR,
    ConditionSelector,
    SigmaCondition,
)
from sigma.exceptions import SigmaError
from sigma.processing.conditions import IncludeFieldCondition
from sigma.processing.pipeline import ProcessingItem, ProcessingPipeline
from sigma.processing.transformations import DropDetectionItemTransformation
from sigma.rule import SigmaDetection, SigmaDetectionItem, SigmaDetections
from sigma.types import SigmaString

RULE = """
title: Demo
status: test
logsource:
    category: test
detection:
    sel1:
        fieldA: valueA
    sel2:
        fieldB|contains:
            - foo
            - bar
        fieldC: 1
    sel_list:
        - fieldD: x
        - fieldE|startswith: y
    sel_all:
        fieldF|contains|all:
            - a*b
            - c
    keywords:
        - kw1
        - "kw 2"
    filter_main:
        fieldG: null
    filter_opt:
        fieldH|endswith: .exe
    _hidden:
        fieldI: secret
    single:
        fieldJ:
            - only
    condition: {condition}
"""

CONDITIONS = [
    "sel1",
    "sel1 and sel2",
    "sel1 or sel2 and not sel_list",
    "(sel1 or sel2) and not (sel_list or keywords)",
    "not not sel1",
    "not (sel1 and not sel2)",
    "1 of sel*",
    "all of sel*",
    "any of sel*",
    "1 of them",
    "all of them",
    "1 of sel1",
    "all of single",
    "1 of sel* and not 1 of filter_*",
    "all of sel* or not all of filter_*",
    "not 1 of filter_* and (keywords or 1 of sel_l*)",
    "1 of _*",
    "all of _hid*",
    "1 of nomatch*",
    "undefined_detection",
    "sel1 and undefined_detection",
    "2 of sel*",
    "sel1 and",
    "sel1 | count() > 1",
    "sel1 and (sel2 or (sel_list and (keywords or (filter_main and not filter_opt))))",
    "1 of sel1 or 1 of sel2 or 1 of single",
    "all of sel1 and all of sel2 and all of single",
]


def show_tree(node, indent=0):
    """Print condition tree with the classes of the parent chain of every node."""
    pad = "  " * indent
    if node is None:
        print(pad + "None")
        return
    chain = [c.__name__ for c in node.parent_chain_classes()]
    ops = [c.__name__ for c in node.parent_chain_condition_classes()]
    if isinstance(node, ConditionItem):
        print(f"{pad}{type(node).__name__} chain={chain} ops={ops}")
        for arg in node.args:
            show_tree(arg, indent + 1)
    else:
        field = getattr(node, "field", None)
        print(f"{pad}{type(node).__name__}({field!r}, {node.value!r}) chain={chain} ops={ops}")


def convert_all(backend_factory, label):
    print(f"==== backend: {label}")
    for cond in CONDITIONS:
        try:
            rules = SigmaCollection.from_yaml(RULE.format(condition=cond))
            print(f"{cond!r} -> {backend_factory().convert(rules)}")
        except SigmaError as e:
            print(f"{cond!r} -> {type(e).__name__}: {e}")
        except NotImplementedError as e:
            print(f"{cond!r} -> NotImplementedError: {e}")


def trees():
    print("==== condition trees")
    rule = SigmaCollection.from_yaml(RULE.format(condition="sel1")).rules[0]
    detections = rule.detection
    for cond in CONDITIONS:
        print(f"-- {cond!r}")
        try:
            show_tree(SigmaCondition(cond, detections).parsed)
        except SigmaError as e:
            print(f"   {type(e).__name__}: {e}")


def direct_objects():
    print("==== direct construction")
    for args in (
        ["1", "sel*"],
        ["any", "them"],
        ["all", "x*y"],
        ["2", "sel*"],
        ["ALL", "sel*"],
        ["", "sel*"],
        [["any"], "sel*"],
        [1, "sel*"],
        [None, "sel*"],
    ):
        try:
            sel = ConditionSelector(args)
            print(f"{args!r} -> cond_class={sel.cond_class.__name__} pattern={sel.pattern!r} repr={sel!r}")
        except Exception as e:
            print(f"{args!r} -> {type(e).__name__}: {e}")

    detections = SigmaDetections(
        {
            name: SigmaDetection([SigmaDetectionItem("f", [], [SigmaString(name)])])
            for name in (
                "sel_a",
                "sel_b",
                "other",
                "_under",
                "_filt_abc_sel",
                "_filt_abc_x",
                "a.b",
                "ab",
            )
        },
        ["sel_a"],
    )
    for pattern in (
        "them",
        "sel_*",
        "*",
        "_*",
        "_filt_*",
        "_filt_abc_*",
        "_f*",
        "*sel*",
        "a.b",
        "other",
        "nothing*",
        "sel_a",
    ):
        sel = ConditionSelector(["1", pattern])
        ids = sel.resolve_referenced_detections(detections)
        print(f"pattern {pattern!r} -> {[i.identifier for i in ids]}")
        try:
            show_tree(ConditionSelector(["all", pattern]).postprocess(detections))
        except SigmaError as e:
            print(f"   {type(e).__name__}: {e}")

    # Operator collapsing with None arguments and empty detections
    empty = SigmaDetection([SigmaDetectionItem("f", [], [SigmaString("dropped")])])
    empty.detection_items.clear()  # what DropDetectionItemTransformation leaves behind
    one = SigmaDetection([SigmaDetectionItem("f", [], [SigmaString("v")])])
    two = SigmaDetection(
        [
            SigmaDetectionItem("f", [], [SigmaString("v")]),
            SigmaDetectionItem("g", [], [SigmaString("w"), SigmaString("x")]),
        ]
    )
    lst = SigmaDetection([one, two])
    dets = SigmaDetections({"empty": empty, "one": one, "two": two, "lst": lst}, ["one"])
    for cond in (
        "empty",
        "not empty",
        "one and empty",
        "empty and empty",
        "one or empty or two",
        "not (empty or empty)",
        "not (one and empty)",
        "lst and not two",
        "1 of e*",
        "all of *",
        "(one and empty) or (empty and two)",
    ):
        print(f"-- {cond!r}")
        try:
            show_tree(SigmaCondition(cond, dets).parsed)
        except SigmaError as e:
            print(f"   {type(e).__name__}: {e}")

    for cls in (ConditionAND, ConditionOR, ConditionNOT):
        for args in ([], [None], [None, None], [ConditionIdentifier(["one"]), None]):
            node = cls(list(args))
            parent = ConditionNOT([node])
            result = node.postprocess(dets, parent)
            print(
                f"{cls.__name__}({len(args)} args) -> "
                f"{type(result).__name__} same={result is node} args_left={len(node.args)} "
                f"parent_is_given={getattr(result, 'parent', None) is parent}"
            )


def main():
    trees()
    direct_objects()
    convert_all(TextQueryTestBackend, "default")

    class OrPrecedenceBackend(TextQueryTestBackend):
        precedence = (ConditionNOT, ConditionOR, ConditionAND)
        token_separator = "  "

    convert_all(OrPrecedenceBackend, "OR binds tighter than AND")

    class NoInBackend(TextQueryTestBackend):
        convert_or_as_in = False
        convert_and_as_in = False
        parenthesize = True

    convert_all(NoInBackend, "no in-expressions, parenthesize")

    class NotEqBackend(TextQueryTestBackend):
        convert_not_as_not_eq = True

    convert_all(NotEqBackend, "NOT as not-equals")

    def dropping():
        return TextQueryTestBackend(
            ProcessingPipeline(
                [
                    ProcessingItem(
                        DropDetectionItemTransformation(),
                        field_name_conditions=[
                            IncludeFieldCondition(["fieldA", "fieldG", "fieldD", "fieldE"])
                        ],
                    )
                ]
            )
        )

    convert_all(dropping, "pipeline dropping fieldA/fieldG/fieldD/fieldE")


if __name__ == "__main__":
    main()
    sys.exit(0)
