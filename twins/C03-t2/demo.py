"""
Demo for t2: wildcard-adding modifiers contains/startswith/endswith.

Builds detection items with SigmaDetectionItem.from_mapping() for strings (with and without
wildcards already present, escaped wildcards, backslashes), regular expressions (anchored,
escaped tails), field references, expansions and inadmissible values and prints value, value
linking and negation or the raised exception class and message.
"""

import itertools
import sys

from sigma.exceptions import SigmaError
from sigma.modifiers import (
    SigmaContainsModifier,
    SigmaEndswithModifier,
    SigmaStartswithModifier,
    SigmaValueModifier,
    modifier_mapping,
    reverse_modifier_mapping,
)
from sigma.rule import SigmaDetectionItem
from sigma.types import (
    SigmaCasedString,
    SigmaExpansion,
    SigmaFieldReference,
    SigmaNumber,
    SigmaRegularExpression,
    SigmaString,
)


def describe(v):
    """Description of a value that shows class and content, recursively."""
    if isinstance(v, list):
        return "[" + ", ".join(describe(i) for i in v) + "]"
    if isinstance(v, SigmaExpansion):
        return "Expansion" + describe(v.values)
    if isinstance(v, SigmaString):
        return f"{type(v).__name__}({v.s!r}, original={v.original!r})"
    if isinstance(v, SigmaRegularExpression):
        return (
            f"Re({type(v.regexp).__name__}{v.regexp.s!r}, original={v.regexp.original!r}, "
            f"{sorted(f.name for f in v.flags)})"
        )
    return repr(v)


def run(key, value):
    try:
        item = SigmaDetectionItem.from_mapping(key, value)
    except SigmaError as e:
        return f"{type(e).__name__}: {e}"
    try:
        plain = item.to_plain()
    except SigmaError as e:
        plain = f"{type(e).__name__}"
    return (
        f"value={describe(item.value)} linking={item.value_linking.__name__} "
        f"negated={item.negated} original={describe(item.original_value)} plain={plain!r}"
    )


STRINGS = [
    "abc",
    "",
    "*",
    "**",
    "?",
    "*abc",
    "abc*",
    "*abc*",
    "?abc?",
    "a*c",
    "\\*abc\\*",
    "\\\\*abc\\\\*",
    "abc\\",
    "\\abc",
    "abc\\\\",
    "päß–ö",
    "%var%",
    "-param /x",
    " leading and trailing ",
]

REGEXPS = [
    "abc",
    "",
    ".*",
    ".*abc",
    "abc.*",
    ".*abc.*",
    "^abc",
    "abc$",
    "^abc$",
    "abc\\$",
    "abc\\\\$",
    "abc\\\\\\$",
    "abc\\.*",
    "abc\\\\.*",
    "abc.\\*",
    "\\.*abc",
    "\\^abc",
    ".+abc.+",
    "*abc",
    "a?b*c",
    "(?i)abc",
    "abc(",
    "abc\\",
    "%var%abc",
    "abc|def$",
    "$",
    "^",
    ".",
]

OTHER = [1, 2.5, True, None, ["abc", "*def", 5], ["abc", None], [], ["x*", "*y", "*z*"]]

WILDCARD_MODS = ("contains", "startswith", "endswith")


def string_chains():
    yield from ((m,) for m in WILDCARD_MODS)
    yield from itertools.product(WILDCARD_MODS, repeat=2)
    yield from (
        ("contains", "all"),
        ("all", "endswith"),
        ("neq", "startswith"),
        ("cased", "contains"),
        ("endswith", "cased"),
        ("windash", "contains"),
        ("contains", "windash"),
        ("base64offset", "contains"),
        ("wide", "base64offset", "contains", "all"),
        ("expand", "startswith"),
        ("startswith", "expand"),
        ("fieldref", "contains"),
        ("fieldref", "startswith"),
        ("fieldref", "endswith"),
        ("fieldref", "endswith", "startswith"),
        ("contains", "fieldref"),
        ("contains", "re"),
        ("contains", "base64"),
        ("lt", "contains"),
        ("exists", "endswith"),
        ("cidr", "startswith"),
    )


def regexp_chains():
    for m in WILDCARD_MODS:
        yield ("re", m)
        yield ("re", "i", m)
        yield ("re", m, "s")
    yield ("re", "contains", "contains")
    yield ("re", "startswith", "endswith")
    yield ("re", "endswith", "startswith")
    yield ("re", "expand", "contains")
    yield ("re", "contains", "expand")
    yield ("re", "contains", "all", "neq")


def direct_calls():
    """Direct use of the modifier classes without a detection item built from a mapping."""
    item = SigmaDetectionItem("f", [], [SigmaString("x")])
    for cls in (SigmaContainsModifier, SigmaStartswithModifier, SigmaEndswithModifier):
        print(
            cls.__name__,
            "value modifier:",
            issubclass(cls, SigmaValueModifier),
            "id:",
            reverse_modifier_mapping[cls.__name__],
            "mapped:",
            modifier_mapping[reverse_modifier_mapping[cls.__name__]] is cls,
            "doc:",
            cls.__doc__,
        )
        mod = cls(item, [])
        s = SigmaString("abc")
        r = mod.modify(s)
        print("  given string untouched:", describe(s), "->", describe(r), "same object:", r is s)
        s = SigmaString("*abc*")
        r = mod.modify(s)
        print("  wildcards present:", describe(r), "same object:", r is s)
        c = SigmaCasedString("abc")
        print("  cased:", describe(mod.modify(c)))
        ref = SigmaFieldReference("other")
        r = mod.modify(ref)
        print("  fieldref:", r, "same object:", r is ref)
        ref = SigmaFieldReference("other", True, True)
        print("  fieldref set:", mod.modify(ref))
        regexp = SigmaRegularExpression("abc")
        r = mod.modify(regexp)
        print("  regexp:", describe(r), "same object:", r is regexp)
        print("  type checks:", [mod.type_check(v) for v in (s, c, ref, regexp, SigmaNumber(1), [s])])
        exp = SigmaExpansion([SigmaString("a*"), SigmaExpansion([SigmaString("*b")])])
        print("  expansion:", describe(mod.apply(exp)))
        for bad in (SigmaNumber(1), [SigmaString("a")]):
            try:
                mod.apply(bad)
            except SigmaError as e:
                print(f"  {type(e).__name__}: {e}")


def main():
    for value in STRINGS + OTHER:
        for chain in string_chains():
            for field in ("field", ""):
                key = "|".join((field,) + chain)
                print(f"{key!r} {value!r} -> {run(key, value)}")
    for value in REGEXPS + [["abc", "^def$"], ["abc", 1]]:
        for chain in regexp_chains():
            key = "|".join(("field",) + chain)
            print(f"{key!r} {value!r} -> {run(key, value)}")
    direct_calls()
    return 0


if __name__ == "__main__":
    sys.exit(main())
