"""Demo for property C03: values, value linking and negation produced by modifier chains.

Prints for every (value, chain) pair what SigmaDetectionItem.from_mapping stores, or the
class, message and source of the raised Sigma error.
"""
import itertools
import sys

from sigma.exceptions import SigmaError, SigmaRuleLocation
from sigma.modifiers import (
    SigmaBase64Modifier,
    SigmaBase64OffsetModifier,
    SigmaCIDRModifier,
    SigmaContainsModifier,
    SigmaExistsModifier,
    SigmaRegularExpressionModifier,
    modifier_mapping,
)
from sigma.rule import SigmaDetectionItem
from sigma.types import Placeholder, SigmaBool, SigmaString, SpecialChars

SOURCE = SigmaRuleLocation("/rules/demo_rule.yml", 3, 7)

VALUES = [
    "plain",
    "",
    "*already*",
    "with*wild?card",
    r"esc\*aped\?",
    r"back\\slash\\",
    "trailing\\",
    "-param /flag -x/y a-b",
    "–dash —dash",
    "%user% and \\%not\\% and %%",
    "100%",
    "grüße 日本",
    "lone\ud800surrogate",
    "192.168.0.0/16",
    "fe80::/10",
    "fe80::1%eth0/128",
    "10.0.0.1/33",
    "a.*b$",
    "^foo(bar",
    "foo\\",
    0,
    -7,
    3.5,
    2**60,
    True,
    False,
    None,
    ["a", "b*", 3],
    ["x", None],
    [],
    [True],
]

SINGLE = sorted(modifier_mapping)
CHAINS = [()] + [(m,) for m in SINGLE]
# every ordered pair with one of the "unmodified value only" modifiers or base64 in it
FOCUS = ["re", "cidr", "exists", "base64", "base64offset"]
for f in FOCUS:
    for m in SINGLE:
        CHAINS.append((m, f))
        CHAINS.append((f, m))
CHAINS += [
    ("all", "neq", "re"),
    ("neq", "all", "cidr"),
    ("all", "exists"),
    ("expand", "base64"),
    ("expand", "base64offset", "contains"),
    ("wide", "base64offset", "contains", "all"),
    ("utf16", "base64"),
    ("windash", "base64"),
    ("windash", "contains", "all"),
    ("contains", "base64"),
    ("cased", "cidr"),
    ("re", "i", "m", "s"),
    ("re", "contains", "expand"),
    ("re", "re"),
    ("cidr", "cidr"),
    ("exists", "exists"),
    ("base64", "base64", "base64offset"),
    ("startswith", "endswith", "windash", "cased"),
    ("lt", "gt"),
    ("minute", "gte"),
]
seen = set()
CHAINS = [c for c in CHAINS if not (c in seen or seen.add(c))]


def show(field, chain, value):
    key = "|".join([field, *chain])
    try:
        item = SigmaDetectionItem.from_mapping(key, value, source=SOURCE)
    except SigmaError as e:
        out = f"{type(e).__name__}: {e} [source={e.source}] cause={type(e.__cause__).__name__}"
    else:
        out = f"value={item.value!r} linking={item.value_linking.__name__} negated={item.negated}"
    print(f"{key!r} <- {value!r}: {out}".encode("unicode_escape").decode("ascii"))


count = 0
for value, chain in itertools.product(VALUES, CHAINS):
    show("field", chain, value)
    count += 1
# keyword detections (no field): exists must be refused before the chain is looked at
for value in (True, False, "x", "10.0.0.0/8"):
    for chain in (("exists",), ("all", "exists"), ("contains", "cidr"), ("neq", "re"), ("base64",)):
        show("", chain, value)
        count += 1


# Direct use of the modifier classes, also with sequences other than a fresh list
class Item:
    field = "f"


def direct(cls, applied, val, source=SOURCE):
    try:
        out = repr(cls(Item(), applied, source).modify(val))
    except SigmaError as e:
        out = f"{type(e).__name__}: {e} [source={e.source}]"
    print(f"{cls.__name__} applied={applied!r} val={val!r}: {out}".encode("unicode_escape").decode("ascii"))


with_placeholder = SigmaString("a") + Placeholder("p") + "b"
with_both = SigmaString("a*") + Placeholder("p")
for applied in ([], [SigmaContainsModifier], [SigmaContainsModifier, SigmaBase64Modifier]):
    direct(SigmaRegularExpressionModifier, applied, SigmaString("a.*"))
    direct(SigmaRegularExpressionModifier, applied, SigmaString("a.*"), None)
    direct(SigmaCIDRModifier, applied, SigmaString("10.0.0.0/8"))
    direct(SigmaCIDRModifier, applied, SigmaString("10.0.0.0/40"))
    direct(SigmaExistsModifier, applied, SigmaBool(True))
    for b64 in (SigmaBase64Modifier, SigmaBase64OffsetModifier):
        direct(b64, applied, SigmaString("foo bar"))
        direct(b64, applied, with_placeholder)
        direct(b64, applied, with_both, None)
        direct(b64, applied, SigmaString("\udcff"))
        direct(b64, applied, SigmaString(""))

print("cases:", count)
sys.exit(0)
