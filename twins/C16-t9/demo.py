"""Demo for C16/t9: which keys of a processing item definition reach the transformation
constructor, and where the capability flags of instantiated items come from.

Run: PYTHONPATH=/tmp/wt10-C16 /venv/bin/python demo.py
Output must be identical on clean HEAD and with patch.diff applied.
"""

import copy
import os
import sys
import shutil
import types

from sigma.backends.test import TextQueryTestBackend
from sigma.collection import SigmaCollection
from sigma.exceptions import SigmaConfigurationError, SigmaSecurityError
from sigma.processing.pipeline import (
    ProcessingItem,
    ProcessingItemBase,
    ProcessingPipeline,
    QueryPostprocessingItem,
)
from sigma.processing.templates import TemplateBase
from sigma.processing.transformations.external import ExternalSourceBaseTransformation

for name in ("PYSIGMA_ALLOW_EXTERNAL_SOURCES", "PYSIGMA_ALLOW_VARS_EXECUTION"):
    os.environ.pop(name, None)

tmp = os.path.join(os.path.dirname(os.path.abspath(__file__)), "scratch_c16t9")
shutil.rmtree(tmp, ignore_errors=True)
os.makedirs(tmp)
marker = os.path.join(tmp, "marker")
values_file = os.path.join(tmp, "values.txt")
with open(values_file, "w") as f:
    f.write("alpha\nbeta\n")
vars_file = os.path.join(tmp, "vars.py")
with open(vars_file, "w") as f:
    f.write(f"open({marker!r}, 'w').write('executed')\nvars = {{'x': 1}}\n")


def show(label, fn):
    try:
        result = fn()
    except BaseException as e:  # noqa: the class and message are the observation
        ctx = type(e.__context__).__name__ if e.__context__ is not None else None
        cause = type(e.__cause__).__name__ if e.__cause__ is not None else None
        msg = str(e).replace(tmp, "<TMP>")
        line = f"{label}: RAISED {type(e).__name__}: {msg} [context={ctx} cause={cause}]"
        print(line.replace(tmp, "<TMP>"))
        return None
    print(f"{label}: {result}".replace(tmp, "<TMP>"))
    return result


# ---------------------------------------------------------------------------------------------
# 1. Parameters that reach the constructor, recorded by stand-in classes.
# ---------------------------------------------------------------------------------------------
class Recorder:
    def __init__(self, **kwargs):
        self.kwargs = kwargs

    def __repr__(self):
        return f"{type(self).__name__}({list(self.kwargs.items())!r})"


class TemplateRecorder(Recorder, TemplateBase):
    pass


class ExternalRecorder(Recorder, ExternalSourceBaseTransformation):
    def _fetch_data(self):
        return ""


class BothRecorder(Recorder, TemplateBase, ExternalSourceBaseTransformation):
    def _fetch_data(self):
        return ""


table = {
    "plain": Recorder,
    "tpl": TemplateRecorder,
    "ext": ExternalRecorder,
    "both": BothRecorder,
    7: Recorder,
}

reserved = [
    f"{scope}_{suffix}"
    for scope in ("rule", "detection_item", "field_name")
    for suffix in ("conditions", "cond_expr", "cond_op", "cond_not")
] + ["type", "id", "allow_template_vars", "vars_allowed_paths", "allow_external_sources"]
near_misses = [
    "rule_condition",
    "rule_cond",
    "rule_cond_nots",
    "detection_item_cond",
    "field_name_cond_ops",
    "fieldname_conditions",
    "Type",
    "ID",
    "allow_template_var",
    "allow_external_source",
    "vars_allowed_path",
    "Allow_External_Sources",
    "rule_detection_item_conditions",
    "field_name",
    "conditions",
    "cond_expr",
    "_cond_op",
]

print("== 1a. each reserved key alone (never a parameter), each near miss (always a parameter)")
for typ in ("plain", "tpl", "ext", "both"):
    for key in reserved + near_misses:
        d = {"a": 1, key: "INJECTED", "type": typ, "z": 2}
        before = copy.deepcopy(d)
        r = show(
            f"{typ:5} {key:32}",
            lambda: ProcessingItemBase._instantiate_transformation(d, table),
        )
        assert d == before and list(d) == list(before), "definition dict was modified"

print("== 1b. all reserved keys at once, caller capabilities on/off, order of parameters")
everything = {"first": 0}
for key in reserved:
    everything[key] = True
everything["type"] = "both"
everything["last"] = 9
for caps in (
    {},
    {"allow_template_vars": True},
    {"vars_allowed_paths": ("/x", "/y")},
    {"allow_external_sources": True},
    {"allow_template_vars": True, "vars_allowed_paths": (), "allow_external_sources": True},
):
    for typ in ("plain", "tpl", "ext", "both"):
        d = dict(everything, type=typ)
        show(
            f"{typ:5} caps={caps}",
            lambda: ProcessingItemBase._instantiate_transformation(d, table, **caps),
        )

print("== 1c. unusual definitions")
unusual = {
    "empty": {},
    "only id": {"id": "x"},
    "type None": {"type": None},
    "type unknown": {"type": "nope", "allow_external_sources": True},
    "type int in table": {"type": 7, "k": "v"},
    "type int not in table": {"type": 8},
    "type unhashable": {"type": ["plain"]},
    "type dict": {"type": {"a": 1}},
    "non-string keys": {"type": "plain", 1: "one", None: "none", ("t",): "tuple"},
    "non-string keys + reserved": {"type": "plain", 1: "one", "id": "x", "rule_cond_not": 1},
    "values are containers": {"type": "ext", "allow_external_sources": [1], "p": {"q": [1]}},
    "mapping proxy": types.MappingProxyType({"type": "tpl", "id": "i", "p": 1}),
}
for label, d in unusual.items():
    show(f"{label:28}", lambda: ProcessingItemBase._instantiate_transformation(d, table))
show(
    "default dict keeps its keys ",
    lambda: (
        lambda dd: (
            str(show("  inner", lambda: ProcessingItemBase._instantiate_transformation(dd, table))),
            sorted(dd),
        )
    )(__import__("collections").defaultdict(list, {"p": 1})),
)

print("== 1d. errors of the real transformation classes")
from sigma.processing.transformations import transformations as real_transformations

for label, d in {
    "unexpected parameter": {"type": "file_placeholders", "path": "p", "bogus": 1},
    "two unexpected parameters": {"type": "add_condition", "zzz": 1, "aaa": 2, "conditions": {}},
    "missing parameter": {"type": "field_name_mapping"},
    "configuration error inside": {"type": "file_placeholders", "path": ""},
    "bad format + injected key": {
        "type": "command_placeholders",
        "cmd": "id",
        "format": "xml",
        "allow_external_sources": True,
    },
    "non-string key": {"type": "drop_detection_item", 5: 1},
    "capability key on unrelated transformation": {
        "type": "drop_detection_item",
        "allow_external_sources": True,
        "allow_template_vars": True,
        "vars_allowed_paths": ["/"],
    },
}.items():
    show(
        f"{label:44}",
        lambda: ProcessingItemBase._instantiate_transformation(d, real_transformations),
    )

# ---------------------------------------------------------------------------------------------
# 2. Items and whole pipelines: flags on the instances and behaviour at conversion time.
# ---------------------------------------------------------------------------------------------
INJECT = {"allow_external_sources": True, "allow_template_vars": True, "vars_allowed_paths": ["/"]}

print("== 2a. ProcessingItem.from_dict / QueryPostprocessingItem.from_dict")
for label, d in {
    "file": {"type": "file_placeholders", "path": values_file, "id": "f"},
    "http": {"type": "http_placeholders", "url": "http://127.0.0.1:9/x", "rule_cond_op": "and"},
    "command": {"type": "command_placeholders", "cmd": f"touch {marker}", "field_name_cond_not": True},
}.items():
    for caller in (False, True):
        item = show(
            f"{label:8} caller={caller!s:5}",
            lambda: ProcessingItem.from_dict(
                dict(d, **INJECT), allow_external_sources=caller
            ).transformation,
        )
        if item is not None:
            print("   flag:", item.allow_external_sources, "gate:", item._external_sources_allowed())
for caller in ({}, {"allow_template_vars": True, "vars_allowed_paths": (tmp,)}):
    item = show(
        f"template caller={caller}",
        lambda: QueryPostprocessingItem.from_dict(
            dict({"type": "template", "template": "{{ query }}", "id": "t"}, **INJECT), **caller
        ).transformation,
    )
    if item is not None:
        print("   flags:", item.allow_template_vars, item.vars_allowed_paths)
    show(
        f"template+vars caller={caller}",
        lambda: QueryPostprocessingItem.from_dict(
            dict({"type": "template", "template": "{{ x }}", "vars": vars_file}, **INJECT), **caller
        ).transformation.vars_allowed_paths,
    )
    print("   vars file executed:", os.path.exists(marker))
    if os.path.exists(marker):
        os.remove(marker)

print("== 2b. pipeline documents with injected keys, converted with the text backend")
RULE = """
title: Test
status: test
logsource:
    category: test
detection:
    sel:
        field|expand: "%thing%"
    condition: sel
"""


def flags(pipeline):
    out = []

    def walk_items(items, depth):
        for it in items:
            t = it.transformation
            entry = [depth, type(t).__name__]
            if isinstance(t, ExternalSourceBaseTransformation):
                entry.append(("ext", t.allow_external_sources))
            if isinstance(t, TemplateBase):
                entry.append(("tpl", t.allow_template_vars, t.vars_allowed_paths))
            out.append(tuple(entry))
            nested = getattr(t, "_nested_pipeline", None)
            if nested is not None:
                walk_items(nested.items, depth + 1)
                walk_items(nested.postprocessing_items, depth + 1)

    def walk_finalizers(fs, depth):
        for fin in fs:
            entry = [depth, type(fin).__name__]
            if isinstance(fin, TemplateBase):
                entry.append(("tpl", fin.allow_template_vars, fin.vars_allowed_paths))
            out.append(tuple(entry))
            nested = getattr(fin, "_nested_pipeline", None)
            if nested is not None:
                walk_finalizers(nested.finalizers, depth + 1)

    walk_items(pipeline.items, 0)
    walk_items(pipeline.postprocessing_items, 0)
    walk_finalizers(pipeline.finalizers, 0)
    return out


def document(source_item, with_vars=False):
    return {
        "name": "doc",
        "priority": 10,
        "transformations": [
            dict(source_item, **INJECT),
            {
                "type": "nest",
                "id": "outer",
                **INJECT,
                "items": [
                    {
                        "type": "nest",
                        **INJECT,
                        "items": [dict(source_item, id="deep", **INJECT)],
                    }
                ],
            },
        ],
        "postprocessing": [
            {"type": "template", "template": "[{{ query }}]", **INJECT},
            {"type": "template", "template": "<{{ query }}>", "vars": vars_file, **INJECT}
            if with_vars
            else {"type": "embed", "prefix": "<", "suffix": ">", **INJECT},
        ],
        "finalizers": [
            {"type": "template", "template": "{{ queries | join('|') }}", **INJECT},
            {
                "type": "nested",
                **INJECT,
                "finalizers": [dict({"type": "concat", "separator": "+"}, **INJECT)],
            },
        ],
    }


sources = {
    "file": {"type": "file_placeholders", "path": values_file, "include": ["thing"]},
    "command": {"type": "command_placeholders", "cmd": f"touch {marker}; echo gamma"},
    "http": {"type": "http_placeholders", "url": "http://127.0.0.1:9/none", "timeout": 1},
}
for env in (None, "0", "1", "TRUE"):
    if env is None:
        os.environ.pop("PYSIGMA_ALLOW_EXTERNAL_SOURCES", None)
    else:
        os.environ["PYSIGMA_ALLOW_EXTERNAL_SOURCES"] = env
    for src_name, src in sources.items():
        for caller in ({}, {"allow_external_sources": True}, {"allow_template_vars": True}):
            label = f"env={env} {src_name} caller={caller}"
            pipeline = show(
                label + " load ",
                lambda: flags(ProcessingPipeline.from_dict(copy.deepcopy(document(src)), **caller)),
            )

            def convert():
                p = ProcessingPipeline.from_dict(copy.deepcopy(document(src)), **caller)
                return TextQueryTestBackend(p).convert(SigmaCollection.from_yaml(RULE))

            if src_name == "http" and (caller.get("allow_external_sources") or env in ("1", "TRUE")):
                # would really try to connect; only the exception class matters here
                try:
                    convert()
                    print(label + " convert: no error")
                except Exception as e:
                    print(label + " convert: RAISED", type(e).__name__)
            else:
                show(label + " convert", convert)
            print("   command ran:", os.path.exists(marker))
            if os.path.exists(marker):
                os.remove(marker)
os.environ.pop("PYSIGMA_ALLOW_EXTERNAL_SOURCES", None)

print("== 2c. YAML documents: keys at the top level and error positions")
for label, text in {
    "top level opt-in": "allow_external_sources: true\ntransformations: []\n",
    "missing type": "transformations:\n  - id: a\n    allow_external_sources: true\n",
    "unknown type": "transformations:\n  - type: file_placeholders\n    path: x\n  - type: exec\n",
    "bad parameter": "postprocessing:\n  - type: template\n    template: a\n    allow: true\n",
    "nest in postprocessing": (
        "postprocessing:\n  - type: nest\n    allow_template_vars: true\n    items:\n"
        "      - type: template\n        template: a\n        allow_template_vars: true\n"
    ),
    "yaml injected": (
        "transformations:\n"
        "  - type: command_placeholders\n"
        f"    cmd: touch {marker}\n"
        "    allow_external_sources: yes\n"
        "    rule_cond_op: or\n"
    ),
}.items():
    show(
        f"{label:18}",
        lambda: flags(ProcessingPipeline.from_yaml(text, source_path=os.path.join(tmp, "p.yml"))),
    )
print("== 2d. vars file named by the document")
for env in (None, "1"):
    if env is None:
        os.environ.pop("PYSIGMA_ALLOW_VARS_EXECUTION", None)
    else:
        os.environ["PYSIGMA_ALLOW_VARS_EXECUTION"] = env
    for caller in (
        {},
        {"allow_template_vars": True},
        {"allow_template_vars": True, "vars_allowed_paths": (tmp,)},
        {"allow_template_vars": True, "vars_allowed_paths": (os.path.join(tmp, "sub"),)},
        {"vars_allowed_paths": (os.path.join(tmp, "sub"),)},
    ):
        show(
            f"env={env} caller={caller}",
            lambda: flags(
                ProcessingPipeline.from_dict(document(sources["file"], with_vars=True), **caller)
            ),
        )
        print("   vars file executed:", os.path.exists(marker))
        if os.path.exists(marker):
            os.remove(marker)
os.environ.pop("PYSIGMA_ALLOW_VARS_EXECUTION", None)
print("marker exists at end:", os.path.exists(marker))
shutil.rmtree(tmp)
sys.exit(0)
