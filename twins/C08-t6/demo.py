"""
Demo for property C08: conversion of rule collections in which some rules fail, compared with
conversion of every rule alone. Prints everything observed; output must be identical on clean HEAD
and with out/t6/patch.diff applied.
"""

import itertools
import sys

from sigma.backends.test import TextQueryTestBackend
from sigma.collection import SigmaCollection
from sigma.exceptions import SigmaError
from sigma.processing.conditions import IncludeFieldCondition, RuleContainsDetectionItemCondition
from sigma.processing.pipeline import ProcessingItem, ProcessingPipeline
from sigma.processing.transformations import (
    DetectionItemFailureTransformation,
    FieldMappingTransformation,
    RuleFailureTransformation,
    SetStateTransformation,
)
from sigma.rule import SigmaRule


def rule_yaml(title, detection, condition):
    lines = [
        f"title: {title}",
        "status: test",
        "logsource:",
        "    category: test_category",
        "    product: test_product",
        "detection:",
    ]
    lines += ["    " + l for l in detection.strip("\n").split("\n")]
    if isinstance(condition, list):
        lines.append("    condition:")
        lines += [f"        - {c}" for c in condition]
    else:
        lines.append(f"    condition: {condition}")
    return "\n".join(lines) + "\n"


RULES = {
    "ok_single": rule_yaml("ok_single", "sel:\n    fieldA: valueA\n    fieldB|contains: val*ue", "sel"),
    "ok_multi": rule_yaml(
        "ok_multi",
        "sel1:\n    fieldA: 1\nsel2:\n    fieldB|re: 'a.*b'\nsel3:\n    fieldC:\n        - x\n        - y",
        ["sel1", "sel2 and not sel3", "1 of sel*"],
    ),
    "ok_keyword": rule_yaml("ok_keyword", "keywords:\n    - foo\n    - 'bar baz'\nsel:\n    fieldA: null", "keywords or sel"),
    "fail_pipeline_rule": rule_yaml("fail_pipeline_rule", "sel:\n    forbidden_rule: 1", "sel"),
    "fail_pipeline_item": rule_yaml("fail_pipeline_item", "sel:\n    forbidden_item: bad\n    fieldA: ok", "sel"),
    "fail_placeholder": rule_yaml("fail_placeholder", "sel:\n    fieldA|expand: '%unresolved%'", "sel"),
    "fail_cidr": rule_yaml("fail_cidr", "sel:\n    fieldA|cidr: 192.168.0.0/16", "sel"),
    "fail_cidr_second_cond": rule_yaml(
        "fail_cidr_second_cond",
        "sel1:\n    fieldA: first\nsel2:\n    fieldB|cidr: 10.0.0.0/8",
        ["sel1", "sel2"],
    ),
    "fail_missing_detection": rule_yaml("fail_missing_detection", "sel:\n    fieldA: v", "sel and missing"),
    "fail_missing_second_cond": rule_yaml(
        "fail_missing_second_cond", "sel:\n    fieldA: v", ["sel", "not_there"]
    ),
    "fail_regex_flag": rule_yaml("fail_regex_flag", "sel:\n    fieldA|re|i: 'abc'", "sel"),
}


class NoCIDRBackend(TextQueryTestBackend):
    """Backend that supports neither CIDR expressions nor the regular expression flag i."""

    cidr_expression = None
    re_flags = {}

    def convert_condition_field_eq_val_cidr(self, cond, state):
        raise NotImplementedError("CIDR values are not supported by this backend.")


def make_pipeline():
    return ProcessingPipeline(
        name="demo",
        items=[
            ProcessingItem(
                identifier="set_index",
                transformation=SetStateTransformation("index", "demo_index"),
            ),
            ProcessingItem(
                identifier="map",
                transformation=FieldMappingTransformation({"fieldA": "mappedA"}),
            ),
            ProcessingItem(
                identifier="fail_rule",
                transformation=RuleFailureTransformation("rule not allowed"),
                rule_conditions=[RuleContainsDetectionItemCondition("forbidden_rule", 1)],
            ),
            ProcessingItem(
                identifier="fail_item",
                transformation=DetectionItemFailureTransformation("item not allowed"),
                field_name_conditions=[IncludeFieldCondition(["forbidden_item"])],
            ),
        ],
    )


def make_backend(with_pipeline, collect):
    return NoCIDRBackend(make_pipeline() if with_pipeline else None, collect_errors=collect)


def describe_error(e):
    return f"{type(e).__name__}: {e}"


def convert_alone(name, with_pipeline, output_format, callback):
    """Convert one rule in a fresh backend; returns ("ok", queries) or ("error", description)."""
    backend = make_backend(with_pipeline, False)
    try:
        return ("ok", backend.convert(SigmaCollection.from_yaml(RULES[name]), output_format, callback=callback))
    except Exception as e:
        return ("error", describe_error(e))


def convert_collection(names, with_pipeline, collect, output_format, callback):
    backend = make_backend(with_pipeline, collect)
    collection = SigmaCollection.from_yaml("---\n".join(RULES[n] for n in names))
    try:
        result = backend.convert(collection, output_format, callback=callback)
        outcome = ("ok", result)
    except Exception as e:
        outcome = ("error", describe_error(e))
    errors = [(rule.title, describe_error(e)) for rule, e in backend.errors]
    stored = []
    for rule in collection.rules:
        stored.append(
            (
                rule.title,
                rule._conversion_result,
                None
                if rule._conversion_states is None
                else [dict(s.processing_state) for s in rule._conversion_states],
            )
        )
    return outcome, errors, stored


def drop_every_second(rule, output_format, index, cond, result):
    """Callback that suppresses the query of every second condition and tags the others."""
    if index % 2 == 1:
        return None
    return None if result is None else f"{result} /*{rule.title}#{index}:{cond.condition}*/"


def main():
    mismatches = 0
    collections = [
        ["ok_single"],
        ["ok_multi"],
        ["ok_single", "ok_multi", "ok_keyword"],
        ["fail_pipeline_rule", "ok_single", "ok_multi"],
        ["ok_single", "fail_pipeline_item", "ok_multi"],
        ["ok_multi", "ok_single", "fail_placeholder"],
        ["ok_single", "fail_cidr", "ok_multi", "fail_cidr_second_cond", "ok_keyword"],
        ["fail_missing_detection", "ok_multi", "fail_missing_second_cond", "ok_single"],
        ["fail_regex_flag", "ok_keyword"],
        ["fail_cidr", "fail_placeholder", "fail_missing_detection"],
        list(RULES),
        list(reversed(RULES)),
    ]
    configs = list(
        itertools.product(
            (False, True),  # with pipeline
            (True, False),  # collect errors
            ("default", "state"),  # output format
            (None, drop_every_second),  # callback
        )
    )
    for names in collections:
        for with_pipeline, collect, output_format, callback in configs:
            print(
                f"=== {names} pipeline={with_pipeline} collect={collect} format={output_format} "
                f"callback={'yes' if callback else 'no'}"
            )
            outcome, errors, stored = convert_collection(
                names, with_pipeline, collect, output_format, callback
            )
            print("  outcome:", outcome)
            print("  errors :", errors)
            for entry in stored:
                print("  stored :", entry)
            alone = [convert_alone(n, with_pipeline, output_format, callback) for n in names]
            for n, a in zip(names, alone):
                print("  alone  :", n, a)
            if collect:
                expected = [q for kind, qs in alone if kind == "ok" for q in qs]
                expected_failed = [n for n, (kind, _) in zip(names, alone) if kind == "error"]
                good = (
                    outcome == ("ok", expected)
                    and [title for title, _ in errors] == expected_failed
                )
            else:
                first_error = next((a for a in alone if a[0] == "error"), None)
                if first_error is None:
                    good = outcome == ("ok", [q for _, qs in alone for q in qs])
                else:
                    good = outcome == first_error and errors == []
            print("  property holds:", good)
            if not good:
                mismatches += 1

    # Same rule object converted directly with convert_rule, several times in one backend
    print("=== convert_rule called directly")
    for collect in (True, False):
        backend = make_backend(True, collect)
        for name in RULES:
            rule = SigmaRule.from_yaml(RULES[name])
            for attempt in range(2):
                try:
                    print("  ", collect, name, attempt, backend.convert_rule(rule, "state", drop_every_second))
                except SigmaError as e:
                    print("  ", collect, name, attempt, "raised", describe_error(e))
                except Exception as e:
                    print("  ", collect, name, attempt, "raised other", describe_error(e))
        print("   errors:", [(r.title, describe_error(e)) for r, e in backend.errors])

    print("mismatches:", mismatches)
    return 0


if __name__ == "__main__":
    sys.exit(main())
