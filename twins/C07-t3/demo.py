"""
Demo for property C07: malformed documents raise Sigma errors only; collecting mode never raises.

Mutates valid rule / correlation / filter documents at every path with values of the wrong type,
deletes every key, uses out-of-range values, and loads each mutant in strict and in collecting
mode through the class loaders and through SigmaCollection.from_dicts / from_yaml. Every observed
outcome is printed; nothing is asserted about the outcome itself (known deviations from the
property are part of the behaviour that must stay the same), so the program exits 0 unless the
harness itself fails.

Run: PYTHONPATH=/tmp/wt5-C07 /venv/bin/python demo.py
"""

import copy
import datetime
import random
import sys


from sigma.collection import SigmaCollection
from sigma.correlations import SigmaCorrelationRule
from sigma.exceptions import SigmaError, SigmaRuleLocation
from sigma.filters import SigmaFilter
from sigma.rule import SigmaRule

RULE = {
    "title": "Test rule",
    "id": "5013332f-8a70-4a04-bcc1-06a98a2cca2e",
    "name": "base_rule",
    "taxonomy": "sigma",
    "related": [{"id": "08fbc97d-0a2f-491c-ae21-8ffcfd3174e9", "type": "derived"}],
    "status": "test",
    "description": "A description",
    "license": "MIT",
    "references": ["https://example.org"],
    "tags": ["attack.t1059", "cve.2024-1234"],
    "author": "me",
    "date": "2024-01-02",
    "modified": "2024/3/4",
    "fields": ["a", "b"],
    "falsepositives": ["none"],
    "level": "high",
    "scope": ["server"],
    "custom": {"x": 1},
    "logsource": {"category": "process_creation", "product": "windows"},
    "detection": {
        "selection": {"Image|endswith": "\\cmd.exe", "User": ["a", "b"]},
        "filter_x": [{"a": 1}, {"b|re": "x.*"}],
        "condition": "selection and not filter_x",
    },
}

CORRELATION = {
    "title": "Correlation",
    "id": "0e95725d-7320-415d-80f7-004da920fc11",
    "name": "corr",
    "status": "test",
    "level": "low",
    "date": datetime.date(2024, 5, 6),
    "correlation": {
        "type": "value_count",
        "rules": ["base_rule", "other"],
        "generate": True,
        "group-by": ["User", "Host"],
        "timespan": "5m",
        "aliases": {"u": {"base_rule": "User", "other": "user"}},
        "condition": {"gte": 10, "field": "Image"},
    },
}

TEMPORAL = {
    "title": "Temporal",
    "correlation": {
        "type": "temporal",
        "rules": ["rule_a", "rule_b"],
        "timespan": "1h",
        "group-by": "User",
        "condition": "rule_a and not rule_b",
    },
}

TEMPORAL_PLAIN = {
    "title": "Temporal plain",
    "correlation": {
        "type": "temporal_ordered",
        "rules": ["rule_a", "rule_b"],
        "timespan": "1d",
    },
}

PERCENTILE = {
    "title": "Percentile",
    "correlation": {
        "type": "value_percentile",
        "rules": "base_rule",
        "timespan": "2w",
        "condition": {"lt": 3.5, "field": "bytes", "percentile": 95},
    },
}

FILTER = {
    "title": "Filter",
    "id": "1a9b2c3d-4e5f-4a6b-8c7d-9e0f1a2b3c4d",
    "description": "filters admins",
    "date": "2024-02-03",
    "logsource": {"category": "process_creation", "product": "windows"},
    "filter": {
        "rules": ["base_rule"],
        "selection": {"User|startswith": "adm_"},
        "condition": "not selection",
    },
}

WRONG = [
    None,
    True,
    0,
    -7,
    1.5,
    float("nan"),
    "",
    "x",
    "any",
    "9999-99-99",
    "2024-13-45",
    "not-a-uuid",
    "10x",
    "0s",
    "m",
    [],
    [1],
    ["a"],
    [None],
    [["nested"]],
    [{"id": 1}],
    {},
    {"a": 1},
    {1: 2},
    {"gte": "x"},
    {"gte": 1, "lte": 2},
    {"gte": 1, "bogus": 2},
    datetime.date(2020, 1, 1),
    datetime.datetime(2020, 1, 1, 12, 30),
    "a" * 300,
]

LOCATION = SigmaRuleLocation("demo_rules.yml")


def describe_error(e):
    src = e.source.path.name if getattr(e, "source", None) is not None else None
    return f"{type(e).__name__}{e.args!r}@{src}"


def describe_exc(e):
    if isinstance(e, SigmaError):
        return "SIGMA " + describe_error(e)
    return f"OTHER {type(e).__name__}: {e}"


def describe_object(obj):
    try:
        return repr(obj.to_dict())
    except Exception as e:  # serialisation of placeholder objects may fail; only observed
        return f"<to_dict failed: {describe_exc(e)}>"


def describe_input(arg):
    return repr([d if not isinstance(d, SigmaRule) else "<SigmaRule>" for d in arg])


def run(loader, doc, show_input=False, **kwargs):
    """One load in strict and one in collecting mode; returns two outcome strings."""
    outcomes = []
    for collect in (False, True):
        random.seed(1234)  # filter application draws random prefixes
        arg = copy.deepcopy(doc)
        try:
            obj = loader(arg, collect_errors=collect, **kwargs)
        except Exception as e:
            outcomes.append(("collect" if collect else "strict") + " raised " + describe_exc(e))
            continue
        finally:
            if show_input and arg != doc:  # loaders merge global/repeat documents in place
                outcomes.append("    input documents after the call: " + describe_input(arg))
        if isinstance(obj, SigmaCollection):
            desc = "rules=%d filters=%d" % (len(obj.rules), len(obj.filters))
        else:
            desc = describe_object(obj)
        outcomes.append(
            ("collect" if collect else "strict")
            + " returned errors=["
            + "; ".join(describe_error(e) for e in obj.errors)
            + "] "
            + desc
        )
    return outcomes


def paths(node, prefix=()):
    """All paths to values in nested dicts/lists."""
    if isinstance(node, dict):
        for k, v in node.items():
            yield prefix + (k,)
            yield from paths(v, prefix + (k,))
    elif isinstance(node, list):
        for i, v in enumerate(node):
            yield prefix + (i,)
            yield from paths(v, prefix + (i,))


def mutate(doc, path, value=None, delete=False):
    doc = copy.deepcopy(doc)
    node = doc
    for step in path[:-1]:
        node = node[step]
    if delete:
        del node[path[-1]]
    else:
        node[path[-1]] = value
    return doc


def fuzz(label, loader, base, extra_docs=(), **kwargs):
    count = 0
    print(f"=== {label}: base document")
    for line in run(loader, base, **kwargs):
        print("   ", line)
    for path in paths(base):
        print(f"=== {label}: delete {path!r}")
        for line in run(loader, mutate(base, path, delete=True), **kwargs):
            print("   ", line)
        count += 1
        for value in WRONG:
            print(f"=== {label}: {path!r} := {value!r}")
            for line in run(loader, mutate(base, path, value), **kwargs):
                print("   ", line)
            count += 1
    for value in WRONG:  # new keys that are not in the base document
        for key in ("action", "scope", "taxonomy", "name", "license", "correlation", "filter"):
            if key in base:
                continue
            doc = copy.deepcopy(base)
            doc[key] = value
            print(f"=== {label}: new key {key!r} := {value!r}")
            for line in run(loader, doc, **kwargs):
                print("   ", line)
            count += 1
    for doc in extra_docs:
        print(f"=== {label}: extra {doc!r}")
        for line in run(loader, doc, **kwargs):
            print("   ", line)
        count += 1
    return count


def collection_loader(docs, collect_errors=False, **kwargs):
    return SigmaCollection.from_dicts(docs, collect_errors, **kwargs)


def single_in_collection(doc, collect_errors=False, **kwargs):
    return SigmaCollection.from_dicts([doc], collect_errors, **kwargs)


def main():
    total = 0
    arbitrary = [{}, {"title": None}, {"a": {"b": [1, {"c": None}]}}, {1: 2, None: 3, True: []}]

    # 1. single documents through the class loaders
    total += fuzz("rule", SigmaRule.from_dict, RULE, arbitrary)
    total += fuzz("rule+source", SigmaRule.from_dict, RULE, arbitrary, source=LOCATION)
    total += fuzz("correlation", SigmaCorrelationRule.from_dict, CORRELATION, arbitrary)
    total += fuzz("temporal", SigmaCorrelationRule.from_dict, TEMPORAL, source=LOCATION)
    total += fuzz("temporal_plain", SigmaCorrelationRule.from_dict, TEMPORAL_PLAIN)
    total += fuzz("percentile", SigmaCorrelationRule.from_dict, PERCENTILE)
    total += fuzz("filter", SigmaFilter.from_dict, FILTER, arbitrary, source=LOCATION)

    # 2. the same documents dispatched by the collection
    for label, base in (
        ("coll/rule", RULE),
        ("coll/correlation", CORRELATION),
        ("coll/temporal", TEMPORAL),
        ("coll/filter", FILTER),
    ):
        total += fuzz(label, single_in_collection, base, arbitrary, resolve_references=False)
    total += fuzz("coll/rule+source", single_in_collection, RULE, source=LOCATION)

    # 3. multi document collections: actions, non-map documents, already parsed rules, filters
    other = dict(RULE, name="other", id="9a6f4ac4-8d0b-4a0c-9c5e-3d1c8f0b7a11")
    rule_a = dict(RULE, name="rule_a", id="3f1d8f8e-2a9a-4a9f-8c39-0a8b9c0e1d2f")
    rule_b = dict(RULE, name="rule_b", id="6c2c5f2e-7b1b-4d55-9d3e-1f2e3d4c5b6a")
    parsed = SigmaRule.from_dict(copy.deepcopy(rule_a))
    collections = [
        [],
        [RULE, other, CORRELATION, FILTER],
        [RULE, CORRELATION],  # reference "other" is missing
        [rule_a, rule_b, TEMPORAL, TEMPORAL_PLAIN],
        [parsed, rule_b, TEMPORAL],
        [{"action": "global", "title": "Global", "level": "low"}, {k: v for k, v in RULE.items() if k != "title"}],
        [{"action": "global", "logsource": {"product": "linux"}, "level": 5}, RULE, {"action": "reset"}, RULE],
        [RULE, {"action": "repeat", "title": "Repeated", "detection": {"selection": {"x": 1}}}],
        [{"action": "repeat", "title": "Repeat first"}],
        [RULE, {"action": "repeat", "level": []}, {"action": "repeat", "id": 5}],
        [RULE, {"action": "bogus"}, None, 5, "text", [1, 2], FILTER],
        [{"action": ["global"]}, {"action": {"a": 1}}, {"action": 0}, {"action": ""}, {"action": False}],
        [{"action": "global"}, {"action": "global", "title": 1}, {"logsource": 1, "detection": 2}],
        [{"correlation": None, "title": "c"}, {"filter": None, "title": "f"}, {"correlation": 1, "filter": 2}],
        [None],
        [FILTER, RULE, dict(FILTER, filter={"rules": "any", "sel": {"a": 1}, "condition": "sel"})],
        [RULE, dict(FILTER, filter={"rules": [], "sel": {"a": 1}, "condition": 5})],
        [RULE, dict(FILTER, logsource=None)],
        [RULE, {k: v for k, v in FILTER.items() if k != "logsource"}],
    ]
    for docs in collections:
        for kwargs in ({}, {"source": LOCATION}, {"collect_filters": True, "resolve_references": False}):
            print(f"=== collection {docs!r} {sorted(kwargs)!r}")
            for line in run(collection_loader, docs, show_input=True, **kwargs):
                print("   ", line)
            total += 1

    # 4. YAML text through from_yaml (duplicate keys, scalar/list documents, multi documents)
    yamls = [
        "",
        "~",
        "5",
        "- a\n- b\n",
        "title: a\ntitle: b\n",
        "title: a\nlogsource:\n  product: x\n  product: y\ndetection:\n  s: {a: 1}\n  condition: s\n",
        "title: a\nlogsource: {product: x}\ndetection: {s: {a: 1}, condition: s}\ndate: 2024-01-01\nmodified: 2024-01-01 10:00:00\n",
        "title: a\nid: 12345\nname: 7\nlogsource: {product: x}\ndetection: {s: {a: 1}, condition: s}\n",
        "title: c\ncorrelation:\n  type: event_count\n  rules: r\n  timespan: 1q\n  condition: {gte: 1}\n",
        "title: c\ncorrelation:\n  type: event_count\n  rules: r\n  timespan: 1m\n",
        "title: f\nfilter:\n  rules: any\n  s: {a: 1}\n  condition: s\n",
        "title: a\n---\n---\ntitle: b\n--- 5\n",
        "action: global\nlevel: high\n---\ntitle: x\nlogsource: {product: x}\ndetection: {s: {a: 1}, condition: s}\n",
    ]
    for text in yamls:
        for label, loader in (
            ("SigmaRule", SigmaRule.from_yaml),
            ("SigmaCorrelationRule", SigmaCorrelationRule.from_yaml),
            ("SigmaFilter", SigmaFilter.from_yaml),
            ("SigmaCollection", SigmaCollection.from_yaml),
        ):
            print(f"=== {label}.from_yaml {text!r}")
            for collect in (False, True):
                random.seed(1234)
                try:
                    obj = loader(text, collect_errors=collect)
                    print("    collect=%s returned errors=[%s]" % (collect, "; ".join(describe_error(e) for e in obj.errors)))
                except Exception as e:
                    print("    collect=%s raised %s" % (collect, describe_exc(e)))
            total += 1

    print(f"documents loaded: {total}")
    return 0


if __name__ == "__main__":
    sys.exit(main())
