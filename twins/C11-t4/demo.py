"""Demo for property C11: a filter narrows exactly the rules it targets and nothing else.

Prints everything that is observed; the output has to be identical before and after the refactoring.
Run as: PYTHONPATH=/tmp/wt6-C11 /venv/bin/python demo.py
"""

import itertools
import random
import string
from unittest import mock

import sigma.types
from sigma.backends.test import TextQueryTestBackend
from sigma.collection import SigmaCollection
from sigma.conditions import ConditionSelector
from sigma.correlations import SigmaRuleReference
from sigma.exceptions import SigmaError
from sigma.filters import SigmaFilter
from sigma.rule import SigmaDetections, SigmaLogSource, SigmaRule
from sigma.rule.logsource import EmptyLogSource

print("imported from", sigma.types.__file__.replace("/tmp/wt6-C11/", "<wt>/"))

RULES = """
title: Rule A
id: 6f3e2987-db24-4c78-a860-b4f4095a7095
name: rule_a
logsource:
    category: process_creation
    product: windows
detection:
    selection:
        EventID: 4625
    selection_other:
        Image|endswith: '\\\\rar.exe'
    filter_main:
        User: system
    _hidden:
        Hidden: 1
    not_a_keyword:
        Kw: 1
    1of:
        Digit: 1
    condition: (1 of selection*) and not filter_main or _hidden and not_a_keyword and 1of
---
title: Rule B
id: df0841c0-9846-4e9f-ad8a-7df91571771b
name: rule_b
logsource:
    category: process_creation
    product: windows
    service: sysmon
detection:
    sel:
        fieldA: valueA
    them_like:
        fieldB: valueB
    _b_like:
        fieldC: valueC
    condition:
        - all of them
        - sel and not them_like
        - 1 of _*_like or any of *
---
title: Rule C
id: 0e95725d-7320-415d-80f7-004da920fc11
name: rule_c
logsource:
    product: linux
detection:
    keywords:
        - foo
        - bar
    condition: keywords
---
title: Correlation
name: corr
correlation:
    type: event_count
    rules:
        - rule_c
    group-by:
        - user
    timespan: 5m
    condition:
        gte: 10
"""


def mk_filter(title, logsource, rules, detections, condition):
    lines = [f"title: {title}", "logsource:"]
    lines += [f"    {k}: {v}" for k, v in logsource.items()]
    lines += ["filter:"]
    if rules is not None:
        if isinstance(rules, str):
            lines += [f"    rules: {rules}"]
        elif not rules:
            lines += ["    rules: []"]
        else:
            lines += ["    rules:"] + [f"        - {r}" for r in rules]
    for name, items in detections.items():
        lines += [f"    {name}:"] + [f"        {k}: {v}" for k, v in items.items()]
    lines += [f"    condition: {condition}"]
    return "\n".join(lines) + "\n"


WIN = {"category": "process_creation", "product": "windows"}
FILTERS = {
    "by_id_not": mk_filter(
        "F1", WIN, ["6f3e2987-db24-4c78-a860-b4f4095a7095"], {"selection": {"User": "adm"}},
        "not selection",
    ),
    "by_name": mk_filter("F2", WIN, ["rule_b"], {"sel": {"User": "svc"}}, "not sel"),
    "any_them": mk_filter(
        "F3", {"product": "windows"}, "any",
        {"selection": {"A": 1}, "filter_main": {"B": 2}, "_hidden": {"C": 3}},
        "not 1 of them",
    ),
    "empty_list": mk_filter("F4", WIN, [], {"x": {"A": 1}}, "not x"),
    "ANY_upper": mk_filter("F5", {"category": "process_creation"}, "ANY", {"x": {"A": 1}}, "x"),
    "patterns": mk_filter(
        "F6", WIN, "any",
        {"selection_1": {"A": 1}, "selection_2": {"B": 2}, "x_allow": {"C": 3}, "y_allow": {"D": 4}},
        "all of selection_* and not (1 of *_allow)",
    ),
    "keyword_names": mk_filter(
        "F7", WIN, "any",
        {"of": {"A": 1}, "them": {"B": 2}, "all": {"C": 3}, "any": {"D": 4}, "1": {"E": 5},
         "not_x": {"F": 6}, "and1": {"G": 7}, "or-x": {"H": 8}},
        "of and them or all and any or 1 and not not_x and and1 or or-x",
    ),
    "keyword_names_selectors": mk_filter(
        "F8", WIN, "any",
        {"of": {"A": 1}, "them": {"B": 2}, "all": {"C": 3}, "any": {"D": 4}},
        "(1 of them) and any of of or all of all and (all) and not(any of them*)",
    ),
    "digits_underscore": mk_filter(
        "F9", WIN, "any", {"1of": {"A": 1}, "_x": {"B": 2}, "__": {"C": 3}, "9": {"D": 4}},
        "1of or _x and 1 of _* or 9 and __",
    ),
    "service_too_specific": mk_filter(
        "F10", {**WIN, "service": "sysmon"}, "any", {"x": {"A": 1}}, "not x"
    ),
    "other_product": mk_filter("F11", {"product": "linux"}, "any", {"kw": {"A": 1}}, "not kw"),
    "unknown_ref": mk_filter("F12", WIN, ["nonexistent", "rule_c"], {"x": {"A": 1}}, "not x"),
    "no_match_pattern": mk_filter("F13", WIN, "any", {"x": {"A": 1}}, "1 of y*"),
    "undefined_name": mk_filter("F14", WIN, "any", {"x": {"A": 1}}, "x and zzz"),
    "odd_spacing": mk_filter(
        "F15", WIN, "any", {"a": {"A": 1}, "b": {"B": 2}}, "'  not ( a )   or(b)and 1  of  a* '"
    ),
    "quantifier_parenthesised": mk_filter(
        "F16", WIN, "any", {"of": {"A": 1}, "1": {"B": 2}, "b": {"B": 3}}, "1 and (of) or 1 of b"
    ),
}

SCENARIOS = [[name] for name in FILTERS] + [
    ["by_id_not", "by_name"],
    ["any_them", "patterns", "keyword_names"],
    ["patterns", "patterns"],
    ["other_product", "by_id_not", "digits_underscore", "any_them"],
]


def show_collection(names, collect_filters=False):
    random.seed(20260926)
    text = RULES + "".join("---\n" + FILTERS[n] for n in names)
    try:
        coll = SigmaCollection.from_yaml(text, collect_filters=collect_filters)
    except SigmaError as e:
        print("  load:", type(e).__name__, e)
        print("  random state after:", random.random())
        return
    for rule in coll.rules:
        if isinstance(rule, SigmaRule):
            print("  rule", rule.name, "detections:", list(rule.detection.detections))
            print("  rule", rule.name, "conditions:", rule.detection.condition)
    for rule in coll.rules:
        if not isinstance(rule, SigmaRule):
            continue
        try:
            print("  query", rule.name, ":", TextQueryTestBackend().convert_rule(rule))
        except SigmaError as e:
            print("  query", rule.name, ":", type(e).__name__, e)
    try:
        print("  all queries:", TextQueryTestBackend().convert(coll))
    except SigmaError as e:
        print("  all queries:", type(e).__name__, e)
    print("  filters kept:", [f.title for f in coll.filters])
    print("  random state after:", random.random())


print("=== reference (no filters)")
show_collection([])
for names in SCENARIOS:
    print("=== filters", names)
    show_collection(names)
print("=== collect_filters=True, then apply_filters explicitly")
show_collection(["by_id_not", "any_them"], collect_filters=True)
random.seed(7)
coll = SigmaCollection.from_yaml(
    RULES + "---\n" + FILTERS["by_id_not"] + "---\n" + FILTERS["any_them"], collect_filters=True
)
coll.apply_filters(coll.filters)
for rule in coll.rules:
    if isinstance(rule, SigmaRule):
        print("  ", rule.name, list(rule.detection.detections), rule.detection.condition)
print("  ", TextQueryTestBackend().convert(coll))

print("=== forced prefix collisions")
rule = SigmaCollection.from_yaml(RULES).rules[0]
rule.detection.detections["_filt_aaaaaaaaaa_old"] = rule.detection.detections["selection"]
rule.detection.detections[17] = rule.detection.detections["selection"]
draws = iter([list("aaaaaaaaaa"), list("aaaaaaaaaa"), list("bbbbbbbbbb"), list("cccccccccc")])
calls = []


def fake_choices(population, k):
    calls.append((population == string.ascii_lowercase, k))
    return next(draws)


flt = SigmaFilter.from_yaml(FILTERS["patterns"])
with mock.patch("random.choices", fake_choices):
    result = flt.apply_on_rule(rule)
print("  same object returned:", result is rule, "draw calls:", calls)
print("  detections:", list(rule.detection.detections))
print("  conditions:", rule.detection.condition)
print(
    "  filter detections copied, not shared:",
    all(
        rule.detection.detections["_filt_bbbbbbbbbb_" + n] is not d
        and rule.detection.detections["_filt_bbbbbbbbbb_" + n] == d
        for n, d in flt.filter.detections.items()
    ),
)
print("  filter's own condition untouched:", flt.filter.condition)

print("=== applicability matrix (_should_apply_on_rule)")
rules = SigmaCollection.from_yaml(RULES).rules
for fname in ["by_id_not", "by_name", "any_them", "empty_list", "ANY_upper", "unknown_ref",
              "service_too_specific", "other_product"]:
    f = SigmaFilter.from_yaml(FILTERS[fname])
    print("  ", fname, [(r.name, f._should_apply_on_rule(r)) for r in rules])
f = SigmaFilter.from_yaml(FILTERS["by_id_not"])
f.filter.rules = "Any"
print("   rules='Any':", [f._should_apply_on_rule(r) for r in rules])
f.filter.rules = []
print("   rules=[]:", [f._should_apply_on_rule(r) for r in rules])
f.filter.rules = [SigmaRuleReference("nope"), SigmaRuleReference("rule_a")]
print("   rules=[nope, rule_a]:", [f._should_apply_on_rule(r) for r in rules])
f.filter.rules = "rule_a"
try:
    print("   rules='rule_a' (string):", [f._should_apply_on_rule(r) for r in rules])
except AssertionError as e:
    print("   rules='rule_a' (string): AssertionError", repr(str(e)))

print("=== log source containment")
values = [None, "x", "y"]
sources = []
for c, p, s in itertools.product(values, repeat=3):
    try:
        sources.append(SigmaLogSource(c, p, s))
    except SigmaError:
        pass
sources.append(SigmaLogSource("x", "x", "x", definition="d"))
sources.append(SigmaLogSource("x", None, None, custom_attributes={"k": "v"}))
sources.append(EmptyLogSource())
for outer in sources:
    print("  ", outer.category, outer.product, outer.service, outer.definition, "contains:",
          "".join("1" if inner in outer else "0" for inner in sources))
for bad in ["x", None, 3]:
    try:
        print("  ", bad in sources[0])
    except SigmaError as e:
        print("   containment of", repr(bad), ":", type(e).__name__, e)

print("=== selector resolution (resolve_referenced_detections)")
names = ["sel", "selection", "_sel", "_filt_abc_sel", "_filt_abc__x", "_filt_", "filt_x", "them",
         "x_sel", "__", "1of", "_filt_xyz_sel"]
dets = SigmaDetections.from_dict({**{n: {"f": i} for i, n in enumerate(names)}, "condition": "sel"})
for pattern in ["them", "*", "sel*", "*sel", "_*", "_filt_*", "_filt_abc_*", "_filt_abc_sel",
                "_filt_abc_*sel", "*_sel", "__", "_filt*", "1*", "s.l", "x*x", "_f*", "nomatch*",
                "*filt_*", "_filt__*"]:
    for quantifier in ["1", "all"]:
        sel = ConditionSelector([quantifier, pattern])
        print("  ", quantifier, "of", pattern, "->", sel.cond_class.__name__,
              [i.identifier for i in sel.resolve_referenced_detections(dets)])
try:
    ConditionSelector(["some", "x*"])
except SigmaError as e:
    print("   bad quantifier:", type(e).__name__, e)
try:
    ConditionSelector(["1", "(*"]).resolve_referenced_detections(dets)
except Exception as e:
    print("   bad pattern:", type(e).__name__, e)
