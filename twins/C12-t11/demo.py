"""Demo for C12/t11: prefix mapping, drop detection item, field list / field reference mapping
through _apply_field_name and the value type selection of value transformations."""

import traceback

from sigma.backends.test import TextQueryTestBackend
from sigma.collection import SigmaCollection
from sigma.processing.pipeline import ProcessingPipeline
from sigma.processing.transformations import (
    FieldPrefixMappingTransformation,
    ReplaceStringTransformation,
    SetValueTransformation,
    ConvertTypeTransformation,
    CaseTransformation,
    MapStringTransformation,
    RegexTransformation,
)
from sigma.processing.transformations.base import ValueTransformation

RULE_HEAD = """
title: Test
status: test
logsource:
    category: test_category
    product: test_product
"""

RULES = {
    "simple": RULE_HEAD
    + """
fields:
    - win.proc.Image
    - other.field
    - win.CommandLine
    - plain
detection:
    sel:
        win.proc.Image|endswith: '\\\\cmd.exe'
        win.CommandLine|contains|all:
            - foo
            - bar
        other.field: 123
    filter:
        plain: null
        win.User|re: 'adm.*'
    condition: sel and not filter
""",
    "fieldref_keywords": RULE_HEAD
    + """
fields:
    - win.a
detection:
    sel:
        win.a|fieldref: win.b
        lin.c|fieldref|startswith: other.d
    keywords:
        - needle
        - 'hay*stack'
    nested:
        - win.x: 1
          lin.y: two
        - win.z|windash: '-p foo'
    condition: sel or keywords or 1 of nest*
""",
    "lists": RULE_HEAD
    + """
detection:
    sel1:
        win.f:
            - a
            - B*
            - 3
            - ''
        nomatch: x
    sel2:
        win.g|cidr: 10.0.0.0/8
        win.h|exists: true
    condition: all of sel*
""",
}

PIPELINES = {
    "prefix_1to1": """
name: p
priority: 10
transformations:
    - id: pm
      type: field_name_prefix_mapping
      mapping:
          win.: w_
          lin.: l_
""",
    "prefix_1toN": """
name: p
priority: 10
transformations:
    - id: pm
      type: field_name_prefix_mapping
      mapping:
          win.proc.: [wp1., wp2.]
          win.: [x., y.]
          other: []
""",
    "prefix_overlap_order": """
name: p
priority: 10
transformations:
    - id: pm
      type: field_name_prefix_mapping
      mapping:
          win.: short.
          win.proc.: never.
          "": empty.
""",
    "prefix_identity": """
name: p
priority: 10
transformations:
    - id: pm
      type: field_name_prefix_mapping
      mapping: {}
""",
    "prefix_nomatch": """
name: p
priority: 10
transformations:
    - id: pm
      type: field_name_prefix_mapping
      mapping:
          zzz.: y.
""",
    "prefix_with_field_cond": """
name: p
priority: 10
transformations:
    - id: pm
      type: field_name_prefix_mapping
      mapping:
          win.: w_
      field_name_conditions:
          - type: include_fields
            fields:
                - win.a
                - win.proc.Image
                - win.b
    - id: sfx
      type: field_name_suffix
      suffix: _s
      field_name_conditions:
          - type: processing_item_applied
            processing_item_id: pm
""",
    "drop_all": """
name: p
priority: 10
transformations:
    - id: d
      type: drop_detection_item
      field_name_conditions:
          - type: include_fields
            fields:
                - other.field
                - plain
                - win.x
                - nomatch
                - win.h
""",
    "drop_regex_fields": """
name: p
priority: 10
transformations:
    - id: d
      type: drop_detection_item
      field_name_conditions:
          - type: include_fields
            mode: re
            fields:
                - 'lin\\..*'
                - 'win\\.[fg]'
""",
    "drop_nothing": """
name: p
priority: 10
transformations:
    - id: d
      type: drop_detection_item
      field_name_conditions:
          - type: include_fields
            fields:
                - does_not_exist
""",
    "field_mapping_and_prefix_and_suffix": """
name: p
priority: 10
transformations:
    - id: fm
      type: field_name_mapping
      mapping:
          win.a: [A1, A2]
          win.b: B
          plain: [P1, P2]
          other.d: []
    - id: pre
      type: field_name_prefix
      prefix: pre_
      field_name_conditions:
          - type: processing_item_applied
            processing_item_id: fm
    - id: suf
      type: field_name_suffix
      suffix: _suf
      field_name_cond_not: true
      field_name_conditions:
          - type: processing_item_applied
            processing_item_id: fm
""",
    "values_chain": """
name: p
priority: 10
transformations:
    - id: r
      type: replace_string
      regex: 'o+'
      replacement: '0'
    - id: c
      type: case
      method: upper
    - id: m
      type: map_string
      mapping:
          A: [a1, a2]
          BAR: []
    - id: conv
      type: convert_type
      target_type: str
      field_name_conditions:
          - type: include_fields
            fields: [other.field, win.x]
    - id: sv
      type: set_value
      value: 42
      field_name_conditions:
          - type: include_fields
            fields: [nomatch]
""",
    "nested_drop_then_prefix": """
name: p
priority: 10
transformations:
    - id: n
      type: nest
      items:
          - id: d
            type: drop_detection_item
            field_name_conditions:
                - type: include_fields
                  fields: [win.User, lin.y]
          - id: pm
            type: field_name_prefix_mapping
            mapping:
                win.: [w1., w2.]
""",
}


def show_rule_state(pipeline: ProcessingPipeline, rule_yaml: str) -> None:
    """Apply the pipeline directly and show the side effects on rule and pipeline."""
    collection = SigmaCollection.from_yaml(rule_yaml)
    rule = collection.rules[0]
    pipeline.apply(rule)
    print("    fields:", rule.fields)
    for name, detection in rule.detection.detections.items():
        print("    detection", name, "->", show_detection(detection))
    print("    applied:", pipeline.applied, sorted(pipeline.applied_ids))
    print("    field_name_applied_ids:", sorted(pipeline.field_name_applied_ids))
    print(
        "    field_mappings:",
        {k: sorted(v) for k, v in dict(pipeline.field_mappings).items()},
    )


def show_detection(detection) -> str:
    parts = []
    for item in detection.detection_items:
        if hasattr(item, "detection_items"):
            parts.append(
                "D[" + getattr(item.item_linking, "__name__", "?") + "](" + show_detection(item) + ")"
            )
        else:
            try:
                plain = item.to_plain()
            except Exception as e:
                plain = "<" + type(e).__name__ + ">"
            parts.append(
                f"I(field={item.field!r}, value={item.value!r}, plain={plain!r}, "
                f"applied={sorted(item.applied_processing_items)})"
            )
    return "; ".join(parts)


def main() -> None:
    for pname, pyaml in PIPELINES.items():
        for rname, ryaml in RULES.items():
            print(f"=== pipeline {pname} x rule {rname}")
            try:
                backend = TextQueryTestBackend(ProcessingPipeline.from_yaml(pyaml))
                print("  queries:", backend.convert(SigmaCollection.from_yaml(ryaml)))
            except Exception as e:
                print("  convert raised:", type(e).__name__, str(e))
            try:
                show_rule_state(ProcessingPipeline.from_yaml(pyaml), ryaml)
            except Exception as e:
                print("  apply raised:", type(e).__name__, str(e))

    print("=== prefix mapping, direct calls")
    cases = [
        ({"win.": "w."}, "win.x"),
        ({"win.": "w."}, "win."),
        ({"win.": "w."}, "win"),
        ({"win.": "w."}, None),
        ({"win.": ["a.", "b."]}, "win.x.y"),
        ({"win.": []}, "win.x"),
        ({"win.": ("t1.", "t2.")}, "win.x"),
        ({"": "all."}, "anything"),
        ({"a": "1", "ab": "2"}, "abc"),
        ({"ab": "2", "a": "1"}, "abc"),
        ({"zz": "1", None: "2"}, "abc"),
        ({"ab": "1", None: "2"}, "abc"),
        ({None: "2", "ab": "1"}, "abc"),
        ({None: "2"}, None),
        ({"ab": 5}, "abc"),
        ({5: "x"}, "abc"),
        ({}, "abc"),
    ]
    for mapping, field in cases:
        t = FieldPrefixMappingTransformation(mapping)
        try:
            print(f"  {mapping!r} {field!r} -> {t.apply_field_name(field)!r}")
        except Exception as e:
            print(f"  {mapping!r} {field!r} raised {type(e).__name__}: {e}")
        try:
            print(f"     _apply_field_name -> {t._apply_field_name(field)!r}")
        except Exception as e:
            print(f"     _apply_field_name raised {type(e).__name__}: {e}")

    print("=== accepted value types of value transformations")

    class Untyped(ValueTransformation):
        def apply_value(self, field, val):
            return None

    class OnlyReturn(ValueTransformation):
        def apply_value(self, field, val) -> None:
            return None

    class FieldOnly(ValueTransformation):
        def apply_value(self, field: str, val):
            return None

    class OldUnion(ValueTransformation):
        def apply_value(self, field: str, val: "Union[SigmaString, SigmaNumber]"):
            return None

    import typing
    from sigma.types import SigmaString, SigmaNumber

    OldUnion.apply_value.__annotations__["val"] = typing.Union[SigmaString, SigmaNumber]

    class NewUnion(ValueTransformation):
        def apply_value(self, field: str | None, val: SigmaString | SigmaNumber):
            return [val, val]

    class ValOnly(ValueTransformation):
        def apply_value(self, field, val: SigmaString):
            return None

    instances = [
        NewUnion(),
        ValOnly(),
        ReplaceStringTransformation("a", "b"),
        SetValueTransformation("x"),
        ConvertTypeTransformation("str"),
        CaseTransformation("lower"),
        MapStringTransformation({"a": "b"}),
        RegexTransformation(),
        Untyped(),
        OnlyReturn(),
        FieldOnly(),
        OldUnion(),
    ]
    for inst in instances:
        print(f"  {type(inst).__name__}: value_types={inst.value_types!r}")


if __name__ == "__main__":
    try:
        main()
    except Exception:
        traceback.print_exc()
        raise SystemExit(1)
