"""Demo for C01: detection definitions -> item linking -> condition tree -> query text."""
from collections import OrderedDict

from sigma.backends.test import TextQueryTestBackend
from sigma.collection import SigmaCollection
from sigma.conditions import ConditionAND, ConditionOR
from sigma.exceptions import SigmaError
from sigma.rule import SigmaDetection, SigmaDetectionItem, SigmaRule
from sigma.types import SigmaString


def show(label, fn):
    try:
        res = fn()
    except SigmaError as e:
        res = f"{type(e).__name__}: {e}"
    except Exception as e:  # noqa
        res = f"!{type(e).__name__}: {e}"
    print(f"{label}: {res}")


def tree(node):
    """Structural dump of a condition tree including the parent links."""
    name = type(node).__name__
    parent = type(node.parent).__name__ if getattr(node, "parent", None) is not None else None
    if hasattr(node, "args"):
        return f"{name}<p={parent}>(" + ", ".join(tree(a) for a in node.args) + ")"
    if hasattr(node, "field"):
        return f"{name}<p={parent}>({node.field!r}, {node.value!r})"
    if hasattr(node, "value"):
        return f"{name}<p={parent}>({node.value!r})"
    return repr(node)


class StrSub(str):
    pass


class IntSub(int):
    pass


definitions = {
    "map": {"a": "x", "b": 2},
    "map_single": {"a": "x"},
    "map_list_value": {"a": ["x", "y"], "b|contains|all": ["p", "q"]},
    "ordered_map": OrderedDict([("b", 1), ("a", None)]),
    "plain_str": "keyword",
    "plain_int": 5,
    "plain_float": 1.5,
    "plain_bool": True,
    "plain_none": None,
    "plain_strsub": StrSub("sub"),
    "list_plain": ["k1", "k2", 3],
    "list_plain_mixed": ["k1", None, True, 2.5],
    "list_empty": [],
    "list_single_plain": ["only"],
    "list_maps": [{"a": 1}, {"b": 2, "c": 3}],
    "list_single_map": [{"a": 1, "b": 2}],
    "list_map_and_plain": [{"a": 1}, "kw"],
    "list_nested_lists": [["a", "b"], ["c"]],
    "list_with_strsub": ["k1", StrSub("sub")],
    "list_with_intsub": [IntSub(3), 4],
    "list_with_tuple": ["k1", ("t",)],
    "empty_map": {},
    "tuple": ("a", "b"),
    "set": {"a"},
    "bytes": b"abc",
    "list_with_empty_map": [{"a": 1}, {}],
}

print("== from_definition / item linking ==")
for name, definition in definitions.items():
    def run(definition=definition):
        d = SigmaDetection.from_definition(definition)
        return f"linking={d.item_linking.__name__} items={d.detection_items!r}"
    show(name, run)

print("== programmatic construction ==")
item_a = SigmaDetectionItem("a", [], [SigmaString("x")])
item_b = SigmaDetectionItem("b", [], [SigmaString("y")])
show("items_only", lambda: SigmaDetection([item_a, item_b]).item_linking.__name__)
show("dets_only", lambda: SigmaDetection([SigmaDetection([item_a]), SigmaDetection([item_b])]).item_linking.__name__)
show("mixed_item_last", lambda: SigmaDetection([SigmaDetection([item_a]), item_b]).item_linking.__name__)
show("mixed_item_first", lambda: SigmaDetection([item_a, SigmaDetection([item_b])]).item_linking.__name__)
show("explicit_or", lambda: SigmaDetection([item_a, item_b], item_linking=ConditionOR).item_linking.__name__)
show("explicit_and", lambda: SigmaDetection([SigmaDetection([item_a]), SigmaDetection([item_b])], item_linking=ConditionAND).item_linking.__name__)
show("empty", lambda: SigmaDetection([]))

RULE = """
title: Test
status: test
logsource:
    category: test
detection:
{detection}
    condition: {condition}
"""

rules = {
    "and_map": ("    sel:\n        a: x\n        b: y", "sel"),
    "or_list_of_maps": ("    sel:\n        - a: x\n          b: y\n        - c: z", "sel"),
    "keywords": ("    sel:\n        - k1\n        - k2", "sel"),
    "single_keyword": ("    sel: kw", "sel"),
    "not_map": ("    sel:\n        a: x\n        b: y", "not sel"),
    "not_list_of_maps": ("    sel:\n        - a: x\n        - b: y\n          c: z", "not sel"),
    "mixed": (
        "    s1:\n        a|contains: x\n        b|startswith: y\n    s2:\n        - c|endswith: z\n        - d: null\n    s3:\n        e:\n            - 1\n            - 2",
        "(s1 or s2) and not s3",
    ),
    "one_of": ("    s1:\n        a: 1\n        b: 2\n    s2:\n        - c: 3\n        - d: 4", "1 of s*"),
    "all_of": ("    s1:\n        a: 1\n        b: 2\n    s2:\n        - c: 3\n        - d: 4", "all of s*"),
    "map_in_list_single": ("    sel:\n        - a: x\n          b|all:\n            - p\n            - q", "sel"),
    "nested_or_in_and": ("    s1:\n        - a: 1\n        - b: 2\n    s2:\n        c: 3", "s1 and s2"),
    "list_with_map_and_kw": ("    sel:\n        - a: 1\n        - kw", "sel"),
    "empty_list": ("    sel: []", "sel"),
    "empty_map": ("    sel: {}", "sel"),
}

print("== parsed condition trees and queries ==")
for name, (det, cond) in rules.items():
    text = RULE.format(detection=det, condition=cond)

    def run_tree(text=text):
        rule = SigmaRule.from_yaml(text)
        return tree(rule.detection.parsed_condition[0].parsed)

    def run_query(text=text):
        return TextQueryTestBackend().convert(SigmaCollection.from_yaml(text))

    show(name + " tree", run_tree)
    show(name + " query", run_query)

print("== postprocess of hand-built detections ==")


def pp(det):
    rule = SigmaRule.from_yaml(RULE.format(detection="    sel:\n        a: x", condition="sel"))
    return tree(det.postprocess(rule.detection)) if det.postprocess(rule.detection) is not None else None


show("pp_and", lambda: pp(SigmaDetection([item_a, item_b])))
show("pp_or_forced", lambda: pp(SigmaDetection([item_a, item_b], item_linking=ConditionOR)))
show("pp_single", lambda: pp(SigmaDetection([item_a])))
show("pp_nested", lambda: pp(SigmaDetection([SigmaDetection([item_a, item_b]), SigmaDetection([item_b])])))
d_emptied = SigmaDetection([item_a])
d_emptied.detection_items = []
show("pp_emptied", lambda: pp(d_emptied))
show("pp_nested_emptied", lambda: pp(SigmaDetection([d_emptied, SigmaDetection([item_b])])))
show("items_unchanged_parent", lambda: (item_a.parent, item_b.parent))
