"""Exercise condition parsing on rules built from dicts and print the truth tables."""
import itertools
from collections import OrderedDict

from sigma.conditions import (
    ConditionAND,
    ConditionFieldEqualsValueExpression,
    ConditionItem,
    ConditionNOT,
    ConditionOR,
    ConditionValueExpression,
    SigmaCondition,
)
from sigma.exceptions import SigmaError
from sigma.rule.detection import SigmaDetection, SigmaDetections

NAMES = [
    "sel",
    "notepad",
    "android",
    "oracle",
    "all_in",
    "any1",
    "of_x",
    "them_too",
    "a1",
    "a-b",
    "_hidden",
    "_filt_ab_f",
    "1x",
]


def marker(name):
    return "m_" + name


def build(names=NAMES, conditions=("sel",), extra=None):
    d = OrderedDict((n, {"f": marker(n)}) for n in names)
    if extra:
        d.update(extra)
    if conditions is not None:
        d["condition"] = list(conditions) if len(conditions) != 1 else conditions[0]
    return SigmaDetections.from_dict(d)


def evaluate(node, env):
    if node is None:
        return None
    if isinstance(node, ConditionAND):
        return all(evaluate(a, env) for a in node.args)
    if isinstance(node, ConditionOR):
        return any(evaluate(a, env) for a in node.args)
    if isinstance(node, ConditionNOT):
        return not evaluate(node.args[0], env)
    if isinstance(node, ConditionFieldEqualsValueExpression):
        return env[str(node.value)]
    if isinstance(node, ConditionValueExpression):
        return env["kw:" + str(node.value)]
    raise TypeError(type(node))


def leaves(node, acc):
    if isinstance(node, ConditionItem):
        for a in node.args:
            leaves(a, acc)
    elif node is not None:
        key = str(node.value) if isinstance(node, ConditionFieldEqualsValueExpression) else "kw:" + str(node.value)
        if key not in acc:
            acc.append(key)
    return acc


def shape(node):
    if isinstance(node, ConditionItem):
        return "%s(%s)" % (type(node).__name__[9:], ",".join(shape(a) for a in node.args))
    if node is None:
        return "None"
    if isinstance(node, ConditionFieldEqualsValueExpression):
        return "%s=%s" % (node.field, node.value)
    return "kw:%s" % (node.value,)


def raw_shape(node):
    if isinstance(node, ConditionItem):
        return "%s(%s)" % (type(node).__name__[9:], ",".join(raw_shape(a) for a in node.args))
    return repr(node)


def table(cond, dets):
    try:
        c = SigmaCondition(cond, dets)
        raw = c.parse(False)
        tree = c.parsed
    except SigmaError as e:
        print("%-46r -> %s: %s" % (cond, type(e).__name__, e))
        return
    ls = leaves(tree, [])
    bits = ""
    for values in itertools.product([False, True], repeat=len(ls)):
        bits += "1" if evaluate(tree, dict(zip(ls, values))) else "0"
    if len(bits) > 64:
        import hashlib
        bits = "sha:" + hashlib.sha1(bits.encode()).hexdigest()[:16]
    print("%-46r raw=%s" % (cond, raw_shape(raw)))
    print("%-46s tree=%s parent=%s src=%r" % ("", shape(tree), type(tree.parent).__name__, getattr(tree, "source", "n/a")))
    print("%-46s leaves=%s table=%s" % ("", ls, bits))


class Weird:
    pass


def attempt(label, fn):
    try:
        r = fn()
        print(label, "->", r)
    except Exception as e:
        print(label, "->", type(e).__name__, e)


CONDITIONS = [
    "sel",
    "notepad",
    "not notepad",
    "not not sel",
    "android and oracle",
    "android or oracle and sel",
    "sel and android or oracle",
    "sel or android or oracle",
    "sel and not android and oracle",
    "not sel or not android",
    "not (sel or android) and oracle",
    "(sel or android) and (oracle or a1)",
    "sel and (android or (oracle and not a-b))",
    "all_in and any1 or of_x and them_too",
    "1x or not 1x",
    "1 of them",
    "all of them",
    "any of them",
    "1 of a*",
    "all of a*",
    "all of *d",
    "any of *o*",
    "1 of sel",
    "all of sel*",
    "1 of _*",
    "all of _h*",
    "1 of _filt_*",
    "1 of _filt_ab_*",
    "all of *_*",
    "not 1 of a* and all of o*",
    "not (1 of a* or all of them)",
    "sel and 1 of them_*",
    "1 of zzz*",
    "all of zzz",
    "missing",
    "sel and missing",
    "sel | count() > 3",
    "sel and",
    "and sel",
    "sel android",
    "(sel",
    "sel)",
    "",
    "   ",
    "2 of them",
    "all of",
    "not",
    "NOT sel",
    "sel AND android",
    "((((sel))))",
    "  sel   and\tandroid  ",
    "them",
    "all",
    "of",
]

dets = build()
for cond in CONDITIONS:
    table(cond, dets)

print("--- deep nesting")
for depth in (3, 8, 15, 25, 50, 400, 3000):
    cond = "(" * depth + "sel" + ")" * depth
    try:
        t = SigmaCondition(cond, dets).parsed
        print(depth, shape(t))
    except SigmaError as e:
        print(depth, type(e).__name__, str(e)[:60])
cond = " and ".join(["not " * 5 + "sel"] * 3)
table(cond, dets)

print("--- from_dict / from_definition shapes")
DEFINITIONS = OrderedDict(
    [
        ("mapping", {"a": 1, "b": ["x", "y"]}),
        ("mapping_mod", {"a|contains": "x", "b|endswith|all": ["p", "q"]}),
        ("keyword", "plain"),
        ("number", 5),
        ("flt", 1.5),
        ("boolean", True),
        ("null", None),
        ("keywords", ["k1", "k2", 3]),
        ("mixed_plain", ["k1", None, True, 2.5]),
        ("maps", [{"a": 1}, {"b": 2, "c": 3}]),
        ("mixed", ["k1", {"a": 1}]),
        ("nested", [["k1", "k2"], {"a": [1, 2]}]),
        ("nullfield", {"a": None}),
        ("emptyval", {"a": []}),
        ("_injected", {"z": 1}),
    ]
)
d2 = SigmaDetections.from_dict(dict(DEFINITIONS, condition="mapping"))
print("names:", list(d2.detections.keys()))
for name, det in d2.detections.items():
    try:
        plain = det.to_plain()
    except SigmaError as e:
        plain = "%s: %s" % (type(e).__name__, e)
    print("%-12s linking=%s items=%s plain=%r" % (
        name,
        det.item_linking.__name__,
        [type(i).__name__ for i in det.detection_items],
        plain,
    ))
for cond in ["mapping", "keywords and mixed", "1 of m*", "all of them", "nested or nullfield", "not emptyval",
             "1 of _*", "all of k*", "mixed_plain and not (boolean or null)", "maps and mapping_mod", "number or flt"]:
    table(cond, d2)
attempt("to_dict", d2.to_dict)

print("--- from_dict errors and condition forms")


attempt("no condition", lambda: SigmaDetections.from_dict({"sel": {"a": 1}}))
attempt("only condition", lambda: SigmaDetections.from_dict({"condition": "sel"}))
attempt("empty list condition", lambda: SigmaDetections.from_dict({"sel": {"a": 1}, "condition": []}))
attempt("none condition", lambda: SigmaDetections.from_dict({"sel": {"a": 1}, "condition": None}))
attempt("int condition", lambda: SigmaDetections.from_dict({"sel": {"a": 1}, "condition": 1}))
attempt("list with int", lambda: SigmaDetections.from_dict({"sel": {"a": 1}, "condition": ["sel", 2]}))
attempt("tuple condition", lambda: SigmaDetections.from_dict({"sel": {"a": 1}, "condition": ("sel",)}))
attempt("empty detection", lambda: SigmaDetections.from_dict({"sel": {}, "condition": "sel"}))
attempt("empty list detection", lambda: SigmaDetections.from_dict({"sel": [], "condition": "sel"}).detections["sel"].to_plain())
attempt("weird detection", lambda: SigmaDetections.from_dict({"sel": Weird(), "condition": "sel"}))
attempt("tuple detection", lambda: SigmaDetections.from_dict({"sel": ("a", "b"), "condition": "sel"}))
attempt("set in list", lambda: SigmaDetections.from_dict({"sel": ["a", {1, 2}], "condition": "sel"}))
attempt("bytes", lambda: SigmaDetections.from_dict({"sel": b"x", "condition": "sel"}))


class MyStr(str):
    pass


attempt("str subclass", lambda: [type(i).__name__ for i in SigmaDetection.from_definition(MyStr("x")).detection_items])
attempt("str subclass in list", lambda: [type(i).__name__ for i in SigmaDetection.from_definition([MyStr("x"), "y"]).detection_items])
attempt("ordered mapping", lambda: SigmaDetection.from_definition(OrderedDict(a=1, b=2)).to_plain())
multi = build(conditions=("sel", "not android", "1 of a*"))
print("conditions:", [c.condition for c in multi.parsed_condition])
for c in multi.parsed_condition:
    print("  ", c.condition, "->", shape(c.parsed))
print("to_dict condition:", multi.to_dict()["condition"])

print("--- source propagation of the default postprocess")
from sigma.exceptions import SigmaRuleLocation

loc = SigmaRuleLocation("demo.yml")
d3 = SigmaDetections.from_dict({"sel": {"a": 1}, "kw": ["x", "y"], "condition": "sel and kw"}, loc)
tree = d3.parsed_condition[0].parsed


def sources(node, depth=0):
    if isinstance(node, str):
        print("  " * depth + repr(node))
        return
    print("  " * depth + type(node).__name__, "source=%r" % (getattr(node, "source", "missing"),),
          "parent=%s" % type(node.parent).__name__)
    if isinstance(node, ConditionItem):
        for a in node.args:
            sources(a, depth + 1)


sources(tree)
raw = SigmaCondition("sel and kw", d3, None).parse(False)
sources(raw)
leaf = ConditionValueExpression("v")
print(leaf.postprocess(d3, None, None) is leaf, leaf.source and leaf.source.path.name, leaf.parent)
print(leaf.postprocess(d3, tree, loc) is leaf, leaf.source and leaf.source.path.name, type(leaf.parent).__name__)
print(leaf.postprocess(d3, None, None) is leaf, leaf.source and leaf.source.path.name, leaf.parent)
