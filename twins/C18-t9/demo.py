"""Exercise CIDR expansion and its use in conversion; prints everything it observes."""

import hashlib
import random
from ipaddress import IPv4Address, IPv6Address, ip_network

from sigma.collection import SigmaCollection
from sigma.backends.test import TextQueryTestBackend
from sigma.exceptions import SigmaError
from sigma.modifiers import SigmaCIDRModifier
from sigma.rule import SigmaDetectionItem
from sigma.types import SigmaCIDRExpression, SigmaString


def show(label, fn):
    try:
        print(label, "->", fn())
    except Exception as e:  # exception class and message are part of the behaviour
        print(label, "-> EXC", type(e).__name__, str(e))


def digest(patterns):
    return (
        len(patterns),
        patterns[:3],
        patterns[-2:],
        hashlib.sha256("\n".join(map(str, patterns)).encode()).hexdigest()[:16],
    )


rnd = random.Random(18)

# 1. IPv4: every prefix length, boundary and random addresses
for plen in range(33):
    addrs = [0, 2**32 - 1, 0x0A000000, 0xC0A8FF80, 0x7F000001] + [
        rnd.getrandbits(32) for _ in range(3)
    ]
    for a in addrs:
        cidr = str(ip_network((a, plen), strict=False))
        show("v4 " + cidr, lambda: digest(SigmaCIDRExpression(cidr).expand()))

# 2. IPv6: every prefix length, addresses with zero runs in different positions
v6_bases = [
    "::",
    "::1",
    "fe80::",
    "ffff:ffff:ffff:ffff:ffff:ffff:ffff:ffff",
    "2001:db8::1:0:0:1",
    "2001:0:0:1::",
    "1:0:0:2:0:0:0:3",
    "1:2:3:4:5:6:7:8",
    "0:0:1::1",
    "a:b:c:d:e:f:0:0",
    "1:0:1:0:1:0:1:0",
    "::ffff:192.0.2.1",
]
for plen in range(129):
    for base in v6_bases + [str(IPv6Address(rnd.getrandbits(128)))]:
        cidr = str(ip_network((int(IPv6Address(base)), plen), strict=False))
        show("v6 " + cidr, lambda: digest(SigmaCIDRExpression(cidr).expand()))

# 3. other wildcard arguments (including the documented None and an empty string)
for cidr in ["0.0.0.0/0", "10.0.0.0/7", "192.168.1.0/24", "1.2.3.4/32", "::/0", "fe80::/10",
             "::1/128", "2001:db8::/61", "fe80::/64"]:
    for wc in ["?", "", ".*", "%", None]:
        show(f"wc {cidr} {wc!r}", lambda: SigmaCIDRExpression(cidr).expand(wc))
    show(f"wc-kw {cidr}", lambda: SigmaCIDRExpression(cidr).expand(wildcard="<W>"))

# 4. validation: accepted spellings, rejected strings
for cidr in ["192.168.0.0/16", "192.168.0.1", "192.168.0.1/16", "192.168.0.0/255.255.0.0",
             "192.168.0.0/0.0.255.255", "10.0.0.0/33", "10.0.0/8", "256.0.0.0/8", "", "/", "abc",
             "::1", "fe80::1%eth0/128", "fe80::%1/64", "fe80::/129", "1::2::3/64", "::ffff:1.2.3.4/128",
             " 10.0.0.0/8", "10.0.0.0/8 ", "10.0.0.0/-1", "10.0.0.0/08", "%"]:
    def build():
        e = SigmaCIDRExpression(cidr)
        return (str(e), repr(e.network), e.expand())
    show(f"valid {cidr!r}", build)

# 5. equality / str / modifier
show("eq", lambda: SigmaCIDRExpression("10.0.0.0/8") == SigmaCIDRExpression("10.0.0.0/8"))
show("neq", lambda: SigmaCIDRExpression("10.0.0.0/8") == SigmaCIDRExpression("10.0.0.0/9"))
di = SigmaDetectionItem("f", [], [])
show("mod", lambda: SigmaCIDRModifier(di, []).modify(SigmaString("172.16.0.0/12")).expand())
show("mod-bad", lambda: SigmaCIDRModifier(di, []).modify(SigmaString("172.16.0.0/40")))
show("mod-chain", lambda: SigmaCIDRModifier(di, [SigmaCIDRModifier]).modify(SigmaString("10.0.0.0/8")))


# 6. conversion: expanded and native
class NativeBackend(TextQueryTestBackend):
    cidr_expression = "cidrmatch({field}, \"{value}\", {network}, {prefixlen}, {netmask})"


class ExpandingBackend(TextQueryTestBackend):  # no native CIDR support: values are expanded
    cidr_expression = None


class ExpandingNoInBackend(ExpandingBackend):  # ... and no in-expressions for the alternatives
    convert_or_as_in = False
    field_in_list_expression = None


RULE = """
title: t
status: test
logsource:
    category: test
detection:
    sel:
        ip|cidr: {values}
    other:
        x: 1
    condition: {condition}
"""

for values in ["10.0.0.0/8", "192.168.1.77/23", "[10.0.0.0/15, '::1/128']", "fe80::/10",
               "2001:db8:0:0:1::/79", "0.0.0.0/0", "1.2.3.4/32", "fe80::1%eth0/128", "10.0.0.0/33"]:
    for condition in ["sel", "sel and other", "not sel", "not sel and other", "sel or other"]:
        for backend_class in (ExpandingBackend, ExpandingNoInBackend, NativeBackend):
            def conv():
                rules = SigmaCollection.from_yaml(RULE.format(values=values, condition=condition))
                if rules.errors:
                    raise rules.errors[0]
                return backend_class().convert(rules)
            show(f"conv {backend_class.__name__} {values} [{condition}]", conv)
