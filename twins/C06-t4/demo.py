"""Round trip of detections through to_plain()/to_dict(), with emphasis on the merging of
detection items back into maps and lists (SigmaDetection.to_plain)."""
import yaml
from sigma.rule import SigmaRule, SigmaDetection, SigmaDetectionItem
from sigma.conditions import ConditionAND, ConditionOR
from sigma.modifiers import (
    SigmaAllModifier,
    SigmaContainsModifier,
    SigmaStartswithModifier,
    SigmaRegularExpressionModifier,
)
from sigma.types import SigmaString, SigmaNumber, SigmaNull, SigmaBool
from sigma.exceptions import SigmaError
from sigma.backends.test import TextQueryTestBackend
from sigma.collection import SigmaCollection
from sigma.processing.pipeline import ProcessingPipeline, ProcessingItem
from sigma.processing.transformations import (
    FieldMappingTransformation,
    ReplaceStringTransformation,
    AddConditionTransformation,
)


def show(label, fn):
    try:
        print(label, "->", repr(fn()))
    except SigmaError as e:
        print(label, "-> SigmaError", type(e).__name__, str(e))
    except Exception as e:  # anything else is shown as well
        print(label, "-> Exception", type(e).__name__, str(e))


HEAD = """
title: Test
id: 5013332f-8a70-4a04-bcc1-06a98a2cca2e
status: test
logsource:
    category: process_creation
    product: windows
"""

DETECTIONS = {
    "map": {"sel": {"a": "x", "b|contains": ["y", "z*"], "c": None, "d": 5}, "condition": "sel"},
    "keywords": {"sel": ["kw1", "kw 2", 3], "condition": "sel"},
    "single keyword": {"sel": "kw", "condition": "sel"},
    "list of maps": {
        "sel": [{"a": "x", "b": "y"}, {"a|startswith": "q", "c|all": ["1", "2"]}],
        "condition": "sel",
    },
    "keyword modifiers": {"sel": {"|contains|all": ["a", "b"]}, "condition": "sel"},
    "regex": {"sel": {"f|re": ["a\\*b.*", "\\\\d+"], "g|re|i": "x?y"}, "condition": "sel"},
    "escapes": {"sel": {"f": ["a\\*b", "a\\\\*b", "que\\?", "%ph%"]}, "condition": "sel"},
    "empty": {"sel": {"f": "", "g": []}, "condition": "sel"},
    "bools": {"sel": {"f": True, "g|exists": False}, "condition": "sel"},
    "cidr": {"sel": {"ip|cidr": ["10.0.0.0/8", "::1/128"]}, "condition": "sel"},
    "neq": {"sel": {"f|neq": ["a", "b"]}, "filter": {"g|lt": 5}, "condition": "sel and not filter"},
    "two conditions": {
        "s1": {"a": 1},
        "s2": [{"b": 2}, {"c": [3, 4]}],
        "condition": ["s1 and s2", "1 of s*"],
    },
    "nested lists": {"sel": [["a", "b"], ["c"]], "condition": "sel"},
    "mixed list": {"sel": ["kw", {"a": "b"}], "condition": "sel"},
}

backend = TextQueryTestBackend()

print("== rule round trips")
for name, det in DETECTIONS.items():
    doc = yaml.safe_load(HEAD)
    doc["detection"] = det

    def roundtrip():
        rule = SigmaRule.from_dict(doc)
        d = rule.to_dict()
        rule2 = SigmaRule.from_dict(d)
        y = yaml.safe_dump(d, sort_keys=False)
        rule3 = SigmaRule.from_yaml(y)
        q1 = backend.convert(SigmaCollection([rule]))
        q2 = backend.convert(SigmaCollection([rule2]))
        q3 = backend.convert(SigmaCollection([rule3]))
        return (d["detection"], rule2.to_dict() == d, rule3.to_dict() == d, q1, q1 == q2 == q3)

    show(name, roundtrip)


def item(field, mods, vals):
    return SigmaDetectionItem(field, mods, vals)


S = SigmaString
print("== programmatically built detections (merge logic)")
CASES = {
    "same key twice": [item("f", [], [S("a")]), item("f", [], [S("b")])],
    "same key three times": [item("f", [], [S("a")]), item("f", [], [S("b")]), item("f", [], [S("c")])],
    "same key, all key exists plain": [
        item("f", [SigmaAllModifier], [S("0")]),
        item("f", [], [S("a")]),
        item("f", [], [S("b")]),
    ],
    "same key, all key exists list": [
        item("f", [SigmaAllModifier], [S("0"), S("1")]),
        item("f", [], [S("a")]),
        item("f", [], [S("b")]),
    ],
    "all key twice plain": [
        item("f", [SigmaContainsModifier, SigmaAllModifier], [S("a")]),
        item("f", [SigmaContainsModifier, SigmaAllModifier], [S("b")]),
    ],
    "all key twice lists": [
        item("f", [SigmaContainsModifier, SigmaAllModifier], [S("a"), S("b")]),
        item("f", [SigmaContainsModifier, SigmaAllModifier], [S("c"), S("d")]),
        item("f", [SigmaContainsModifier, SigmaAllModifier], [S("e")]),
    ],
    "list collision": [item("f", [], [S("a"), S("b")]), item("f", [], [S("c")])],
    "list collision 2": [item("f", [], [S("c")]), item("f", [], [S("a"), S("b")])],
    "empty list collision": [item("f", [], []), item("f", [], [S("c")])],
    "number and null": [item("f", [], [SigmaNumber(1)]), item("f", [], [SigmaNull()])],
    "different keys": [item("f", [], [S("a")]), item("g", [SigmaStartswithModifier], [S("b"), S("c")])],
    "keywords": [item(None, [], [S("a")]), item(None, [], [S("b"), S("c")]), item(None, [], [SigmaNumber(4)])],
    "keywords with empty": [item(None, [], []), item(None, [], [S("b")])],
    "mixed keyword and map": [item(None, [], [S("a")]), item("f", [], [S("b")])],
    "keyword modifier collision": [
        item(None, [SigmaContainsModifier], [S("a")]),
        item(None, [SigmaContainsModifier], [S("b")]),
    ],
    "regex collision": [
        item("f", [SigmaRegularExpressionModifier], [S("a.*")]),
        item("f", [SigmaRegularExpressionModifier], [S("b\\d")]),
    ],
    "single": [item("f", [], [S("a"), S("b")])],
    "none": [],
    "out of sync": [item("f", [], [S("a")]), item("g", [], [S("b")])],
}
for name, items in CASES.items():
    for linking in (ConditionAND, ConditionOR):
        def build():
            det = SigmaDetection(list(items), item_linking=linking)
            if name == "out of sync":
                det.detection_items[1].disable_conversion_to_plain()
            plain = det.to_plain()
            again = SigmaDetection.from_definition(plain).to_plain()
            return plain, again

        show(f"{name} [{linking.__name__}]", build)

print("== neq collision via from_mapping")
show(
    "neq twice",
    lambda: SigmaDetection(
        [SigmaDetectionItem.from_mapping("f|neq", "a"), SigmaDetectionItem.from_mapping("f|neq", "b")]
    ).to_plain(),
)
show(
    "neq|all twice",
    lambda: SigmaDetection(
        [
            SigmaDetectionItem.from_mapping("f|contains|all", ["a", "b"]),
            SigmaDetectionItem.from_mapping("f|contains|all", "c"),
            SigmaDetectionItem.from_mapping("f|contains", "d"),
            SigmaDetectionItem.from_mapping("f|contains", "e"),
        ]
    ).to_plain(),
)

print("== nested detections")
show(
    "detections OR",
    lambda: SigmaDetection(
        [SigmaDetection([item("a", [], [S("1")])]), SigmaDetection([item("b", [], [S("2")])])]
    ).to_plain(),
)
show(
    "detections AND",
    lambda: SigmaDetection(
        [SigmaDetection([item("a", [], [S("1")])]), SigmaDetection([item("b", [], [S("2")])])],
        item_linking=ConditionAND,
    ).to_plain(),
)
show(
    "detections and items mixed",
    lambda: SigmaDetection([SigmaDetection([item("a", [], [S("1")])]), item("b", [], [S("2")])]).to_plain(),
)

print("== after pipeline transformations")
PIPELINES = {
    "field mapping": lambda: FieldMappingTransformation({"a": "A", "b": ["B1", "B2"]}),
    "field mapping 1:1": lambda: FieldMappingTransformation({"a": "A", "c": "C"}),
    "replace string": lambda: ReplaceStringTransformation("x", "XX"),
    "add condition": lambda: AddConditionTransformation({"idx": "main", "a": "second"}, name="extra"),
}
for pname, tr in PIPELINES.items():
    for name in ("map", "keywords", "list of maps", "two conditions"):
        doc = yaml.safe_load(HEAD)
        doc["detection"] = DETECTIONS[name]

        def transformed():
            rule = SigmaRule.from_dict(doc)
            ProcessingPipeline([ProcessingItem(tr())]).apply(rule)
            d = rule.to_dict()
            rule2 = SigmaRule.from_dict(d)
            return d["detection"], rule2.to_dict() == d, backend.convert(SigmaCollection([rule2]))

        show(f"{pname} / {name}", transformed)
