"""Demo for C20/t6: SigmaCorrelationCondition.from_dict results and error strings,
run in subprocesses with different PYTHONHASHSEED values; all runs must agree."""
import hashlib
import os
import subprocess
import sys

DRIVER = r'''
import collections, random, sys
random.seed(int(sys.argv[1]))
import sigma.correlations
from sigma.correlations import SigmaCorrelationCondition as C, SigmaCorrelationRule
from sigma.collection import SigmaCollection
from sigma.exceptions import SigmaError, SigmaRuleLocation
from sigma.backends.test import TextQueryTestBackend

class StrSub(str):
    pass

class Missing(dict):
    def __missing__(self, key):
        return 7

src = SigmaRuleLocation("/nonexistent/demo.yml")
inputs = [
    {"gte": 10},
    {"lt": 3.0},
    {"lte": 2.5, "field": "user"},
    {"gt": "17"},
    {"eq": True},
    {"neq": 1, "field": ["a", "b"], "percentile": 95},
    {"gte": 1, "percentile": 99.5},
    {"gte": 1, "percentile": 50.0},
    {"gte": 1, "percentile": None},
    {"gte": 1, "percentile": "abc"},
    {"gte": 1, "percentile": float("nan")},
    {"gte": 1, "percentile": float("inf")},
    {"gte": 10 ** 400 * 1.0 if False else 1e308 * 10},
    {"gte": float("nan")},
    {"gte": "x"},
    {"gte": None},
    {"gte": [1]},
    {"gte": {}},
    {"gte": ""},
    {"gte": " 12 "},
    {"gte": 1, "lte": 2},
    {"gte": 1, "lte": 2, "zzz": 1},
    {},
    {"field": "x"},
    {"percentile": 5},
    {"GTE": 1},
    {"gte": 1, "zeta": 1, "alpha": 2, "Beta": 3, "mid": 4, "_x": 5, "10": 6, "9": 7},
    {"gte": 1, 5: "int key", None: "none key", (1, 2): "tuple key", 2.5: "f"},
    {"gte": 1, "field": None},
    {"gte": 1, "field": ""},
    {"gte": 1, "field": 0},
    {"gte": 1, "Field": "x", "Percentile": 1},
    {StrSub("gte"): 4, "field": "f"},
    {StrSub("gte"): "bad"},
    collections.OrderedDict([("percentile", 10), ("field", "f"), ("eq", 0)]),
    Missing({"gte": 2}),
    Missing({}),
    Missing({"zz": 2}),
]
for d in inputs:
    for s in (None, src):
        try:
            c = C.from_dict(d, source=s)
            print("OK ", repr(d), "->", repr(c), "|", repr(c.to_dict()), type(c.count).__name__,
                  type(c.percentile).__name__, repr(c.source))
        except Exception as e:
            ctx = type(e.__context__).__name__ if e.__context__ is not None else None
            print("ERR", repr(d), "->", type(e).__name__, str(e), "| ctx:", ctx,
                  "| src:", repr(getattr(e, "source", None)))

# class surface of the dataclass is unchanged as far as users can see
import dataclasses
print([f.name for f in dataclasses.fields(C)])
print(repr(C(sigma.correlations.SigmaCorrelationConditionOperator.GTE, 1)))
print(C(sigma.correlations.SigmaCorrelationConditionOperator.GTE, 1)
      == C(sigma.correlations.SigmaCorrelationConditionOperator.GTE, 1))

# End to end: correlation rules through the collection and a backend, errors collected.
yaml_rules = """
title: Base
name: base_rule
status: test
logsource:
    category: test
detection:
    sel:
        fieldA: value1
        fieldB|re|i|m|s: 'a.*b'
    condition: sel
---
title: Corr ok
status: test
correlation:
    type: event_count
    rules:
        - base_rule
    group-by:
        - fieldC
        - fieldD
    timespan: 15m
    condition:
        gte: 10
---
title: Corr value count
status: test
correlation:
    type: value_count
    rules:
        - base_rule
    group-by:
        - fieldC
    timespan: 1h
    condition:
        lt: 3
        field: fieldD
---
title: Corr bad keys
status: test
correlation:
    type: event_count
    rules:
        - base_rule
    group-by:
        - fieldC
    timespan: 15m
    condition:
        gte: 10
        zulu: 1
        alpha: 2
        mike: 3
        Bravo: 4
---
title: Corr two ops
status: test
correlation:
    type: event_count
    rules:
        - base_rule
    group-by:
        - fieldC
    timespan: 15m
    condition:
        gte: 10
        lt: 20
---
title: Corr bad count
status: test
correlation:
    type: event_count
    rules:
        - base_rule
    group-by:
        - fieldC
    timespan: 15m
    condition:
        gte: many
---
title: Corr bad percentile
status: test
correlation:
    type: event_count
    rules:
        - base_rule
    group-by:
        - fieldC
    timespan: 15m
    condition:
        gte: 10
        field: fieldD
        percentile: high
---
title: Corr good percentile
status: test
correlation:
    type: value_count
    rules:
        - base_rule
    group-by:
        - fieldC
    timespan: 15m
    condition:
        lte: 10.0
        field: fieldD
        percentile: 97.5
"""
coll = SigmaCollection.from_yaml(yaml_rules, collect_errors=True)
for r in coll.rules:
    print("RULE", r.title, [str(e) for e in r.errors])
    if isinstance(r, SigmaCorrelationRule) and not r.errors:
        print("   cond", repr(r.condition), r.to_dict().get("correlation", {}).get("condition"))
good = SigmaCollection([r for r in coll.rules if not r.errors])
good.resolve_rule_references()
backend = TextQueryTestBackend()
try:
    for q in backend.convert(good):
        print("QUERY", q)
except SigmaError as e:
    print("CONVERT ERR", type(e).__name__, e)
'''


def main() -> int:
    outputs = {}
    for hashseed, rndseed in (("0", "1"), ("1", "2"), ("42", "3"), ("31337", "4"), ("random", "5")):
        env = dict(os.environ, PYTHONHASHSEED=hashseed)
        res = subprocess.run(
            [sys.executable, "-c", DRIVER, rndseed], env=env, capture_output=True, text=True
        )
        if res.returncode != 0:
            print(res.stdout)
            print(res.stderr)
            return 1
        outputs[(hashseed, rndseed)] = res.stdout
    first = next(iter(outputs.values()))
    print(first)
    for key, out in outputs.items():
        print(key, hashlib.sha256(out.encode()).hexdigest())
    if len(set(outputs.values())) != 1:
        print("OUTPUT DIFFERS BETWEEN PROCESSES")
        return 1
    print("all runs identical")
    return 0


if __name__ == "__main__":
    sys.exit(main())
