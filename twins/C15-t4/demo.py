"""Demo for property C15: converting a rule gives the same result whatever was converted before.

Exercises convert_rule()/convert() of the text test backend (fresh ConversionState per condition,
pipeline state copied into every state, callbacks, deferred expressions, errors raised while
converting) after various histories and prints everything that is observed.
"""

import sys
from dataclasses import dataclass
from typing import ClassVar

import sigma.conditions
import sigma.modifiers
from sigma.backends.test import TextQueryTestBackend
from sigma.collection import SigmaCollection
from sigma.conversion.deferred import DeferredTextQueryExpression
from sigma.conversion.state import ConversionState
from sigma.exceptions import SigmaError
from sigma.processing.pipeline import ProcessingPipeline
from sigma.rule import SigmaRule

pass

PIPELINE = """
name: demo
priority: 10
transformations:
  - id: idx_win
    type: set_state
    key: index
    val: windows
    rule_conditions:
      - type: logsource
        product: windows
  - id: map
    type: field_name_mapping
    mapping:
      User: user.name
      Image:
        - process.exe
        - process.image
  - id: fail_linux_net
    type: rule_failure
    message: linux network rules are not supported
    rule_conditions:
      - type: logsource
        product: linux
        category: network_connection
"""


def rule(title, logsource, detection):
    return f"title: {title}\nlogsource:\n{logsource}detection:\n{detection}"


WIN = "    product: windows\n    category: process_creation\n"
LIN = "    product: linux\n    category: network_connection\n"
OTH = "    product: other\n"

RULES = {
    "simple": rule(
        "simple", WIN, "    sel:\n        User: admin\n        Image|endswith: '\\cmd.exe'\n    condition: sel\n"
    ),
    "multi_cond": rule(
        "multi_cond",
        WIN,
        "    sel:\n        User: admin\n    filter:\n        Image|contains: evil\n"
        "    condition:\n        - sel\n        - sel and not filter\n        - not sel\n",
    ),
    "regex": rule(
        "regex",
        OTH,
        "    sel:\n        fieldA|re: 'foo.*bar'\n        fieldB: 1\n    filter:\n        fieldC|re: '^x$'\n"
        "    condition: sel and not filter\n",
    ),
    "regex_only": rule("regex_only", OTH, "    sel:\n        fieldA|re: 'a+'\n    condition: sel\n"),
    "one_of": rule(
        "one_of",
        OTH,
        "    sel1:\n        a: 1\n    sel2:\n        b|cidr: 10.0.0.0/8\n    selx:\n        c: null\n"
        "    condition: 1 of sel* and not selx\n",
    ),
    "keywords": rule(
        "keywords", WIN, "    keywords:\n        - foo\n        - 'bar*baz'\n        - 123\n    condition: keywords\n"
    ),
    "negated_in": rule(
        "negated_in",
        OTH,
        "    sel:\n        f|startswith:\n            - a\n            - b\n    sel2:\n        g|cased|contains: X\n"
        "    condition: not sel and not sel2\n",
    ),
    "fail_pipeline": rule("fail_pipeline", LIN, "    sel:\n        User: root\n    condition: sel\n"),
    "bad_ident": rule("bad_ident", WIN, "    sel:\n        User: admin\n    condition: sel and missing\n"),
    "bad_syntax": rule("bad_syntax", WIN, "    sel:\n        User: admin\n    condition: sel and and sel\n"),
    "pipe": rule("pipe", WIN, "    sel:\n        User: admin\n    condition: sel | count() > 3\n"),
    "empty_val": rule("empty_val", OTH, "    sel:\n        a: ''\n        b: []\n    condition: sel\n"),
    "unsupported": rule(
        "unsupported", OTH, "    sel:\n        a|fieldref|startswith: b\n        c|gt: 4\n    condition: sel\n"
    ),
    "no_output": rule("no_output", WIN, "    sel:\n        User: admin\n    condition: sel\n"),
}


@dataclass
class DeferredRegex(DeferredTextQueryExpression):
    template: ClassVar[str] = 'regex {field}{op}"{value}"'
    operators: ClassVar[dict] = {True: "!=", False: "="}
    default_field: ClassVar[str] = "_"


class DeferringBackend(TextQueryTestBackend):
    """Test backend that defers regular expressions and refuses one particular value."""

    def convert_condition_field_eq_val_re(self, cond, state):
        return DeferredRegex(state, cond.field, cond.value.regexp)

    def convert_condition_field_compare_op_val(self, cond, state):
        if cond.value.number.number == 4:
            raise ValueError("number four is cursed", "second arg")
        return super().convert_condition_field_compare_op_val(cond, state)


class NotEqBackend(TextQueryTestBackend):
    convert_not_as_not_eq = True
    not_eq_token = "!="
    not_eq_expression = "{field}{backend.not_eq_token}{value}"
    not_startswith_expression = "{field} not_startswith {value}"
    case_sensitive_not_contains_expression = "{field} not_contains_cased {value}"

    def convert_condition_field_eq_val_cidr(self, cond, state):
        raise NotImplementedError("no cidr here")


def load(name):
    return SigmaRule.from_yaml(RULES[name])


def describe(exc):
    return f"{type(exc).__name__}: {exc}"


def run(backend, name, output_format=None, callback=None, via_collection=False):
    """Convert one freshly loaded rule and describe everything observable afterwards."""
    r = load(name)
    before_errors = len(backend.errors)
    try:
        if via_collection:
            res = backend.convert(SigmaCollection([r]), output_format, callback=callback)
        else:
            res = backend.convert_rule(r, output_format, callback)
    except Exception as e:  # noqa
        res = describe(e)
    states = getattr(r, "_conversion_states", None)
    state_desc = (
        None
        if states is None
        else [
            (sorted(s.processing_state.items()), [d.finalize_expression() for d in s.deferred])
            for s in states
        ]
    )
    distinct = None if states is None else len({id(s) for s in states}) == len(states)
    distinct_ps = (
        None if states is None else len({id(s.processing_state) for s in states}) == len(states)
    )
    return {
        "result": res,
        "conversion_result": getattr(r, "_conversion_result", None),
        "states": state_desc,
        "states_distinct": (distinct, distinct_ps),
        "new_errors": [(e[0].title, describe(e[1])) for e in backend.errors[before_errors:]],
        "pipeline_state_after": sorted(backend.last_processing_pipeline.state.items())
        if hasattr(backend, "last_processing_pipeline")
        else None,
    }


def tagging_callback(log):
    def cb(rule, output_format, index, cond, result):
        log.append((rule.title, output_format, index, cond.condition, result))
        if result is None:
            return None
        if index == 2:
            return None  # drop third query
        return f"<{index}>{result}"

    return cb


def fresh_backend(cls, collect_errors=False):
    sigma.conditions._parse_condition_string.cache_clear()
    sigma.modifiers.SigmaModifier._type_hint_cache.clear()
    return cls(ProcessingPipeline.from_yaml(PIPELINE), collect_errors=collect_errors)


HISTORIES = [
    [],
    ["simple"],
    ["multi_cond", "regex", "regex_only"],
    ["fail_pipeline", "bad_ident", "bad_syntax", "pipe"],
    ["unsupported", "one_of", "negated_in"],
    ["keywords", "empty_val", "multi_cond", "unsupported", "fail_pipeline", "regex", "one_of", "pipe"],
]
PROBES = list(RULES)
FORMATS = [None, "state", "test"]

mismatches = 0
for cls in (TextQueryTestBackend, DeferringBackend, NotEqBackend):
    for collect in (False, True):
        for fmt in FORMATS:
            for probe in PROBES:
                reference = run(fresh_backend(cls, collect), probe, fmt)
                print(f"{cls.__name__} collect={collect} fmt={fmt} probe={probe}: {reference}")
                for hno, history in enumerate(HISTORIES[1:], 1):
                    backend = fresh_backend(cls, collect)
                    for i, h in enumerate(history):
                        run(backend, h, fmt, via_collection=(i % 2 == 0))
                        if i == 1:  # second backend of the same class sharing the pipeline object
                            other = cls(backend.processing_pipeline, collect_errors=collect)
                            run(other, h, "state")
                    observed = run(backend, probe, fmt)
                    if observed != reference:
                        mismatches += 1
                        print(f"  MISMATCH after history {hno}: {observed}")

# callbacks: every condition is reported, with raw output format, results replaced / dropped
for cls in (TextQueryTestBackend, DeferringBackend):
    for fmt in (None, "state"):
        for probe in ("multi_cond", "regex", "empty_val", "bad_ident", "unsupported"):
            log = []
            backend = fresh_backend(cls, True)
            run(backend, "simple", fmt)
            out = run(backend, probe, fmt, callback=tagging_callback(log))
            print(f"callback {cls.__name__} fmt={fmt} probe={probe}: {out}\n   log={log}")

# rule that is referenced by a correlation keeps raw queries; rule without output returns nothing
CORR = (
    RULES["multi_cond"].replace("title: multi_cond", "title: multi_cond\nname: base_rule")
    + "---\ntitle: corr\ncorrelation:\n    type: event_count\n    rules:\n        - base_rule\n"
    "    group-by:\n        - User\n    timespan: 5m\n    condition:\n        gte: 10\n"
)
for generate in (False, True):
    backend = fresh_backend(TextQueryTestBackend)
    run(backend, "regex")
    text = CORR if not generate else CORR.replace("        - base_rule\n", "        - base_rule\n    generate: true\n")
    coll = SigmaCollection.from_yaml(text)
    try:
        print(f"correlation generate={generate}:", backend.convert(coll))
    except Exception as e:  # noqa
        print(f"correlation generate={generate}:", describe(e))
    base = coll.rules[0]
    print("   base result:", base.get_conversion_result())
    print("   base states:", [sorted(s.processing_state.items()) for s in base.get_conversion_states()])

# mutation of one state must not be visible in the state of another condition or in the pipeline
backend = fresh_backend(TextQueryTestBackend)
r = load("multi_cond")
backend.convert_rule(r, "state")
states = r.get_conversion_states()
states[0].processing_state["index"] = "tampered"
print("isolation:", [s.processing_state for s in states], backend.last_processing_pipeline.state)
print("after tamper:", run(backend, "multi_cond", "state")["result"])

print("mismatches:", mismatches)
sys.exit(0 if mismatches == 0 else 1)
