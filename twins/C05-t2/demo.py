"""Demo for t2: the Sigma string parser (SigmaString.__init__) and the plain rendering (to_plain).

Prints parsed parts, plain form, reduced-escaping plain form, re-parse of the plain form and the
round trip verdict for a handful of unusual values, then a digest over an exhaustive sweep of all
strings up to length 6 over {backslash, *, ?, a, %}.
"""
import hashlib
import itertools

from sigma.types import (
    Placeholder,
    SigmaCasedString,
    SigmaRegularExpression,
    SigmaString,
    SpecialChars,
)

VALUES = [
    None,
    "",
    "plain",
    "*",
    "?",
    "a*b?c",
    "\\*",
    "\\?",
    "\\\\*",  # escaped backslash, then wildcard
    "\\\\\\*",  # escaped backslash, then escaped wildcard
    "\\\\\\\\",
    "a\\b",
    "a\\",
    "a\\\\",
    "\\",
    "\\a\\*\\b",
    "*\\**",
    "??\\??",
    "C:\\Windows\\*\\cmd.exe",
    "\\\\server\\share\\?",
    "ünï*cödé\\?",
    "%var%*",
    "tab\there\nnewline*",
]


ESC_SAMPLE = "a\\*b\\\\?"
CASED_SAMPLE = "A\\*b*\\\\"


def describe(s):
    plain = s.to_plain()
    again = type(s)(plain)
    return (
        f"parts={s.s!r} original={s.original!r} plain={plain!r} str={str(s)!r} "
        f"plain_regex={s.to_plain_regex()!r} bytes={bytes(s)!r} len={len(s)} "
        f"reparsed={again.s!r} roundtrip={again.s == s.s}"
    )


def main():
    print("== parsing with escaping ==")
    for v in VALUES:
        print(f"{v!r}: {describe(SigmaString(v))}")
    print("== parsing without escaping ==")
    for v in VALUES:
        print(f"{v!r}: {describe(SigmaString(v, escape=False))}")
    print("== other truthy/falsy escape arguments, subclass ==")
    for esc in (0, 1, "", "x", None):
        print(f"escape={esc!r}: {SigmaString(ESC_SAMPLE, esc).s!r}")
    print(f"cased: {describe(SigmaCasedString(CASED_SAMPLE))}")

    print("== hand-built part lists ==")
    built = SigmaString()
    built.s = ["a*?\\", SpecialChars.WILDCARD_MULTI, "", Placeholder("p"), "\\*", SpecialChars.WILDCARD_SINGLE]
    print(describe(built))
    print(f"regex arg truthy: {built.to_plain(regex=1)!r} falsy: {built.to_plain(regex=0)!r}")
    ph = SigmaString("x\\*%var%\\?*").insert_placeholders()
    print(describe(ph))
    bad = SigmaString()
    bad.s = ["ok", SpecialChars.WILDCARD_MULTI, 42, "never"]
    for regex in (False, True):
        try:
            print(bad.to_plain(regex))
        except TypeError as e:
            print(f"TypeError: {e}")
    r = SigmaRegularExpression("a\\*b.*\\\\c?")
    print(f"regex: parts={r.regexp.s!r} plain={r.to_plain()!r} str={str(r.regexp)!r}")

    print("== non-string input ==")
    for weird in (["ab", "*", "\\", "?", "\\", "x"], ("\\",), 5):
        try:
            print(f"{weird!r}: {SigmaString(weird).s!r}")
        except TypeError as e:
            print(f"{weird!r}: TypeError: {e}")

    print("== exhaustive sweep ==")
    alphabet = ["\\", "*", "?", "a", "%"]
    h = hashlib.sha256()
    n = fails = 0
    for length in range(0, 7):
        for chars in itertools.product(alphabet, repeat=length):
            v = "".join(chars)
            for esc in (True, False):
                s = SigmaString(v, esc)
                plain = s.to_plain()
                again = SigmaString(plain)
                h.update(repr((s.s, plain, s.to_plain(True), again.s)).encode())
                n += 1
                fails += again.s != s.s
    print(f"{n} strings, {fails} plain forms that re-parse differently, sha256 {h.hexdigest()}")


if __name__ == "__main__":
    main()
