"""Demo for C06/t6: merging detection items back into plain data (SigmaDetection.to_plain) and
round trips of rules through to_dict / YAML, also after pipeline transformations."""
import yaml

from sigma.backends.test import TextQueryTestBackend
from sigma.conditions import ConditionAND, ConditionOR
from sigma.exceptions import SigmaError, SigmaRuleLocation
from sigma.modifiers import SigmaAllModifier, SigmaContainsModifier
from sigma.processing.pipeline import ProcessingItem, ProcessingPipeline
from sigma.processing.transformations import (
    FieldMappingTransformation,
    AddFieldnamePrefixTransformation,
)
from sigma.rule import SigmaDetection, SigmaDetectionItem, SigmaRule
from sigma.types import SigmaNull, SigmaNumber, SigmaString, SigmaBool

S = SigmaString
LOC = SigmaRuleLocation("demo.yml")


def show(label, fn):
    try:
        res = fn()
        print(f"{label}: OK {res!r}")
    except SigmaError as e:
        print(f"{label}: {type(e).__name__}: {e}")
    except Exception as e:  # unexpected classes are shown as well, must be the same on both sides
        print(f"{label}: UNEXPECTED {type(e).__name__}: {e}")


def det(items, linking=None):
    d = SigmaDetection(detection_items=items, source=LOC)
    if linking is not None:
        d.item_linking = linking
    return d


def fm(key, val):
    return SigmaDetectionItem.from_mapping(key, val)


# ---- 1. programmatic detections: merge of maps ----
cases = {
    "single": lambda: det([fm("f", "v")]),
    "two distinct": lambda: det([fm("a", "1"), fm("b", [1, 2])]),
    "collision plain": lambda: det([fm("f", "v1"), fm("f", "v2")]),
    "collision plain x3": lambda: det([fm("f", "v1"), fm("f", "v2"), fm("f", "v3")]),
    "collision plain x4": lambda: det([fm("f", "v1"), fm("f", "v2"), fm("f", "v3"), fm("f", "v4")]),
    "collision single-valued list": lambda: det([fm("f", ["v1"]), fm("f", "v2")]),
    "collision lists": lambda: det([fm("f", ["v1", "v2"]), fm("f", ["v3", "v4"])]),
    "collision list+plain": lambda: det([fm("f", ["v1", "v2"]), fm("f", "v3")]),
    "collision plain+list": lambda: det([fm("f", "v3"), fm("f", ["v1", "v2"])]),
    "all collision": lambda: det([fm("f|all", "v1"), fm("f|all", "v2")]),
    "all collision lists": lambda: det([fm("f|all", ["v1", "v2"]), fm("f|all", ["v3", "v4"])]),
    "all collision list+plain": lambda: det([fm("f|all", ["v1", "v2"]), fm("f|all", "v3")]),
    "all then plain twice": lambda: det([fm("f|all", ["v1", "v2"]), fm("f", "v3"), fm("f", "v4")]),
    "plain all(single) then plain twice": lambda: det(
        [fm("f|all", "v1"), fm("f", "v3"), fm("f", "v4")]
    ),
    "plain twice then all": lambda: det([fm("f", "v3"), fm("f", "v4"), fm("f|all", ["v1", "v2"])]),
    "plain + all no collision": lambda: det([fm("f", "v1"), fm("f|all", ["v2", "v3"])]),
    "contains collision": lambda: det([fm("f|contains", "a"), fm("f|contains", "b")]),
    "contains|all collision": lambda: det(
        [fm("f|contains|all", ["a", "b"]), fm("f|contains|all", "c")]
    ),
    "neq collision": lambda: det([fm("f|neq", "a"), fm("f|neq", "b")]),
    "contains|neq collision": lambda: det([fm("f|contains|neq", "a"), fm("f|contains|neq", "b")]),
    "field named neq": lambda: det([fm("neq", "a"), fm("neq", "b")]),
    "field named x|all-ish": lambda: det([fm("all", "a"), fm("all", "b")]),
    "numbers": lambda: det([fm("n", 1), fm("n", 2), fm("m", [3])]),
    "null + string": lambda: det([fm("f", None), fm("f", "x")]),
    "bools": lambda: det([fm("f", True), fm("f", False)]),
    "re collision": lambda: det([fm("f|re", "a.*"), fm("f|re", "b.*")]),
    "cidr collision": lambda: det([fm("f|cidr", "10.0.0.0/8"), fm("f|cidr", "192.168.0.0/16")]),
    "keywords": lambda: det(
        [
            SigmaDetectionItem(None, [], [S("k1")]),
            SigmaDetectionItem(None, [], [S("k2"), S("k3")]),
            SigmaDetectionItem(None, [], [SigmaNumber(4)]),
        ]
    ),
    "keywords single": lambda: det([SigmaDetectionItem(None, [], [S("k1")])]),
    "keywords nested empty-ish": lambda: det(
        [SigmaDetectionItem(None, [], [S("")]), SigmaDetectionItem(None, [], [S("*")])]
    ),
    "keyword with modifier + keyword": lambda: det(
        [SigmaDetectionItem(None, [SigmaContainsModifier], [S("k1")]), fm("f", "v")]
    ),
    "map + keyword": lambda: det([fm("f", "v"), SigmaDetectionItem(None, [], [S("k")])]),
    "OR linked maps": lambda: det([fm("a", "1"), fm("b", "2")], ConditionOR),
    "OR linked collision": lambda: det([fm("a", "1"), fm("a", "2")], ConditionOR),
    "OR linked keywords": lambda: det(
        [SigmaDetectionItem(None, [], [S("k1")]), SigmaDetectionItem(None, [], [S("k2")])],
        ConditionOR,
    ),
    "nested detections": lambda: det([det([fm("a", "1")]), det([fm("a", "2"), fm("a", "3")])]),
    "nested AND detections": lambda: det([det([fm("a", "1")]), det([fm("b", "2")])], ConditionAND),
    "mixed item+detection": lambda: det([fm("a", "1"), det([fm("b", "2")])]),
}
for label, make in cases.items():
    show("plain  " + label, lambda: make().to_plain())
    # calling twice must give the same (no state kept between calls, inputs not changed)
    d = None
    try:
        d = make()
    except SigmaError as e:
        print("  construct failed", type(e).__name__, e)
    if d is not None:
        show("plain2 " + label, lambda: (d.to_plain(), d.to_plain())[1])

# aliasing of value lists: the plain value of an item must not change by merging
i1 = fm("f|all", ["v1", "v2"])
i2 = fm("f|all", ["v3"])
d = det([i1, i2])
show("alias merged", d.to_plain)
show("alias item1 after", i1.to_plain)
show("alias item2 after", i2.to_plain)

# ---- 2. rules: to_dict -> from_dict -> to_dict, YAML and conversion ----
backend = TextQueryTestBackend()


def roundtrip(label, rule):
    d1 = rule.to_dict()
    print(f"{label}: dict {d1!r}")
    y = yaml.safe_dump(d1, sort_keys=False)
    r2 = SigmaRule.from_dict(d1)
    r3 = SigmaRule.from_yaml(y)
    print(f"{label}: same dict after from_dict {r2.to_dict() == d1}, after yaml {r3.to_dict() == d1}")
    q1 = TextQueryTestBackend().convert_rule(rule)
    q2 = TextQueryTestBackend().convert_rule(r2)
    q3 = TextQueryTestBackend().convert_rule(r3)
    print(f"{label}: queries {q1!r} same {q1 == q2 == q3}")


def rule_of(detection):
    return {
        "title": "Demo",
        "id": "0ae5bd18-2a7c-4a3c-8c4e-6a1c5f0a3a10",
        "status": "test",
        "date": "2024/01/31",
        "modified": "2024-02-01",
        "tags": ["attack.t1059", "cve.2024-1234"],
        "logsource": {"category": "process_creation", "product": "windows"},
        "detection": detection,
        "custom": {"x": [1, 2]},
    }


rules = {
    "r-basic": {"sel": {"a": "1", "b|contains": ["x", "y"]}, "condition": "sel"},
    "r-all": {"sel": {"a|contains|all": ["x", "y"], "a": "z"}, "condition": "sel"},
    "r-list-of-maps": {"sel": [{"a": "1"}, {"a": "2", "b": 3}], "condition": "sel"},
    "r-keywords": {"kw": ["foo", "bar*", 5], "sel": {"a": None}, "condition": "kw and not sel"},
    "r-multi-cond": {"s1": {"a": "1"}, "s2": {"b": "2"}, "condition": ["s1", "s1 or s2"]},
    "r-neq": {"sel": {"a|neq": ["1", "2"], "b|re": "x.*\\\\"}, "condition": "sel"},
    "r-fieldref-exists": {"sel": {"a|fieldref": "b", "c|exists": True}, "condition": "sel"},
    "r-cidr-num": {"sel": {"ip|cidr": ["10.0.0.0/8", "::1/128"], "n|gte": 5}, "condition": "sel"},
}
for label, detection in rules.items():
    show("load   " + label, lambda: roundtrip(label, SigmaRule.from_dict(rule_of(detection))))

# ---- 3. rules after one pipeline transformation ----
pipelines = {
    "map two fields to one": ProcessingPipeline(
        items=[ProcessingItem(FieldMappingTransformation({"a": "x", "b": "x"}))]
    ),
    "map one field to two": ProcessingPipeline(
        items=[ProcessingItem(FieldMappingTransformation({"a": ["x", "y"]}))]
    ),
    "map all-field and plain to one": ProcessingPipeline(
        items=[ProcessingItem(FieldMappingTransformation({"c": "a"}))]
    ),
    "prefix": ProcessingPipeline(items=[ProcessingItem(AddFieldnamePrefixTransformation("p."))]),
}
piped_rules = {
    "p-two": {"sel": {"a": "1", "b": "2"}, "condition": "sel"},
    "p-two-lists": {"sel": {"a": ["1", "2"], "b": ["3", "4"]}, "condition": "sel"},
    "p-list-single": {"sel": {"a": ["1"], "b": "2"}, "condition": "sel"},
    "p-all": {"sel": {"a|contains|all": ["x", "y"], "c|contains|all": ["z"]}, "condition": "sel"},
    "p-all-plain": {"sel": {"a|all": ["x", "y"], "c": "z", "b": "w"}, "condition": "sel"},
    "p-neq": {"sel": {"a|neq": "1", "b|neq": "2"}, "condition": "sel"},
    "p-maps": {"sel": [{"a": "1"}, {"b": "2", "a": "3"}], "condition": "sel"},
}
for plabel, pipeline in pipelines.items():
    for rlabel, detection in piped_rules.items():
        label = f"{plabel} / {rlabel}"

        def run():
            rule = SigmaRule.from_dict(rule_of(detection))
            pipeline.apply(rule)
            d1 = rule.to_dict()
            r2 = SigmaRule.from_dict(d1)
            q1 = TextQueryTestBackend().convert_rule(rule)
            q2 = TextQueryTestBackend().convert_rule(r2)
            return d1["detection"], r2.to_dict() == d1, q1, q1 == q2

        show("piped  " + label, run)
