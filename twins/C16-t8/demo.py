"""Demo for property C16 (a pipeline file cannot grant itself code execution, file or network
access), focused on pipelines that are loaded through ProcessingPipelineResolver (by name, by file,
by directory) and, for comparison, directly through from_yaml/from_dict.

Run as: PYTHONPATH=/tmp/wt9-C16 /venv/bin/python demo.py
All scratch files live in ./_scratch next to this file (recreated on each run).
"""

import copy
import os
import shutil
import sys
from pathlib import Path

import yaml

from sigma.backends.test import TextQueryTestBackend
from sigma.collection import SigmaCollection
from sigma.exceptions import SigmaError
from sigma.processing.pipeline import ProcessingPipeline
from sigma.processing.resolver import ProcessingPipelineResolver
from sigma.processing.templates import TemplateBase
from sigma.processing.transformations import ExternalSourceBaseTransformation

HERE = Path(__file__).resolve().parent
BASE = HERE / "_scratch"
shutil.rmtree(BASE, ignore_errors=True)
PIPES = BASE / "pipes"
GOOD = PIPES / "good"
OUTSIDE = BASE / "outside"
PREFIX = BASE / "pipes-evil"  # shares the string prefix with PIPES
for directory in (PIPES, GOOD, OUTSIDE, PREFIX, PIPES / "sub"):
    directory.mkdir(parents=True)

EXECUTED = BASE / "executed.log"
VARS_SOURCE = """
with open({log!r}, "a") as f:
    f.write({name!r} + "\\n")
def shout(s):
    return str(s).upper() + "!"
vars = {{"shout": shout, "origin": {name!r}}}
"""
for directory, name in ((PIPES, "inside"), (PIPES / "sub", "below"), (OUTSIDE, "outside"), (PREFIX, "prefix")):
    (directory / f"vars_{name}.py").write_text(VARS_SOURCE.format(log=str(EXECUTED), name=name))
os.symlink(OUTSIDE / "vars_outside.py", PIPES / "vars_link.py")  # inside -> outside
os.symlink(PIPES / "vars_inside.py", OUTSIDE / "vars_backlink.py")  # outside -> inside
SECRET = BASE / "secret_source.txt"
SECRET.write_text("alpha\nbeta\n")

# ---------------------------------------------------------------------------------------------
# observation: audit events
# ---------------------------------------------------------------------------------------------
events: list[str] = []
WATCHED = ("secret_source.txt", "vars_inside.py", "vars_below.py", "vars_outside.py", "vars_prefix.py",
           "vars_link.py", "vars_backlink.py")


def audit(event: str, args: tuple) -> None:
    if event in ("subprocess.Popen", "os.system", "socket.connect", "socket.getaddrinfo"):
        events.append(event)
    elif event == "open" and isinstance(args[0], str) and args[0].endswith(WATCHED):
        events.append("open:" + os.path.basename(args[0]))
    elif event == "exec":
        filename = getattr(args[0], "co_filename", "")
        if isinstance(filename, str) and filename.endswith(WATCHED):
            events.append("exec:" + os.path.basename(filename))


sys.addaudithook(audit)


def clean(text: str) -> str:
    return text.replace(str(BASE), "<BASE>")


def executed() -> list[str]:
    if EXECUTED.exists():
        lines = EXECUTED.read_text().split()
        EXECUTED.unlink()
        return lines
    return []


def flags(pipeline: ProcessingPipeline, prefix: str = "") -> list[str]:
    """Capability flags of all items of a pipeline including nested ones."""
    result = []

    def describe(obj, where):
        parts = [where, type(obj).__name__]
        if isinstance(obj, ExternalSourceBaseTransformation):
            parts.append(f"allow_external_sources={obj.allow_external_sources!r}")
        if isinstance(obj, TemplateBase):
            parts.append(f"allow_template_vars={obj.allow_template_vars!r}")
            parts.append(f"vars_allowed_paths={clean(repr(obj.vars_allowed_paths))}")
        result.append(" ".join(parts))
        nested = getattr(obj, "_nested_pipeline", None)
        if nested is not None:
            result.extend(flags(nested, where + "/"))

    for i, item in enumerate(pipeline.items):
        describe(item.transformation, f"{prefix}t{i}")
    for i, item in enumerate(pipeline.postprocessing_items):
        describe(item.transformation, f"{prefix}p{i}")
    for i, finalizer in enumerate(pipeline.finalizers):
        describe(finalizer, f"{prefix}f{i}")
    return result


def chain(e: BaseException) -> str:
    names = []
    cur: BaseException | None = e
    while cur is not None:
        names.append(type(cur).__name__)
        cur = cur.__cause__ or cur.__context__
    return " <- ".join(names)


def attempt(label: str, func) -> object:
    events.clear()
    executed()
    try:
        result = func()
        outcome = "OK"
    except Exception as e:  # noqa: the demo prints whatever happens
        result = None
        outcome = f"{chain(e)}: {clean(str(e))} args={clean(repr(getattr(e, 'spec', None)))}"
    print(f"[{label}] {outcome}")
    print(f"    events={events} executed={executed()}")
    return result


RULE_YAML = (
    """
title: Test
status: test
logsource:
    category: test
detection:
    sel:
        field|expand: "%var%"
        other: value
    condition: sel
"""
)


def convert(pipeline: ProcessingPipeline):
    # the rule is parsed again for each conversion: pipelines change rules in place
    # pipelines without transformations (template documents) get the rule without placeholder
    text = RULE_YAML if pipeline.items else RULE_YAML.replace('|expand: "%var%"', ": plain")
    rule = SigmaCollection.from_yaml(text)
    return TextQueryTestBackend(pipeline).convert(rule)


OPTIN = {
    "allow_external_sources": True,
    "allow_template_vars": True,
    "vars_allowed_paths": ["/", str(OUTSIDE)],
}

EXTERNAL_ITEMS = {
    "file": {"type": "file_placeholders", "path": str(SECRET)},
    "command": {"type": "command_placeholders", "cmd": "echo gamma"},
    "http": {"type": "http_placeholders", "url": "http://127.0.0.1:9/values"},
}


def external_document(kind: str, nesting: int) -> dict:
    item = {"id": f"ext_{kind}", **EXTERNAL_ITEMS[kind], **OPTIN}
    for level in range(nesting):
        item = {"id": f"nest{level}", "type": "nest", "items": [item], **OPTIN}
    return {"name": f"ext-{kind}-{nesting}", "priority": 10, "transformations": [item]}


def template_document(vars_path: str, where: str) -> dict:
    template_item = {"type": "template", "template": "{{ origin }}", "vars": vars_path, **OPTIN}
    d: dict = {"name": f"tpl-{where}", "priority": 20}
    if where == "postprocessing":
        d["postprocessing"] = [template_item]
    elif where == "finalizer":
        d["finalizers"] = [template_item]
    elif where == "nested-finalizer":
        d["finalizers"] = [
            {
                "type": "nested",
                "finalizers": [{"type": "nested", "finalizers": [template_item], **OPTIN}],
                **OPTIN,
            }
        ]
    return d


def write(path: Path, d: dict) -> str:
    path.write_text(yaml.safe_dump(d))
    return str(path)


def set_env(value: str | None) -> None:
    for name in ("PYSIGMA_ALLOW_EXTERNAL_SOURCES", "PYSIGMA_ALLOW_VARS_EXECUTION"):
        if value is None:
            os.environ.pop(name, None)
        else:
            os.environ[name] = value


# ---------------------------------------------------------------------------------------------
print("=== 1. external sources: opt-in keys in the document, loaded by file through the resolver")
# ---------------------------------------------------------------------------------------------
set_env(None)
resolver = ProcessingPipelineResolver()
for kind in ("file", "command", "http"):
    for nesting in (0, 1, 3):
        path = write(PIPES / f"ext_{kind}_{nesting}.yml", external_document(kind, nesting))
        for label, load in (
            ("resolve_pipeline", lambda: resolver.resolve_pipeline(path)),
            ("resolve", lambda: resolver.resolve([path])),
            ("from_yaml", lambda: ProcessingPipeline.from_yaml(Path(path).read_text())),
            ("from_dict", lambda: ProcessingPipeline.from_dict(external_document(kind, nesting))),
        ):
            pipeline = attempt(f"load {label} {kind}/{nesting}", load)
            print("    flags:", flags(pipeline))
            print("    result:", attempt(f"convert {label} {kind}/{nesting}", lambda: convert(pipeline)))

print("=== 2. external sources: environment variable and caller opt-in")
for value in (None, "0", "1", "true", "TRUE", "yes"):
    set_env(value)
    for kind in ("file", "command"):
        path = str(PIPES / f"ext_{kind}_1.yml")
        pipeline = resolver.resolve_pipeline(path)
        print("    flags:", flags(pipeline))
        print("    result:", attempt(f"env={value!r} convert {kind}", lambda: convert(pipeline)))
set_env(None)
for kind, nesting in (("file", 0), ("command", 0), ("file", 3), ("command", 3)):
    pipeline = ProcessingPipeline.from_yaml(
        (PIPES / f"ext_{kind}_{nesting}.yml").read_text(), allow_external_sources=True
    )
    print("    flags:", flags(pipeline))
    print("    result:", attempt(f"caller opt-in convert {kind}", lambda: convert(pipeline)))

# ---------------------------------------------------------------------------------------------
print("=== 3. template vars files: location relative to the pipeline file")
# ---------------------------------------------------------------------------------------------
VARS_PATHS = {
    "inside": PIPES / "vars_inside.py",
    "below": PIPES / "sub" / "vars_below.py",
    "dotdot-inside": PIPES / "sub" / ".." / "vars_inside.py",
    "outside": OUTSIDE / "vars_outside.py",
    "dotdot-outside": PIPES / ".." / "outside" / "vars_outside.py",
    "prefix": PREFIX / "vars_prefix.py",
    "symlink-to-outside": PIPES / "vars_link.py",
    "symlink-to-inside": OUTSIDE / "vars_backlink.py",
    "missing": PIPES / "vars_missing.py",
}
for value in (None, "0", "1", "true"):
    set_env(value)
    for where in ("postprocessing", "finalizer", "nested-finalizer"):
        for name, vars_path in VARS_PATHS.items():
            if value in ("0", "true") and where != "finalizer":
                continue
            path = write(PIPES / f"tpl_{where}_{name}.yml", template_document(str(vars_path), where))
            pipeline = attempt(
                f"env={value!r} resolve_pipeline {where} vars={name}",
                lambda: resolver.resolve_pipeline(path),
            )
            if pipeline is not None:
                print("    flags:", flags(pipeline))
                print("    result:", attempt("convert", lambda: convert(pipeline)))
set_env(None)

print("=== 4. template vars files: caller arguments of from_yaml / from_dict")
for name in ("inside", "outside", "prefix", "symlink-to-outside"):
    document = template_document(str(VARS_PATHS[name]), "nested-finalizer")
    text = yaml.safe_dump(document)
    source = str(PIPES / "virtual.yml")
    for label, load in (
        ("defaults", lambda: ProcessingPipeline.from_yaml(text)),
        ("source_path only", lambda: ProcessingPipeline.from_yaml(text, source_path=source)),
        ("allow", lambda: ProcessingPipeline.from_yaml(text, allow_template_vars=True)),
        (
            "allow+source_path",
            lambda: ProcessingPipeline.from_yaml(text, allow_template_vars=True, source_path=source),
        ),
        (
            "allow+paths",
            lambda: ProcessingPipeline.from_yaml(
                text, allow_template_vars=True, vars_allowed_paths=(str(OUTSIDE),), source_path=source
            ),
        ),
        (
            "from_dict allow+paths",
            lambda: ProcessingPipeline.from_dict(
                copy.deepcopy(document), allow_template_vars=True, vars_allowed_paths=(str(PIPES),)
            ),
        ),
    ):
        pipeline = attempt(f"vars={name} {label}", load)
        if pipeline is not None:
            print("    flags:", flags(pipeline))
            print("    result:", attempt("convert", lambda: convert(pipeline)))

# ---------------------------------------------------------------------------------------------
print("=== 5. resolver: names, callables, files, directories, backends, priorities")
# ---------------------------------------------------------------------------------------------
for i, (name, priority) in enumerate((("c", 30), ("a", 10), ("b", 20), ("a2", 10))):
    write(
        GOOD / f"{name}.yml",
        {
            "name": f"good-{name}",
            "priority": priority,
            "vars": {name: i},
            "transformations": [{"id": f"id_{name}", "type": "add_field", "field": name}],
        },
    )
(GOOD / "ignored.yaml").write_text("name: ignored\n")
(GOOD / "deep").mkdir()
write(GOOD / "deep" / "d.yml", {"name": "good-d", "priority": 5, "allowed_backends": ["text"]})
(PIPES / "broken.yml").write_text("transformations: [ {type: nothing} ]\n")
(PIPES / "notyaml.yml").write_text("a: [b\n")
(PIPES / "unknown.yml").write_text("something: 1\n")

calls: list[str] = []


def factory() -> ProcessingPipeline:
    calls.append("factory")
    return ProcessingPipeline(name="made", priority=15, allowed_backends=frozenset({"text"}))


def factory_keyerror() -> ProcessingPipeline:
    calls.append("factory_keyerror")
    raise KeyError("inside factory")


named = ProcessingPipeline(name="named", priority=1)
restricted = ProcessingPipeline(name="restricted", priority=2, allowed_backends=frozenset({"text"}))
a_file = str(GOOD / "a.yml")
resolver = ProcessingPipelineResolver(
    {
        "named": named,
        "restricted": restricted,
        "made": factory,
        a_file: factory_keyerror,  # registered under the name of an existing file
        "nofile": factory_keyerror,
        str(GOOD): ProcessingPipeline(name="shadows-directory", priority=3),
    }
)


def summary(pipeline: ProcessingPipeline) -> str:
    return (
        f"name={pipeline.name!r} priority={pipeline.priority} vars={pipeline.vars} "
        f"items={[i.identifier for i in pipeline.items]} "
        f"backends={sorted(pipeline.allowed_backends)} same_named={pipeline is named}"
    )


for spec, target in (
    ("named", None),
    ("named", "text"),
    ("restricted", None),
    ("restricted", "text"),
    ("restricted", "other"),
    ("made", None),
    ("made", "text"),
    ("made", "other"),
    (a_file, None),
    (a_file, "other"),
    ("nofile", None),
    (str(GOOD / "deep" / "d.yml"), "text"),
    (str(GOOD / "deep" / "d.yml"), "other"),
    ("unknown-name", None),
    (str(GOOD / "deep"), None),
    (str(PIPES / "broken.yml"), None),
    (str(PIPES / "notyaml.yml"), None),
    (str(PIPES / "unknown.yml"), None),
    ("", None),
    ("/", None),
):
    calls.clear()
    pipeline = attempt(
        f"resolve_pipeline({clean(spec)!r}, {target!r})", lambda: resolver.resolve_pipeline(spec, target)
    )
    print("    calls:", calls, "|", summary(pipeline) if pipeline is not None else None)

for specs, target in (
    ([], None),
    (iter([]), None),
    ([str(GOOD / "deep")], None),
    ([str(GOOD / "deep") + "/"], "text"),
    ([str(GOOD / "deep") + "/*"], "other"),
    ([str(GOOD / "deep"), "named", "made"], None),
    (["made", "named", str(GOOD / "b.yml"), str(GOOD / "deep" / "d.yml")], "text"),
    ((s for s in ["named", "made"]), None),
    ([str(GOOD)], None),  # registered name wins over the directory
    ([str(GOOD) + "/"], None),  # not registered: directory
    ([str(GOOD) + "//**"], None),
    (["named", "unknown-name", "made"], None),
    (["made", "restricted"], "other"),
    ([""], None),
    (["*"], None),
    (["/*"], None),
    ([None], None),
    ([str(PIPES / "good")[:-1] + "?"], None),
    ([str(PREFIX)], None),  # directory without pipelines
):
    calls.clear()
    shown = [clean(s) if isinstance(s, str) else s for s in specs] if isinstance(specs, list) else "<iterator>"
    pipeline = attempt(f"resolve({shown!r}, {target!r})", lambda: resolver.resolve(specs, target))
    print("    calls:", calls, "|", summary(pipeline) if pipeline is not None else None)

print("=== 6. resolver: directory with pipelines that try to grant themselves capabilities")
set_env(None)
for value in (None, "1"):
    set_env(value)
    mixed = BASE / f"mixed_{value}"
    mixed.mkdir()
    write(mixed / "1_ext.yml", external_document("file", 2))
    shutil.copy(PIPES / "vars_inside.py", mixed / "vars_inside.py")
    document = template_document(str(mixed / "vars_inside.py"), "finalizer")
    document["priority"] = 1
    write(mixed / "2_tpl_ok.yml", document)
    resolver = ProcessingPipelineResolver()
    pipeline = attempt(f"env={value!r} resolve mixed directory", lambda: resolver.resolve([str(mixed)]))
    if pipeline is not None:
        print("    flags:", flags(pipeline))
        print("    result:", attempt("convert", lambda: convert(pipeline)))
    write(mixed / "3_tpl_outside.yml", template_document(str(VARS_PATHS["outside"]), "postprocessing"))
    attempt(f"env={value!r} resolve mixed directory + outside vars", lambda: resolver.resolve([str(mixed)]))
set_env(None)

shutil.rmtree(BASE, ignore_errors=True)
print("done")
