"""
Demo for property C09: rule references resolve the same way whatever the document order.

Run as: PYTHONPATH=/tmp/wt5-C09 /venv/bin/python demo.py
Prints everything it observes; the output is deterministic (seeded sampling, temporary paths
never printed) so that it can be diffed between two versions of the library.
"""

import itertools
import random
import sys
import tempfile
from collections import Counter
from pathlib import Path
from uuid import UUID

import yaml

import sigma.types
from sigma.backends.test import TextQueryTestBackend
from sigma.collection import SigmaCollection
from sigma.correlations import SigmaCorrelationRule
from sigma.exceptions import SigmaError
from sigma.processing.pipeline import ProcessingPipeline, QueryPostprocessingItem
from sigma.processing.postprocessing import EmbedQueryTransformation

print("library:", "worktree" if sigma.types.__file__.startswith("/tmp/wt5-C09/") else "OTHER")


def plain(title, name=None, id=None, event_id=1):
    d = {
        "title": title,
        "status": "test",
        "logsource": {"product": "windows", "service": "security"},
        "detection": {"sel": {"EventID": event_id}, "condition": "sel"},
    }
    if name is not None:
        d["name"] = name
    if id is not None:
        d["id"] = id
    return d


def corr(title, rules, name=None, id=None, type="event_count", generate=None, aliases=None):
    c = {
        "type": type,
        "rules": rules,
        "group-by": ["user"],
        "timespan": "5m",
    }
    if type in ("event_count", "value_count"):
        c["condition"] = {"gte": 3}
        if type == "value_count":
            c["condition"]["field"] = "host"
    if generate is not None:
        c["generate"] = generate
    if aliases is not None:
        c["aliases"] = aliases
    d = {"title": title, "status": "test", "correlation": c}
    if name is not None:
        d["name"] = name
    if id is not None:
        d["id"] = id
    return d


ID_C = "5f1a4b3e-0a4f-4a50-9d49-0d3b6c2b8a01"
ID_K = "9b2f7a10-4c1d-4f8e-8a55-6f1f0e9d7c02"

RULE_SETS = {
    # 1: a referenced without generation, b unreferenced
    "simple": [
        plain("A", "a", event_id=11),
        plain("B", "b", event_id=12),
        corr("C1", ["a"], name="c1"),
    ],
    # 2: reference by id and by name, generation enabled for one of them
    "by_id_and_generate": [
        plain("A", "a", event_id=11),
        plain("C", "c", id=ID_C, event_id=13),
        plain("U", event_id=99),
        corr("C1", ["a"], name="c1"),
        corr("C2", ["a", ID_C], name="c2", type="temporal", generate=True),
    ],
    # 3: chain of depth 2 with unrelated rule interleaved
    "chain2": [
        plain("A", "a", event_id=11),
        plain("B", "b", event_id=12),
        plain("U", "u", event_id=99),
        corr("C1", ["a"], name="c1"),
        corr("C2", ["b"], name="c2", id=ID_K, generate=True),
        corr("T", ["c1", ID_K], name="t", type="temporal"),
    ],
    # 4: chain of depth 3 (7 documents, sampled)
    "chain3": [
        plain("A", "a", event_id=11),
        plain("B", "b", event_id=12),
        plain("U", "u", event_id=99),
        corr("C1", ["a"], name="c1"),
        corr("C2", ["b", "a"], name="c2", type="temporal", generate=True),
        corr("T", ["c1", "c2"], name="t", type="temporal", generate=True),
        corr("TT", ["t", "b"], name="tt", type="temporal_ordered"),
    ],
    # 5: same rule referenced twice by one correlation and a rule with two conditions
    "double_ref": [
        {
            "title": "M",
            "name": "m",
            "status": "test",
            "logsource": {"category": "process_creation"},
            "detection": {
                "s1": {"Image|endswith": "\\a.exe"},
                "s2": {"CommandLine|contains": "x y"},
                "condition": ["s1", "s2"],
            },
        },
        plain("A", "a", event_id=11),
        corr("C1", ["m", "m", "a"], name="c1", type="temporal"),
        corr("C2", ["m"], name="c2", type="value_count", generate=True),
    ],
    # 5b: references taken from an extended condition (no rules list) and with rules list
    "extended": [
        plain("A", "a", event_id=11),
        plain("B", "b", id=ID_C, event_id=12),
        plain("U", "u", event_id=99),
        {
            "title": "E1",
            "name": "e1",
            "status": "test",
            "correlation": {
                "type": "temporal",
                "condition": "a and not b",
                "timespan": "5m",
                "group-by": ["user"],
            },
        },
        {
            "title": "E2",
            "name": "e2",
            "status": "test",
            "correlation": {
                "type": "temporal_ordered",
                "rules": ["u", "b"],
                "condition": "u or b",
                "timespan": "10m",
                "group-by": ["user"],
                "generate": True,
            },
        },
    ],
    # 5c: extended condition naming a rule that does not exist
    "extended_missing": [
        plain("A", "a", event_id=11),
        {
            "title": "E1",
            "status": "test",
            "correlation": {
                "type": "temporal",
                "condition": "a and ghost",
                "timespan": "5m",
                "group-by": ["user"],
            },
        },
    ],
    # 6: missing reference
    "missing": [
        plain("A", "a", event_id=11),
        corr("C1", ["a", "nothere"], name="c1", type="temporal"),
        plain("B", "b", event_id=12),
    ],
    # 7: missing reference by id only
    "missing_id": [
        plain("A", "a", id=ID_C, event_id=11),
        corr("C1", [ID_K], name="c1"),
    ],
    # 8: correlation referring to itself and a cycle of two
    "cycle": [
        plain("A", "a", event_id=11),
        corr("S", ["s", "a"], name="s", type="temporal"),
        corr("X", ["y"], name="x"),
        corr("Y", ["x"], name="y"),
    ],
}


def backend(finalize_sub=False, post=False):
    pipeline = None
    if post:
        pipeline = ProcessingPipeline(
            postprocessing_items=[
                QueryPostprocessingItem(EmbedQueryTransformation(prefix="[", suffix="]"))
            ]
        )
    b = TextQueryTestBackend(pipeline)
    b.finalize_correlation_subqueries = finalize_sub
    return b


def describe(exc):
    return f"{type(exc).__name__}: {exc}"


def load(path_kind, docs, tmpdir):
    """Loads the documents in the given order through one of the load paths."""
    if path_kind == "from_yaml":
        return SigmaCollection.from_yaml(yaml.safe_dump_all(docs, sort_keys=False))
    if path_kind == "from_dicts":
        return SigmaCollection.from_dicts([yaml.safe_load(yaml.safe_dump(d)) for d in docs])
    if path_kind == "merge":
        half = len(docs) // 2
        parts = [
            SigmaCollection.from_dicts(
                [yaml.safe_load(yaml.safe_dump(d)) for d in part], resolve_references=False
            )
            for part in (docs[:half], docs[half:])
        ]
        return SigmaCollection.merge(parts)
    if path_kind == "load_ruleset":
        paths = []
        for i, d in enumerate(docs):
            p = Path(tmpdir) / f"r{i}.yml"
            p.write_text(yaml.safe_dump(d, sort_keys=False), encoding="utf-8")
            paths.append(p)
        return SigmaCollection.load_ruleset(paths)
    raise ValueError(path_kind)


def observe(path_kind, docs, tmpdir, finalize_sub=False, post=False):
    """Outcome of loading and converting: order, output flags, queries per title or the error."""
    try:
        coll = load(path_kind, docs, tmpdir)
    except SigmaError as e:
        return ("LOAD-ERROR", type(e).__name__, str(e).split(" in /")[0])
    order = tuple(r.title for r in coll.rules)
    pos = {t: i for i, t in enumerate(order)}
    refs_first = all(
        pos[ref.rule.title] < pos[r.title] or ref.rule is r or r.title in ("X", "Y")
        for r in coll.rules
        if isinstance(r, SigmaCorrelationRule)
        for ref in r.referenced_rules
    )
    flags = tuple(
        sorted((r.title, r._output, tuple(sorted(b.title for b in r._backreferences))) for r in coll)
    )
    unref = tuple(sorted(r.title for r in coll.get_unreferenced_rules()))
    outp = tuple(sorted(r.title for r in coll.get_output_rules()))
    b = backend(finalize_sub, post)
    try:
        per_rule = []
        for r in coll.rules:
            qs = (
                b.convert_rule(r)
                if not isinstance(r, SigmaCorrelationRule)
                else b.convert_correlation_rule(r)
            )
            per_rule.append((r.title, tuple(qs)))
        conv = tuple(sorted(per_rule))
        stored = tuple(sorted((r.title, tuple(r.get_conversion_result())) for r in coll.rules))
    except (SigmaError, RecursionError) as e:
        conv = ("CONVERT-ERROR", type(e).__name__, str(e)[:80])
        stored = ()
    try:
        coll2 = load(path_kind, docs, tmpdir)
        whole = Counter(backend(finalize_sub, post).convert(coll2))
        whole = tuple(sorted(whole.items()))
    except (SigmaError, RecursionError) as e:
        whole = ("CONVERT-ERROR", type(e).__name__, str(e)[:80])
    return (refs_first, flags, unref, outp, conv, stored, whole), order


rnd = random.Random(9)
with tempfile.TemporaryDirectory(dir="/tmp/wt5-C09/out") as tmpdir:
    for set_name, docs in RULE_SETS.items():
        n = len(docs)
        perms = list(itertools.permutations(range(n)))
        if n > 6:
            perms = [perms[0], perms[-1]] + rnd.sample(perms, 150)
        elif n == 6:
            perms = [perms[0], perms[-1]] + rnd.sample(perms, 200)
        print(f"=== rule set {set_name}: {n} documents, {len(perms)} orders")
        for path_kind in ("from_yaml", "from_dicts", "merge", "load_ruleset"):
            if path_kind == "load_ruleset" and len(perms) > 130:
                use = perms[:60]
            else:
                use = perms
            outcomes = {}
            orders = Counter()
            for perm in use:
                res = observe(path_kind, [docs[i] for i in perm], tmpdir)
                if res[0] == "LOAD-ERROR":
                    outcome, order = res, None
                else:
                    outcome, order = res
                outcomes.setdefault(outcome, []).append(perm)
                orders[order] += 1
            print(f"--- {path_kind}: {len(use)} orders -> {len(outcomes)} distinct outcome(s)")
            for outcome, ps in outcomes.items():
                print(f"  outcome seen {len(ps)} times, first for order {ps[0]}:")
                if outcome[0] == "LOAD-ERROR":
                    print("   ", outcome)
                else:
                    labels = (
                        "refs_first",
                        "flags",
                        "unreferenced",
                        "output_rules",
                        "queries_per_rule",
                        "stored_results",
                        "convert()",
                    )
                    for label, value in zip(labels, outcome):
                        print(f"    {label}: {value!r}")
            print("  resulting rule orders:", sorted(orders.items(), key=repr))

    # Variants of the backend: sub-queries finalized, postprocessing that makes raw != finalized
    print("=== backend variants on chain2/by_id_and_generate, three orders each")
    for set_name in ("chain2", "by_id_and_generate", "double_ref"):
        docs = RULE_SETS[set_name]
        n = len(docs)
        for perm in (tuple(range(n)), tuple(reversed(range(n))), tuple(rnd.sample(range(n), n))):
            for finalize_sub, post in ((False, True), (True, True), (True, False)):
                res = observe("from_yaml", [docs[i] for i in perm], tmpdir, finalize_sub, post)
                print(set_name, perm, "finalize_sub", finalize_sub, "post", post)
                print("   queries:", res[0][4])
                print("   stored :", res[0][5])
                print("   whole  :", res[0][6])

    # collect_errors and output formats
    print("=== convert() of a collection reversed after loading (convert resolves again), collect_errors")
    docs = RULE_SETS["chain2"]
    coll = SigmaCollection.from_dicts([yaml.safe_load(yaml.safe_dump(d)) for d in reversed(docs)])
    b = backend()
    b.collect_errors = True
    coll.rules.reverse()  # referencing rules first on purpose
    print(b.convert(coll))
    print([(r.title, type(e).__name__, str(e)[:60]) for r, e in b.errors])
    cyc = SigmaCollection.from_dicts(
        [yaml.safe_load(yaml.safe_dump(d)) for d in RULE_SETS["cycle"]]
    )
    b = backend()
    b.collect_errors = True
    print("cycle:", b.convert(cyc))
    print([(r.title, type(e).__name__, str(e)[:60]) for r, e in b.errors])
    for fmt in ("default", "str", "list_of_dict"):
        coll = SigmaCollection.from_dicts([yaml.safe_load(yaml.safe_dump(d)) for d in reversed(docs)])
        print(fmt, repr(backend().convert(coll, fmt)))

    # Rule objects reused in another collection: references are determined per collection
    print("=== reuse of rule objects in a second collection")
    docs = RULE_SETS["by_id_and_generate"]
    coll = SigmaCollection.from_dicts([yaml.safe_load(yaml.safe_dump(d)) for d in reversed(docs)])
    print([(r.title, r._output, len(r._backreferences)) for r in coll.rules])
    plain_only = [r for r in coll.rules if not isinstance(r, SigmaCorrelationRule)]
    second = SigmaCollection(plain_only)
    print([(r.title, r._output, len(r._backreferences)) for r in second.rules])
    print(backend().convert(second))
    third = SigmaCollection(list(reversed(coll.rules)))
    print([(r.title, r._output, len(r._backreferences)) for r in third.rules])
    third.resolve_rule_references()
    third.resolve_rule_references()
    print([(r.title, r._output, len(r._backreferences)) for r in third.rules])
    print(backend().convert(third))
    a = third["a"]
    a.disable_output()
    third.resolve_rule_references()
    print("explicitly disabled stays disabled:", a._output, backend().convert(third))

    # Lookup
    print("=== lookup")
    for key in (0, -1, 7, True, "a", "c", ID_C, UUID(ID_C), ID_C.upper(), ID_K, UUID(ID_K), "", "C"):
        try:
            print(repr(key), "->", third[key].title)
        except SigmaError as e:
            print(repr(key), "->", describe(e))
    print(repr(1.5), "->", third[1.5])

    # collect_errors at load time does not hide a missing reference
    print("=== missing reference with collect_errors")
    try:
        SigmaCollection.from_yaml(
            yaml.safe_dump_all(RULE_SETS["missing"], sort_keys=False), collect_errors=True
        )
        print("loaded")
    except SigmaError as e:
        print(describe(e))
    unresolved = SigmaCollection.from_yaml(
        yaml.safe_dump_all(RULE_SETS["missing"], sort_keys=False), resolve_references=False
    )
    print([r.title for r in unresolved.rules], [r._output for r in unresolved.rules])
    try:
        unresolved.resolve_rule_references()
    except SigmaError as e:
        print(describe(e))
    print([(r.title, r._output, len(r._backreferences)) for r in unresolved.rules])

# Failures and callbacks in the last conversion step (finalization, storing, output selection)
print("=== finalization failures and callbacks")


class FailingBackend(TextQueryTestBackend):
    fail_with = ValueError

    def finalize_query_default(self, rule, query, index, state):
        if rule.title in ("B", "T"):
            raise self.fail_with("cannot finalize " + rule.title)
        return super().finalize_query_default(rule, query, index, state)


def chain2_collection(order):
    docs = RULE_SETS["chain2"]
    return SigmaCollection.from_dicts([yaml.safe_load(yaml.safe_dump(docs[i])) for i in order])


for order in ((0, 1, 2, 3, 4, 5), (5, 4, 3, 2, 1, 0), (3, 5, 0, 2, 4, 1)):
    for exc_class in (ValueError, NotImplementedError, SigmaError):
        for collect in (False, True):
            fb = FailingBackend()
            fb.fail_with = exc_class
            fb.collect_errors = collect
            coll = chain2_collection(order)
            try:
                result = fb.convert(coll)
                print(order, exc_class.__name__, collect, "->", result)
            except Exception as e:
                print(order, exc_class.__name__, collect, "raised", type(e).__name__, e.args)
            print("   errors:", [(r.title, type(e).__name__, str(e)) for r, e in fb.errors])
            stored = []
            for r in coll.rules:
                try:
                    stored.append((r.title, r.get_conversion_result(), len(r.get_conversion_states())))
                except SigmaError as e:
                    stored.append((r.title, type(e).__name__))
            print("   stored:", stored)

    calls = []

    def callback(rule, output_format, index, cond, result):
        calls.append((rule.title, output_format, index, result is None))
        if rule.title == "A":
            return None  # the query of A is dropped, C1 has nothing to embed
        if rule.title == "U":
            return "replaced(" + result + ")"
        return result

    coll = chain2_collection(order)
    try:
        print(order, "callback ->", backend(post=True).convert(coll, "str", callback=callback))
    except Exception as e:
        print(order, "callback raised", type(e).__name__, str(e)[:100])
    print("   calls:", calls)
    print(
        "   stored:",
        [(r.title, r._conversion_result, r._conversion_states is not None) for r in coll.rules],
    )

print("done")
sys.exit(0)
