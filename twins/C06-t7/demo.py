"""Round trips of rules, filters and correlation rules through to_dict/YAML (property C06)."""
import traceback

import yaml

from sigma.collection import SigmaCollection
from sigma.exceptions import SigmaError
from sigma.filters import SigmaFilter, SigmaGlobalFilter
from sigma.processing.pipeline import ProcessingItem, ProcessingPipeline
from sigma.processing.transformations import (
    AddConditionTransformation,
    FieldMappingTransformation,
    DropDetectionItemTransformation,
)
from sigma.processing.conditions import IncludeFieldCondition
from sigma.rule import SigmaDetection, SigmaDetections, SigmaLogSource, SigmaRule
from sigma.rule.detection import EmptySigmaDetections
from sigma.rule.logsource import EmptyLogSource
from sigma.correlations import SigmaRuleReference
from sigma.backends.test import TextQueryTestBackend


def show(label, fn):
    try:
        print(f"{label}: {fn()!r}")
    except Exception as e:  # exception class and message are part of the behaviour
        print(f"{label}: EXC {type(e).__name__}: {e}")


RULES = {
    "simple": """
title: Simple
id: 5013332f-8a70-4a04-bcc1-06a98a2cca2e
status: test
date: 2024/01/02
modified: 2024-03-04
logsource:
    category: process_creation
    product: windows
detection:
    sel:
        Image|endswith: '\\cmd.exe'
        CommandLine|contains|all:
            - foo
            - 'b*r?'
    condition: sel
""",
    "multi-condition": """
title: Multiple conditions
logsource:
    service: sysmon
    definition: some text
    custom_ls: [1, 2]
    another: {a: b}
detection:
    sel1:
        - a: 1
        - b: null
    sel2:
        - kw1
        - kw*2
    filter_x:
        c|re: 'a.*b'
        d|cidr: 10.0.0.0/8
    condition:
        - sel1 and not filter_x
        - 1 of sel*
tags:
    - attack.t1059
    - cve.2024-1234
related:
    - id: 08fbc97d-0a2f-491c-ae21-8ffcfd3174e9
      type: derived
custom_top: {x: [1, 2, 3]}
""",
    "numeric-logsource": """
title: Odd log source
logsource:
    product: "123"
    service: ""
detection:
    "1":
        f|base64offset|contains: abc
        g|exists: true
        h|gte: 5
    condition: "1"
""",
    "single-condition-list": """
title: One condition in a list
logsource:
    category: test
detection:
    selection:
        field|windash|contains: " -x"
        other|fieldref: field
    condition:
        - selection
""",
}

FILTERS = {
    "filter-list": """
title: Filter with list
logsource:
    category: process_creation
    product: windows
    extra: yes
filter:
    rules:
        - 5013332f-8a70-4a04-bcc1-06a98a2cca2e
        - some_name
    selection:
        User|startswith: 'adm_'
    condition: not selection
""",
    "filter-any": """
title: Filter any
logsource:
    category: process_creation
filter:
    rules: ANY
    sel_a:
        a: 1
    sel_b:
        - b: 2
        - c|contains: x
    condition: not 1 of sel_*
""",
    "filter-single": """
title: Filter single ref
logsource:
    product: windows
filter:
    rules: 5013332f-8a70-4a04-bcc1-06a98a2cca2e
    selection:
        a: b
    condition: selection
""",
    "filter-empty-list": """
title: Filter empty list
logsource:
    product: windows
filter:
    rules: []
    selection:
        a: b
    condition: selection
""",
}

backend = TextQueryTestBackend()

print("== rules ==")
for name, text in RULES.items():
    rule = SigmaRule.from_yaml(text)
    d = rule.to_dict()
    print(name, "dict:", d)
    print(name, "key order:", list(d), list(d["logsource"]), list(d["detection"]))
    again = SigmaRule.from_dict(d)
    print(name, "same dict after reload:", again.to_dict() == d, again == rule)
    dumped = yaml.safe_dump(d, sort_keys=False)
    print(name, "yaml reload same:", SigmaRule.from_yaml(dumped).to_dict() == d)
    show(name + " queries", lambda: backend.convert(SigmaCollection([SigmaRule.from_yaml(text)])))
    show(name + " queries reloaded", lambda: backend.convert(SigmaCollection([SigmaRule.from_dict(d)])))
    show(name + " logsource", rule.logsource.to_dict)
    show(name + " detections", rule.detection.to_dict)

print("== filters ==")
for name, text in FILTERS.items():
    flt = SigmaFilter.from_yaml(text)
    d = flt.to_dict()
    print(name, "dict:", d)
    print(name, "key order:", list(d), list(d["logsource"]), list(d["filter"]))
    again = SigmaFilter.from_dict(d)
    print(name, "same dict after reload:", again.to_dict() == d)
    dumped = yaml.safe_dump(d, sort_keys=False)
    print(name, "yaml reload same:", SigmaFilter.from_yaml(dumped).to_dict() == d)
    show(name + " global filter", flt.filter.to_dict)

print("== after pipeline transformations ==")
pipelines = {
    "mapping": ProcessingPipeline(
        [ProcessingItem(FieldMappingTransformation({"Image": "process.exe", "a": ["a1", "a2"]}))]
    ),
    "add-condition": ProcessingPipeline(
        [ProcessingItem(AddConditionTransformation({"index": "main"}, "added"))]
    ),
    "drop": ProcessingPipeline(
        [
            ProcessingItem(
                DropDetectionItemTransformation(),
                field_name_conditions=[IncludeFieldCondition(["Image", "a", "c"])],
            )
        ]
    ),
}
for pname, pipeline in pipelines.items():
    for name, text in RULES.items():
        rule = SigmaRule.from_yaml(text)
        try:
            pipeline.apply(rule)
        except SigmaError as e:
            print(pname, name, "apply EXC", type(e).__name__, e)
            continue
        show(f"{pname}/{name} to_dict", rule.to_dict)

print("== unusual objects built by hand ==")
show("logsource all", SigmaLogSource("c", "p", "s", "d", None, {"category": "overridden", "z": 1}).to_dict)
show("logsource non-str", SigmaLogSource(None, None, None, None).to_dict if False else EmptyLogSource().to_dict)
show("logsource empty custom", SigmaLogSource(product="p", custom_attributes={}).to_dict)
show("logsource from_dict _PLAIN_FIELDS key", SigmaLogSource.from_dict({"product": "p", "_PLAIN_FIELDS": "x"}).to_dict)
show("empty detections", EmptySigmaDetections().to_dict)
det = SigmaDetection.from_definition({"a": 1})
show(
    "detection named condition",
    SigmaDetections({"zz": det, "condition": SigmaDetection.from_definition({"b": 2}), "yy": det}, ["zz"]).to_dict,
)
show("global filter str rules", SigmaGlobalFilter({"s": det}, ["s"], rules="any").to_dict)
show("global filter odd str rules", SigmaGlobalFilter({"s": det}, ["s"], rules="Whatever").to_dict)
show("global filter tuple rules", SigmaGlobalFilter({"s": det}, ["s"], rules=(SigmaRuleReference("r1"),)).to_dict)
show("global filter None rules", SigmaGlobalFilter({"s": det}, ["s"], rules=None).to_dict)
show("global filter bad refs", SigmaGlobalFilter({"s": det}, ["s"], rules=["plain"]).to_dict)
show("global filter empty rules", SigmaGlobalFilter({"s": det}, ["s"]).to_dict)
r = SigmaRule.from_yaml(RULES["simple"])
r.custom_attributes["logsource"] = "custom wins position"
r.custom_attributes["detection"] = "x"
d = r.to_dict()
print("custom logsource key:", list(d), d["logsource"], d["detection"])
f = SigmaFilter.from_yaml(FILTERS["filter-any"])
f.custom_attributes["filter"] = "x"
d = f.to_dict()
print("custom filter key:", list(d), d["filter"])
show("filter collect_errors placeholder", SigmaFilter.from_dict({"title": "t"}, collect_errors=True).to_dict)
show("rule collect_errors placeholder", SigmaRule.from_dict({"title": "t"}, collect_errors=True).to_dict)

print("== correlation ==")
coll = SigmaCollection.from_yaml(
    RULES["simple"].replace("title: Simple", "title: Simple\nname: base_rule")
    + """
---
title: Correlation
correlation:
    type: event_count
    rules:
        - base_rule
    group-by:
        - User
    timespan: 5m
    condition:
        gte: 10
"""
)
for rule in coll.rules:
    show("collection rule dict", rule.to_dict)
show("collection queries", lambda: backend.convert(coll))
