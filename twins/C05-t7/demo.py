"""Demo for C05/t7: string rendering through TextQueryBackend.convert_value_str,
decide_string_quoting and SigmaString.to_regex on many inputs and backend configurations."""
import itertools
import random
import re

from sigma.conversion.state import ConversionState
from sigma.backends.test import TextQueryTestBackend
from sigma.types import SigmaString, SpecialChars, Placeholder
from sigma.exceptions import SigmaError

CONFIGS = {
    "default": {},
    "noquote": {"str_quote": ""},
    "pattern_neg": {"str_quote_pattern": re.compile(r"^\w+$"), "str_quote_pattern_negation": True},
    "pattern_pos": {"str_quote_pattern": re.compile(r".*\s"), "str_quote_pattern_negation": False},
    "pattern_none": {"str_quote_pattern": None},
    "single_quote_filter": {
        "str_quote": "'", "escape_char": "'", "add_escaped": "'%", "filter_chars": "\r\n;",
        "wildcard_multi": "%", "wildcard_single": "_",
    },
    "multichar_wc": {"wildcard_multi": ".*", "wildcard_single": ".", "add_escaped": ".[]", "escape_char": "\\"},
    "no_escape_char": {"escape_char": None, "add_escaped": "", "str_quote": ""},
    "no_escape_char_quote": {"escape_char": None},
    "no_wildcards": {"wildcard_multi": None, "wildcard_single": None},
    "quote_seq": {"str_quote": '"""', "add_escaped": "\\"},
    "add_escaped_re": {"add_escaped_re": "/ "},
}


def make_backend(name, attrs):
    cls = type("Backend_" + name, (TextQueryTestBackend,), dict(attrs))
    return cls()


ALPHABET = ["\\", "*", "?", '"', "'", "a", ".", "%", "_", " ", ";", "[", "|", "/", "\n"]

inputs = [""]
for n in (1, 2):
    inputs += ["".join(t) for t in itertools.product(ALPHABET, repeat=n)]
rnd = random.Random(50507)
for _ in range(300):
    inputs.append("".join(rnd.choice(ALPHABET) for _ in range(rnd.randint(3, 9))))
inputs += [
    r"C:\Windows\*\cmd?.exe", r"\\*\\?\\\*", "tr\\ailing\\", 'say "hi" and \'bye\'', "üñí*ç?dé",
    "tab\there", "$(echo) {x}^y+z", "a" * 50 + "*",
]


def show(f):
    try:
        return repr(f())
    except SigmaError as e:
        return "EXC %s: %s" % (type(e).__name__, e)


state = ConversionState()
lines = 0
for name, attrs in CONFIGS.items():
    backend = make_backend(name, attrs)
    for raw in inputs:
        s = SigmaString(raw)
        before = (s.original, list(s.s))
        print(
            name, repr(raw),
            "| str:", show(lambda: backend.convert_value_str(s, state)),
            "| quote:", show(lambda: backend.decide_string_quoting(s)),
            "| re:", show(lambda: str(s.to_regex(backend.add_escaped_re).regexp)),
        )
        assert before == (s.original, list(s.s)), "value mutated"
        lines += 1

# to_regex semantics: regular expression matches exactly what the wildcard pattern matches
subjects = ["".join(t) for n in range(0, 4) for t in itertools.product("a.*\\", repeat=n)]
for raw in ["a*", "?.", "\\*a", "a\\\\*", "*.?", "\\?\\\\", "..", ""]:
    s = SigmaString(raw)
    rx = re.compile(str(s.to_regex().regexp), re.DOTALL)
    print("regex", repr(raw), repr(rx.pattern), [x for x in subjects if rx.fullmatch(x)][:12])
    print("regex custom", repr(raw), repr(str(s.to_regex("a/").regexp)), repr(s.to_regex("").regexp.s), repr(s.to_regex("a/").escape(("/",))))

# hand-built part lists: placeholders and foreign parts
weird = SigmaString("x")
weird.s = ["a*b", SpecialChars.WILDCARD_MULTI, Placeholder("ph"), "c"]
b = make_backend("default", {})
print("placeholder", show(lambda: b.convert_value_str(weird, state)), show(lambda: weird.to_regex()))
weird.s = ["a", 5, "b"]
print("foreign", show(lambda: b.convert_value_str(weird, state)), show(lambda: weird.to_regex()))
weird.s = []
print("empty parts", show(lambda: b.convert_value_str(weird, state)), show(lambda: str(weird.to_regex().regexp)))

# plain round trip is reported as observed (HEAD itself does not round trip a literal backslash
# directly before a wildcard; this refactoring does not touch to_plain)
mismatches = [raw for raw in inputs if not (SigmaString(SigmaString(raw).to_plain()) == SigmaString(raw))]
print("plain round trip mismatches:", len(mismatches), mismatches[:10])
print("lines:", lines)
